import NgoVerif.Model.Collect
/-!
# Model of `ngo/cleanup.py` (`CleanupTranslator`)

Everything of `execute` except its first line (`inline_arithmetic`, modelled elsewhere): the program handed to
`execute` here is the program *after* `inline_arithmetic`.

Conventions

* Python sets of `Mapping`s are duplicate-free lists in insertion order (`Set` below).  No result of this module
  depends on the iteration order of `self.superseeds`: it is only intersected, united, closed under composition
  (a least fixpoint) and searched existentially (`_superseeded`).
* Python `assert`s / exceptions are `Except String` errors.  In the typed mirror the conditions of conditional
  literals and aggregate elements are `List Lit`, so `assert cond.ast_type == ASTType.Literal` (and the two
  structural asserts on `HeadAggregate` elements) hold by construction; the remaining ones
  (`assert rule.ast_type == ASTType.Rule`, `assert isinstance(superseed, set)`, `IndexError` on `var_map` look-ups,
  `ValueError` of `list.remove`) are explicit error branches.
* term equality (`arg in head_symbol.arguments`, `.index(arg)`, `lhs_arg != rhs_arg`, `list.remove`) is clingo's
  AST equality, which is structural and ignores locations: the derived `BEq`.
-/
namespace NgoVerif
namespace Cleanup

/-- `Mapping(head_pred, body_pred, var_map)` -/
structure Mapping where
  headPred : Pred
  bodyPred : SPred
  varMap : List Nat
  deriving Repr, BEq, DecidableEq, Inhabited

/-! ## finite sets as duplicate-free lists -/

def setInsert (s : List Mapping) (m : Mapping) : List Mapping := if s.contains m then s else s ++ [m]
/-- `s.update(t)` / `s | t` -/
def setUnion (s t : List Mapping) : List Mapping := t.foldl setInsert s
/-- `set(xs)` -/
def setOf (xs : List Mapping) : List Mapping := setUnion [] xs
/-- `s.intersection_update(t)` -/
def setInter (s t : List Mapping) : List Mapping := s.filter t.contains

/-! ## views -/

/-- `is_predicate(lit)`: the literal's symbol `(name, arguments)` if it is a `SymbolicAtom` over a `Function` -/
def litSymbol? : Lit → Option (String × List Term)
  | (_, .sym (.fn name args _)) => some (name, args)
  | _ => none

def isPredicate (l : Lit) : Bool := (litSymbol? l).isSome

/-- `xs.index(x)` (first position, AST equality); `none` iff `x not in xs` -/
def indexOf? (x : Term) : List Term → Option Nat
  | [] => none
  | y :: ys => if y == x then some 0 else (indexOf? x ys).map (· + 1)

/-- a body/condition element seen as a literal (a `ConditionalLiteral` is not a `Literal`) -/
class LitView (α : Type) where
  view : α → Option Lit

instance : LitView Lit := ⟨some⟩
instance : LitView BLit := ⟨fun | .lit l => some l | .clit _ => none⟩

/-! ## `_create_mappings` -/

/-- one `cond` of `_create_mappings` -/
def createMapping (headName : String) (headArgs : List Term) (cond : Lit) : List Mapping :=
  match litSymbol? cond with
  | none => []
  | some (bname, bargs) =>
    -- `for arg in body_symbol.arguments: if arg in head_symbol.arguments: var_map.append(index)`
    let varMap := bargs.filterMap (fun a => indexOf? a headArgs)
    if varMap.length == bargs.length then
      [⟨⟨headName, headArgs.length⟩, ⟨cond.1, ⟨bname, bargs.length⟩⟩, varMap⟩]
    else []

/-- `_create_mappings(head_symbol, body_lits)`, in yield order -/
def createMappings (headSym : String × List Term) (bodyLits : List Lit) : List Mapping :=
  bodyLits.flatMap (createMapping headSym.1 headSym.2)

/-- `_collect_top_level_body_symbols` -/
def collectTopLevelBodySymbols (body : List BLit) : List Lit :=
  body.filterMap fun
    | .lit l => if isPredicate l then some l else none
    | .clit _ => none

/-- head symbols of `pred` among the elements of a choice/disjunction/head aggregate together with the local
mappings created from the element conditions -/
def headElems (pred : Pred) (elems : List CondLit) : List (String × List Term) × List Mapping :=
  elems.foldl (fun (acc : List (String × List Term) × List Mapping) e =>
    match litSymbol? e.1 with
    | none => acc
    | some (n, args) =>
      if pred != ⟨n, args.length⟩ then acc
      else (acc.1 ++ [(n, args)], setUnion acc.2 (setOf (createMappings (n, args) e.2)))) ([], [])

/-- `_compute_local_superseed(pred, rule)` -/
def computeLocalSuperseed (pred : Pred) (rule : Stm) : Except String (List Mapping) :=
  match rule with
  | .rule _ _ head body =>
    let (headSymbols, loc) : List (String × List Term) × List Mapping :=
      match head with
      | .lit l =>
        -- `if is_predicate(head)`; a non-predicate head literal matches none of the `elif`s
        match litSymbol? l with
        | some (n, args) => if pred == ⟨n, args.length⟩ then ([(n, args)], []) else ([], [])
        | none => ([], [])
      | .hagg _ _ elems _ => headElems pred (elems.map (·.2))
      | .agg _ elems _ => headElems pred elems
      | .disj elems => headElems pred elems
      | .theory _ => ([], [])
    let bodyLiterals := collectTopLevelBodySymbols body
    pure (headSymbols.foldl (fun acc sym => setUnion acc (setOf (createMappings sym bodyLiterals))) loc)
  | _ => throw "assert rule.ast_type == ASTType.Rule"

/-! ## `transitive_closure` -/

/-- `new_relations` of one round; `lhs.var_map[m]` out of range is Python's `IndexError` -/
def composeAll (closure : List Mapping) : Except String (List Mapping) := do
  let mut new : List Mapping := []
  for lhs in closure do
    for rhs in closure do
      if lhs.bodyPred.sign == .pos && lhs.bodyPred.pred == rhs.headPred then
        match rhs.varMap.mapM (fun m => lhs.varMap[m]?) with
        | some vm => new := setInsert new ⟨lhs.headPred, rhs.bodyPred, vm⟩
        | none => throw "IndexError: var_map"
  pure new

/-- the `while True` loop: one composition round per unit of fuel, stop when nothing new appears -/
def closureLoop : Nat → List Mapping → Except String (List Mapping)
  | 0, _ => throw "transitive_closure: out of fuel"
  | fuel + 1, closure => do
    let new ← composeAll closure
    let untilNow := setUnion closure new
    -- `closure ⊆ untilNow`, both duplicate free: equal as sets iff equally long
    if untilNow.length == closure.length then pure closure else closureLoop fuel untilNow

def dedupBy {α : Type} [BEq α] (xs : List α) : List α :=
  xs.foldl (fun acc x => if acc.contains x then acc else acc ++ [x]) []

/-- Fuel for `closureLoop`.  Every mapping produced by `_create_mappings` satisfies
`len(var_map) = body arity` and `var_map[i] < head arity`, and composition preserves both; a composed mapping takes
its head predicate from some element of `a` and its signed body predicate from some element of `a`.  Hence all
mappings that can ever be in the closure lie in a universe of at most
`Σ_{h ∈ heads(a), b ∈ bodies(a)} arity(h) ^ arity(b)` elements.  Every round but the last adds at least one new
mapping, so `universe + 1` rounds suffice. -/
def closureFuel (a : List Mapping) : Nat :=
  let heads := dedupBy (a.map (·.headPred))
  let bodies := dedupBy (a.map (·.bodyPred))
  (heads.foldl (fun acc h => bodies.foldl (fun acc' b => acc' + h.arity ^ b.pred.arity) acc) 0) + 1

/-- `transitive_closure(a)` -/
def transitiveClosure (a : List Mapping) : Except String (List Mapping) :=
  let a' := setOf a
  closureLoop (closureFuel a') a'

/-! ## `_find_superseeded` -/

/-- `pred2rules[pred].append(index)` on an association list kept in first-occurrence order of the keys -/
def p2rAppend (d : List (Pred × List Nat)) (p : Pred) (i : Nat) : List (Pred × List Nat) :=
  if d.any (·.1 == p) then d.map (fun e => if e.1 == p then (e.1, e.2 ++ [i]) else e) else d ++ [(p, [i])]

def pred2rulesAux (inputs : List Pred) : Nat → List Stm → List (Pred × List Nat) → List (Pred × List Nat)
  | _, [], d => d
  | i, stm :: rest, d =>
    let d' := stm.headDerivable.foldl
      (fun d sp => if inputs.contains sp.pred then d else p2rAppend d sp.pred i) d
    pred2rulesAux inputs (i + 1) rest d'

/-- step 1 of `_find_superseeded`; a rule index occurs once per head occurrence of the predicate -/
def pred2rules (prg : Prog) (inputs : List Pred) : List (Pred × List Nat) :=
  pred2rulesAux inputs 0 prg []

/-- the inner loop over `rule_ids` -/
def superseedOf (prg : Prog) (pred : Pred) : List Nat → Option (List Mapping) → Except String (Option (List Mapping))
  | [], acc => pure acc
  | id :: ids, acc => do
    match prg[id]? with
    | none => throw "IndexError: prg[id_]"
    | some rule =>
      let loc ← computeLocalSuperseed pred rule
      match acc with
      | none => superseedOf prg pred ids (some loc)
      | some s => superseedOf prg pred ids (some (setInter s loc))

/-- `_find_superseeded(prg)`: the value of `self.superseeds` afterwards (it starts empty) -/
def findSuperseeded (prg : Prog) (inputs : List Pred) : Except String (List Mapping) := do
  let mut sups : List Mapping := []
  for (pred, ruleIds) in pred2rules prg inputs do
    match ← superseedOf prg pred ruleIds none with
    | none => throw "assert isinstance(superseed, set)"
    | some s => sups := setUnion sups s
  transitiveClosure sups

/-! ## `_superseeded` -/

/-- one mapping of the `for m in self.superseeds` loop: `none` = the guard does not hold, `some fits` otherwise -/
def fitsMapping (m : Mapping) (lhsPred rhsPred : Pred) (rhsSign : Sign) (lhsArgs rhsArgs : List Term) :
    Except String Bool :=
  if m.headPred == lhsPred && m.bodyPred.pred == rhsPred && m.bodyPred.sign == rhsSign then do
    -- the Python loop does not `break`: every index is looked up
    let mut fits := true
    let mut rhsIndex := 0
    for lhsIndex in m.varMap do
      match rhsArgs[rhsIndex]?, lhsArgs[lhsIndex]? with
      | some r, some l => if r != l then fits := false
      | _, _ => throw "IndexError: arguments"
      rhsIndex := rhsIndex + 1
    pure fits
  else pure false

def anyFits (lhsPred rhsPred : Pred) (rhsSign : Sign) (lhsArgs rhsArgs : List Term) :
    List Mapping → Except String Bool
  | [] => pure false
  | m :: ms => do
    if ← fitsMapping m lhsPred rhsPred rhsSign lhsArgs rhsArgs then pure true
    else anyFits lhsPred rhsPred rhsSign lhsArgs rhsArgs ms

def isAnonVar : Term → Bool
  | .var "_" => true
  | _ => false

/-- the equal-predicate branch: `zip` of the argument lists -/
def sameArgs : List Term → List Term → Bool
  | l :: ls, r :: rs => (isAnonVar r || l == r) && sameArgs ls rs
  | _, _ => true

/-- `_superseeded(lhs, rhs)` on literals -/
def superseededLit (sups : List Mapping) (lhs rhs : Lit) : Except String Bool :=
  match litSymbol? lhs, litSymbol? rhs with
  | some (ln, largs), some (rn, rargs) =>
    if lhs.1 != .pos then pure false
    else
      let lp : Pred := ⟨ln, largs.length⟩
      let rp : Pred := ⟨rn, rargs.length⟩
      if lp == rp then
        if rhs.1 == .neg then pure false else pure (sameArgs largs rargs)
      else anyFits lp rp rhs.1 largs rargs sups
  | _, _ => pure false

/-- `_superseeded(lhs, rhs)` on list elements (conditional literals are never predicates) -/
def superseeded {α : Type} [LitView α] (sups : List Mapping) (lhs rhs : α) : Except String Bool :=
  match LitView.view lhs, LitView.view rhs with
  | some l, some r => superseededLit sups l r
  | _, _ => pure false

/-! ## `_remove_superseed_from_list` -/

/-- `for rhs in (body without position i)`: the first `rhs` superseeded by `lhs` -/
def firstRhs {α : Type} [LitView α] (sups : List Mapping) (lhs : α) (i : Nat) :
    Nat → List α → Except String (Option α)
  | _, [] => pure none
  | j, r :: rs => do
    if j != i then
      if ← superseeded sups lhs r then return some r
    firstRhs sups lhs i (j + 1) rs

/-- `for lhs, rhs in permutations(body, 2)` in itertools order (position pairs `(i, j)`, `i ≠ j`, lexicographic):
the `rhs` of the first superseeding pair -/
def firstPair {α : Type} [LitView α] (sups : List Mapping) (body : List α) :
    Nat → List α → Except String (Option α)
  | _, [] => pure none
  | i, l :: ls => do
    match ← firstRhs sups l i 0 body with
    | some r => pure (some r)
    | none => firstPair sups body (i + 1) ls

/-- `list.remove(x)`: drop the first element equal to `x`; `none` is Python's `ValueError` -/
def removeFirst {α : Type} [BEq α] (x : α) : List α → Option (List α)
  | [] => none
  | y :: ys => if y == x then some ys else (removeFirst x ys).map (y :: ·)

/-- the `while not fix` loop; every round that does not stop removes exactly one element -/
def removeLoop {α : Type} [BEq α] [LitView α] (sups : List Mapping) :
    Nat → List α → Bool → Except String (List α × Bool)
  | 0, _, _ => throw "_remove_superseed_from_list: out of fuel"
  | fuel + 1, body, updated => do
    match ← firstPair sups body 0 body with
    | none => pure (body, updated)
    | some rhs =>
      match removeFirst rhs body with
      | none => throw "ValueError: list.remove(x): x not in list"
      | some body' => removeLoop sups fuel body' true

/-- `_remove_superseed_from_list(body)`: the list afterwards and the returned flag.
Fuel: each non-final round shortens the list by one, so there are at most `len(body)` removing rounds plus the
final one. -/
def removeSuperseedFromList {α : Type} [BEq α] [LitView α] (sups : List Mapping) (body : List α) :
    Except String (List α × Bool) :=
  removeLoop sups (body.length + 1) body false

/-! ## `_apply_superseeding`

`body = list(stm.body)` is a fresh Python list of handles to the *same* underlying AST nodes.
For a conditional literal the cleaned copy is stored in the local list only (`body[idx] = blit.update(..)`);
for an aggregate literal the elements are overwritten **in place** (`blit.atom.elements[i] = ..`), which is
visible through `stm` (and through the caller's program) as well.  `editBLit` therefore returns both views. -/

def editElems {β : Type} (sups : List Mapping) :
    List (β × List Lit) → Except String (List (β × List Lit) × Bool)
  | [] => pure ([], false)
  | (x, cond) :: es => do
    let (cond', u) ← removeSuperseedFromList sups cond
    let (es', u') ← editElems sups es
    pure ((x, cond') :: es', u || u')

/-- `(entry of the local list, the same position seen through the original statement, updated)` -/
def editBLit (sups : List Mapping) : BLit → Except String (BLit × BLit × Bool)
  | .clit (l, cond) => do
    let (cond', u) ← removeSuperseedFromList sups cond
    pure (.clit (l, cond'), .clit (l, cond), u)
  | .lit (s, .bagg line col lg f elems rg) => do
    let (elems', u) ← editElems sups elems
    let b := BLit.lit (s, .bagg line col lg f elems' rg)
    pure (b, b, u)
  | .lit (s, .agg lg elems rg) => do
    let (elems', u) ← editElems sups elems
    let b := BLit.lit (s, .agg lg elems' rg)
    pure (b, b, u)
  | b => pure (b, b, false)

def editBody (sups : List Mapping) : List BLit → Except String (List BLit × List BLit × Bool)
  | [] => pure ([], [], false)
  | b :: bs => do
    let (x, y, u) ← editBLit sups b
    let (xs, ys, u') ← editBody sups bs
    pure (x :: xs, y :: ys, u || u')

/-- the new body of a rule/objective.  If `updated`, `stm.update(body=body)`; otherwise `stm` itself, i.e. its
own body (nothing was removed at top level, so it has the same entries as the local list) with the in-place
aggregate edits.  (When `updated` is false no list changed at all, so both branches coincide with the input.) -/
def applyBody (sups : List Mapping) (body : List BLit) : Except String (List BLit) := do
  let (body1, u1) ← removeSuperseedFromList sups body
  let (loc, inPlace, u2) ← editBody sups body1
  if u1 || u2 then pure loc else pure inPlace

/-- `_apply_superseeding(stm)` -/
def applySuperseeding (sups : List Mapping) : Stm → Except String Stm
  | .rule l c h body => do pure (.rule l c h (← applyBody sups body))
  | .minimize l c w p ts body => do pure (.minimize l c w p ts (← applyBody sups body))
  | stm => pure stm

/-! ## booleans -/

/-- `true(stm)` on a `Literal` -/
def litTrue : Lit → Bool
  | (.pos, .bool b) => b
  | (.dneg, .bool b) => b
  | (.neg, .bool b) => !b
  | _ => false

/-- `false(stm)` on a `Literal` -/
def litFalse : Lit → Bool
  | (.pos, .bool b) => !b
  | (.dneg, .bool b) => !b
  | (.neg, .bool b) => b
  | _ => false

/-- `true(stm)` on a body literal: a conditional literal counts only with an empty condition -/
def blitTrue : BLit → Bool
  | .lit l => litTrue l
  | .clit (l, []) => litTrue l
  | .clit _ => false

def blitFalse : BLit → Bool
  | .lit l => litFalse l
  | .clit (l, []) => litFalse l
  | .clit _ => false

/-- `remove_true_literals` on conditions -/
def removeTrueLits (lits : List Lit) : List Lit := lits.filter (fun l => !litTrue l)
/-- `contains_false` on conditions -/
def containsFalseLits (lits : List Lit) : Bool := lits.any litFalse
/-- `remove_true_literals` on bodies -/
def removeTrueBLits (lits : List BLit) : List BLit := lits.filter (fun l => !blitTrue l)
/-- `contains_false` on bodies -/
def containsFalseBLits (lits : List BLit) : Bool := lits.any blitFalse

/-- `cleanup_boolean_conditionals` -/
def cleanupBooleanConditionals (lits : List BLit) : List BLit :=
  lits.filterMap fun
    | .clit (l, cond) =>
      let cond' := removeTrueLits cond
      if containsFalseLits cond' then none else some (.clit (l, cond'))
    | b => some b

/-- `cleanup_boolean_aggregates` (only `BodyAggregate`, not the old-style `Aggregate`) -/
def cleanupBooleanAggregates (lits : List BLit) : List BLit :=
  lits.map fun
    | .lit (s, .bagg line col lg f elems rg) =>
      let elems' := elems.filterMap fun (ts, cond) =>
        let cond' := removeTrueLits cond
        if containsFalseLits cond' then none else some (ts, cond')
      .lit (s, .bagg line col lg f elems' rg)
    | b => b

/-- the three `stm.update(body=…)` steps of `remove_boolean`; `none` = body contains `#false` -/
def removeBooleanBody (body : List BLit) : Option (List BLit) :=
  let b := removeTrueBLits (cleanupBooleanConditionals (cleanupBooleanAggregates body))
  if containsFalseBLits b then none else some b

/-- `remove_boolean(stm)` -/
def removeBoolean : Stm → Option Stm
  | .rule l c h body => (removeBooleanBody body).map (.rule l c h ·)
  | .minimize l c w p ts body => (removeBooleanBody body).map (.minimize l c w p ts ·)
  | stm => some stm

/-! ## `execute` (after `inline_arithmetic`) -/

def executeWith (sups : List Mapping) : Prog → Except String Prog
  | [] => pure []
  | stm :: rest => do
    let r := removeBoolean (← applySuperseeding sups stm)
    let rest' ← executeWith sups rest
    match r with
    | some s => pure (s :: rest')
    | none => pure rest'

def execute (prg : Prog) (inputs : List Pred) : Except String Prog := do
  let sups ← findSuperseeded prg inputs
  executeWith sups prg

/-! ## presentation of `self.superseeds` as a sorted list -/

def signNat : Sign → Nat | .pos => 0 | .neg => 1 | .dneg => 2

def cmpNats : List Nat → List Nat → Ordering
  | [], [] => .eq
  | [], _ :: _ => .lt
  | _ :: _, [] => .gt
  | x :: xs, y :: ys => (compare x y).then (cmpNats xs ys)

def Mapping.cmp (a b : Mapping) : Ordering :=
  (compare a.headPred.name b.headPred.name).then <|
  (compare a.headPred.arity b.headPred.arity).then <|
  (compare (signNat a.bodyPred.sign) (signNat b.bodyPred.sign)).then <|
  (compare a.bodyPred.pred.name b.bodyPred.pred.name).then <|
  (compare a.bodyPred.pred.arity b.bodyPred.pred.arity).then <|
  cmpNats a.varMap b.varMap

def sortMappings (ms : List Mapping) : List Mapping :=
  ms.mergeSort (fun a b => a.cmp b != .gt)

end Cleanup
end NgoVerif
