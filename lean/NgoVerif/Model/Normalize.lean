import NgoVerif.Model.Globals
/-!
# Model of `ngo/normalize.py`

* part A – `replace_old_aggregates`, `remove_unecessary_bounds`, `expand_comparisons`: everything `normalize()`
  does **before** the `stm.unpool()` loop (`preUnpool`).  `AST.unpool()` is clingo C++ code and an external
  parameter of the pipeline; it is not modelled.
* part B – `exline_arithmetic`.
* part C – `inline_arithmetic` (= `postprocess`), with `global_vars_inside_body` as a parameter.

The code is modelled as it is, bugs included (see `REPORT.md` for the surprising ones).

External parameter besides `unpool` and `global_vars_inside_body`: the AST mirror does not keep the location of
an old-style `Aggregate`, but `_convert_old_agg` copies it into the new `BodyAggregate`.  It is therefore an
explicit argument (`AggLoc`).
-/
namespace NgoVerif

/-! ## `clingo.ast.Transformer` with a single `visit_<Kind>` (`transform_ast`) -/

/-- state (Python objects that are mutated) + error (Python `assert`/exception) -/
abbrev TM (σ : Type) := StateT σ (Except String)

mutual
/-- `transform_ast(t, Kind, f)` on a term: `f` is applied to a node of the kind (given by `p`) and the node's
children are **not** visited; otherwise the children are visited in `child_keys` order. -/
def Term.transM {σ : Type} (p : Term → Bool) (f : Term → TM σ Term) : Term → TM σ Term
  | .var n => if p (.var n) then f (.var n) else pure (.var n)
  | .sym s => if p (.sym s) then f (.sym s) else pure (.sym s)
  | .un op a =>
      if p (.un op a) then f (.un op a) else do
        let a' ← a.transM p f
        pure (.un op a')
  | .bin op l r =>
      if p (.bin op l r) then f (.bin op l r) else do
        let l' ← l.transM p f
        let r' ← r.transM p f
        pure (.bin op l' r')
  | .ival l r =>
      if p (.ival l r) then f (.ival l r) else do
        let l' ← l.transM p f
        let r' ← r.transM p f
        pure (.ival l' r')
  | .fn n args e =>
      if p (.fn n args e) then f (.fn n args e) else do
        let as ← Term.transListM p f args
        pure (.fn n as e)
  | .pool args =>
      if p (.pool args) then f (.pool args) else do
        let as ← Term.transListM p f args
        pure (.pool as)
def Term.transListM {σ : Type} (p : Term → Bool) (f : Term → TM σ Term) : List Term → TM σ (List Term)
  | [] => pure []
  | t :: ts => do
      let t' ← t.transM p f
      let ts' ← Term.transListM p f ts
      pure (t' :: ts')
end

/-- pure variant: replace every `Variable` node by `f name` (no re-visit of the replacement) -/
def Term.subst (f : String → Term) : Term → Term
  | .var n => f n
  | .sym s => .sym s
  | .un op a => .un op (a.subst f)
  | .bin op l r => .bin op (l.subst f) (r.subst f)
  | .ival l r => .ival (l.subst f) (r.subst f)
  | .fn n args e => .fn n (args.map (fun a => a.subst f)) e
  | .pool args => .pool (args.map (fun a => a.subst f))

def optGuardMapM {σ : Type} (g : Term → TM σ Term) : Option Guard → TM σ (Option Guard)
  | none => pure none
  | some gd => do
      let t ← g gd.term
      pure (some ⟨gd.op, t⟩)

def guardsMapM {σ : Type} (g : Term → TM σ Term) : List Guard → TM σ (List Guard)
  | [] => pure []
  | gd :: gs => do
      let t ← g gd.term
      let gs' ← guardsMapM g gs
      pure (⟨gd.op, t⟩ :: gs')

def termsMapM {σ : Type} (g : Term → TM σ Term) : List Term → TM σ (List Term)
  | [] => pure []
  | t :: ts => do
      let t' ← g t
      let ts' ← termsMapM g ts
      pure (t' :: ts')

mutual
/-- apply the (stateful) term function `g` to every top-level term below an atom, in `child_keys` order -/
def Atom.mapTermsM {σ : Type} (g : Term → TM σ Term) : Atom → TM σ Atom
  | .sym t => do
      let t' ← g t
      pure (.sym t')
  | .cmp t gs => do
      let t' ← g t
      let gs' ← guardsMapM g gs
      pure (.cmp t' gs')
  | .bool b => pure (.bool b)
  | .bagg l c lg f es rg => do
      let lg' ← optGuardMapM g lg
      let es' ← bElemsMapTermsM g es
      let rg' ← optGuardMapM g rg
      pure (.bagg l c lg' f es' rg')
  | .agg lg es rg => do
      let lg' ← optGuardMapM g lg
      let es' ← cElemsMapTermsM g es
      let rg' ← optGuardMapM g rg
      pure (.agg lg' es' rg')
  | .theory t => pure (.theory t)
def litMapTermsM {σ : Type} (g : Term → TM σ Term) : Sign × Atom → TM σ (Sign × Atom)
  | (s, a) => do
      let a' ← a.mapTermsM g
      pure (s, a')
def litsMapTermsM {σ : Type} (g : Term → TM σ Term) : List (Sign × Atom) → TM σ (List (Sign × Atom))
  | [] => pure []
  | l :: ls => do
      let l' ← litMapTermsM g l
      let ls' ← litsMapTermsM g ls
      pure (l' :: ls')
def bElemsMapTermsM {σ : Type} (g : Term → TM σ Term) :
    List (List Term × List (Sign × Atom)) → TM σ (List (List Term × List (Sign × Atom)))
  | [] => pure []
  | (ts, c) :: es => do
      let ts' ← termsMapM g ts
      let c' ← litsMapTermsM g c
      let es' ← bElemsMapTermsM g es
      pure ((ts', c') :: es')
def cElemsMapTermsM {σ : Type} (g : Term → TM σ Term) :
    List ((Sign × Atom) × List (Sign × Atom)) → TM σ (List ((Sign × Atom) × List (Sign × Atom)))
  | [] => pure []
  | (l, c) :: es => do
      let l' ← litMapTermsM g l
      let c' ← litsMapTermsM g c
      let es' ← cElemsMapTermsM g es
      pure ((l', c') :: es')
end

def optGuardMap (g : Term → Term) : Option Guard → Option Guard
  | none => none
  | some gd => some ⟨gd.op, g gd.term⟩

mutual
/-- pure variant of `Atom.mapTermsM` -/
def Atom.mapTerms (g : Term → Term) : Atom → Atom
  | .sym t => .sym (g t)
  | .cmp t gs => .cmp (g t) (gs.map fun gd => ⟨gd.op, g gd.term⟩)
  | .bool b => .bool b
  | .bagg l c lg f es rg => .bagg l c (optGuardMap g lg) f (bElemsMapTerms g es) (optGuardMap g rg)
  | .agg lg es rg => .agg (optGuardMap g lg) (cElemsMapTerms g es) (optGuardMap g rg)
  | .theory t => .theory t
def litMapTerms (g : Term → Term) : Sign × Atom → Sign × Atom
  | (s, a) => (s, a.mapTerms g)
def litsMapTerms (g : Term → Term) : List (Sign × Atom) → List (Sign × Atom)
  | [] => []
  | l :: ls => litMapTerms g l :: litsMapTerms g ls
def bElemsMapTerms (g : Term → Term) : List (List Term × List (Sign × Atom)) → List (List Term × List (Sign × Atom))
  | [] => []
  | (ts, c) :: es => (ts.map g, litsMapTerms g c) :: bElemsMapTerms g es
def cElemsMapTerms (g : Term → Term) :
    List ((Sign × Atom) × List (Sign × Atom)) → List ((Sign × Atom) × List (Sign × Atom))
  | [] => []
  | (l, c) :: es => (litMapTerms g l, litsMapTerms g c) :: cElemsMapTerms g es
end

def condLitMapTerms (g : Term → Term) (c : CondLit) : CondLit := (litMapTerms g c.1, litsMapTerms g c.2)

def BLit.mapTerms (g : Term → Term) : BLit → BLit
  | .lit l => .lit (litMapTerms g l)
  | .clit c => .clit (condLitMapTerms g c)

def Head.mapTerms (g : Term → Term) : Head → Head
  | .lit l => .lit (litMapTerms g l)
  | .disj es => .disj (es.map (condLitMapTerms g))
  | .agg lg es rg => .agg (optGuardMap g lg) (es.map (condLitMapTerms g)) (optGuardMap g rg)
  | .hagg lg f es rg =>
      .hagg (optGuardMap g lg) f (es.map fun e => (e.1.map g, condLitMapTerms g e.2)) (optGuardMap g rg)
  | .theory t => .theory t

/-! ## part A.1 – `replace_old_aggregates` -/

/-- `AUX_VAR.name` -/
def AUX_VAR : String := "AUX"

/-- `unique_vars.make_unique(AUX_VAR)` on the mutable `UniqueVariables` object -/
def freshAux : TM UniqueVars Term := fun u =>
  match u.makeUnique AUX_VAR with
  | some (n, u') => .ok (.var n, u')
  | none => .error "make_unique: no fresh name (unreachable)"

def numT (n : Int) : Term := .sym (.num n)

/-- `_convert_count_to_sum` (the `assert` on the node type is the caller's test) -/
def convertCountToSum (elems : List BAggElem) : List BAggElem :=
  elems.map fun (ts, c) => (numT 1 :: ts, c)

/-- `_replace_anon(symbol)` -/
def replaceAnon (t : Term) : Term :=
  t.subst fun n => if n == "_" then .fn "anon__ngo" [] false else .var n

/-- `_exline_interval(elem, unique_vars)`: every (outermost) `Interval` of the element – literal first, then the
condition – becomes a fresh `AUX…` variable; the assignments `AUX = l..r` are appended to the condition. -/
def exlineInterval (e : Lit × List Lit) : TM UniqueVars (Lit × List Lit) := fun u =>
  let step : Term → TM (UniqueVars × List Lit) Term := fun iv (u, assigns) =>
    match freshAux u with
    | .ok (aux, u') => .ok (aux, (u', assigns ++ [(Sign.pos, Atom.cmp aux [⟨.eq, iv⟩])]))
    | .error m => .error m
  let run : TM (UniqueVars × List Lit) (Lit × List Lit) := do
    let l' ← litMapTermsM (Term.transM Term.isIval step) e.1
    let c' ← litsMapTermsM (Term.transM Term.isIval step) e.2
    pure (l', c')
  match run (u, []) with
  | .ok ((l', c'), (u', assigns)) => .ok ((l', c' ++ assigns), u')
  | .error m => .error m

/-- insertion of a name into a list sorted by `<` on strings (clingo compares `Variable` ASTs by name; byte
order = code point order).  Equal names are indistinguishable, so stability is immaterial. -/
def insertNameDup (x : String) : List String → List String
  | [] => [x]
  | y :: ys => if x < y then x :: y :: ys else y :: insertNameDup x ys

/-- `sorted(names)`, duplicates kept -/
def sortNamesDup (xs : List String) : List String := xs.foldr insertNameDup []

/-- `nm` tag table -/
def signTag : Sign → Int
  | .pos => 0 | .neg => 1 | .dneg => 2

/-- `bm` tag table: `{True: 0, False: 1}` -/
def boolTag (b : Bool) : Int := if b then 0 else 1

/-- one round of the `for old_elem in agg.elements` loop; the state is the `UniqueVariables` object, the
`comparison_counter` is threaded explicitly -/
def convertOldElem (counter : Int) (e : Lit × List Lit) : TM UniqueVars (BAggElem × Int) := do
  let atom := e.1.2                       -- the atom BEFORE the intervals are removed
  let (newLit, cond) ← exlineInterval e
  let base := [numT 1, numT (signTag newLit.1)]
  match atom with
  | .cmp .. =>
      let vs := sortNamesDup ((atom.terms).flatMap Term.vars)
      pure ((base ++ [numT counter] ++ vs.map Term.var, newLit :: cond), counter + 1)
  | .bool b => pure ((base ++ [numT (boolTag b)], newLit :: cond), counter + 1)
  | .sym _ => do
      let newLit' ←
        if newLit.1 == .pos || newLit.1 == .dneg then
          litMapTermsM (Term.transM Term.isVar fun v =>
            match v with
            | .var "_" => freshAux
            | t => pure t) newLit
        else pure newLit
      match newLit'.2 with
      | .sym s => pure ((base ++ [replaceAnon s], newLit' :: cond), counter)
      | _ => throw "no symbol (unreachable: transform_ast keeps the node type)"
  | _ => throw "Invalid atom"

def convertOldElems (counter : Int) : List (Lit × List Lit) → TM UniqueVars (List BAggElem)
  | [] => pure []
  | e :: es => do
      let (e', counter') ← convertOldElem counter e
      let es' ← convertOldElems counter' es
      pure (e' :: es')

/-- `_convert_old_agg(agg, unique_vars)`; `(line, col)` is `agg.location.begin` -/
def convertOldAgg (line col : Nat) (lg : Option Guard) (elems : List (Lit × List Lit)) (rg : Option Guard) :
    TM UniqueVars Atom := do
  let es ← convertOldElems 2 elems
  pure (.bagg line col lg .sum es rg)

/-- where the `k`-th old-style aggregate literal (counted from 0 along the body) of a statement sits -/
abbrev AggLoc := Nat → Nat × Nat

/-- the body loop of `replace_old_aggregates`; `k` counts the old-style aggregates seen so far -/
def replaceOldBody (loc : AggLoc) : Nat → List BLit → TM UniqueVars (List BLit)
  | _, [] => pure []
  | k, .lit (s, .agg lg es rg) :: bs => do
      let a ← convertOldAgg (loc k).1 (loc k).2 lg es rg
      let bs' ← replaceOldBody loc (k + 1) bs
      pure (.lit (s, a) :: bs')
  | k, .lit (s, .bagg l c lg .count es rg) :: bs => do
      let bs' ← replaceOldBody loc k bs
      pure (.lit (s, .bagg l c lg .sump (convertCountToSum es) rg) :: bs')
  | k, b :: bs => do
      let bs' ← replaceOldBody loc k bs
      pure (b :: bs')

def runTM {σ α : Type} (m : TM σ α) (s : σ) : Except String α :=
  match m s with
  | .ok (a, _) => .ok a
  | .error e => .error e

/-- `replace_old_aggregates` on one statement -/
def replaceOldStm (loc : AggLoc) (stm : Stm) : Except String Stm :=
  match stm with
  | .rule l c h b =>
      if b.isEmpty then .ok stm else
      (runTM (replaceOldBody loc 0 b) (UniqueVars.init stm)).map fun b' => .rule l c h b'
  | .minimize l c w p ts b =>
      if b.isEmpty then .ok stm else
      (runTM (replaceOldBody loc 0 b) (UniqueVars.init stm)).map fun b' => .minimize l c w p ts b'
  | s => .ok s

/-! ## part A.2 – `remove_unecessary_bounds` -/

/-- `rhs2lhs_comparison` -/
def rhs2lhs : CmpOp → CmpOp
  | .eq => .eq | .ne => .ne | .ge => .le | .le => .ge | .gt => .lt | .lt => .gt

/-- the inner `replace(bodyagg)` on the two guards -/
def removeBounds (lg rg : Option Guard) : Option Guard × Option Guard :=
  let lg1 : Option Guard :=
    match lg with
    | some ⟨op, .sym s⟩ => if (op == .le && s == .inf) || (op == .ge && s == .sup) then none else lg
    | _ => lg
  let rg1 : Option Guard :=
    match rg with
    | some ⟨op, .sym s⟩ => if (op == .le && s == .sup) || (op == .ge && s == .inf) then none else rg
    | _ => rg
  match rg1, lg1 with
  | some r, none => (some ⟨rhs2lhs r.op, r.term⟩, none)
  | _, _ => (lg1, rg1)

mutual
/-- `transform_ast(·, "BodyAggregate", replace)`: no descent below a `BodyAggregate` -/
def Atom.transBounds : Atom → Atom
  | .bagg l c lg f es rg => let (lg', rg') := removeBounds lg rg; .bagg l c lg' f es rg'
  | .agg lg es rg => .agg lg (cElemsTransBounds es) rg
  | .sym t => .sym t
  | .cmp t gs => .cmp t gs
  | .bool b => .bool b
  | .theory t => .theory t
def litTransBounds : Sign × Atom → Sign × Atom
  | (s, a) => (s, a.transBounds)
def litsTransBounds : List (Sign × Atom) → List (Sign × Atom)
  | [] => []
  | l :: ls => litTransBounds l :: litsTransBounds ls
def cElemsTransBounds : List ((Sign × Atom) × List (Sign × Atom)) → List ((Sign × Atom) × List (Sign × Atom))
  | [] => []
  | (l, c) :: es => (litTransBounds l, litsTransBounds c) :: cElemsTransBounds es
end

def condLitTransBounds (c : CondLit) : CondLit := (litTransBounds c.1, litsTransBounds c.2)

def BLit.transBounds : BLit → BLit
  | .lit l => .lit (litTransBounds l)
  | .clit c => .clit (condLitTransBounds c)

def Head.transBounds : Head → Head
  | .lit l => .lit (litTransBounds l)
  | .disj es => .disj (es.map condLitTransBounds)
  | .agg lg es rg => .agg lg (es.map condLitTransBounds) rg
  | .hagg lg f es rg => .hagg lg f (es.map fun e => (e.1, condLitTransBounds e.2)) rg
  | .theory t => .theory t

/-- `remove_unecessary_bounds` on one statement: every `BodyAggregate` anywhere in any statement type.
(`opaque` statements are outside the mirror; the driver refuses the ones that have a body.) -/
def Stm.transBounds : Stm → Stm
  | .rule l c h b => .rule l c h.transBounds (b.map BLit.transBounds)
  | .minimize l c w p ts b => .minimize l c w p ts (b.map BLit.transBounds)
  | .showTerm t b => .showTerm t (b.map BLit.transBounds)
  | .external a b t => .external a (b.map BLit.transBounds) t
  | s => s

/-! ## part A.3 – `expand_comparisons` -/

/-- `comparison2comparisonlist` -/
def cmpList (lhs : Term) : List Guard → List (Term × CmpOp × Term)
  | [] => []
  | g :: gs => (lhs, g.op, g.term) :: cmpList g.term gs

/-- `[Literal(LOC, sign, Comparison(lhs, [Guard(cop, rhs)])) for lhs, cop, rhs in comparison2comparisonlist(atom)]`;
the sign is copied onto every link of the chain -/
def expandCmp (s : Sign) (t : Term) (gs : List Guard) : List Lit :=
  (cmpList t gs).map fun (l, op, r) => (s, Atom.cmp l [⟨op, r⟩])

/-- `_normalize_operators_condition` -/
def normCondition : List Lit → List Lit
  | [] => []
  | (s, .cmp t gs) :: cs => expandCmp s t gs ++ normCondition cs
  | c :: cs => c :: normCondition cs

/-- `normalize_operators` -/
def normalizeOperators : List BLit → List BLit
  | [] => []
  | .clit (l, c) :: bs => .clit (l, normCondition c) :: normalizeOperators bs
  | .lit (s, .cmp t gs) :: bs => (expandCmp s t gs).map BLit.lit ++ normalizeOperators bs
  | .lit (s, .bagg l c lg f es rg) :: bs =>
      .lit (s, .bagg l c lg f (es.map fun (ts, cond) => (ts, normCondition cond)) rg) :: normalizeOperators bs
  | b :: bs => b :: normalizeOperators bs

/-- `expand_comparisons` -/
def expandComparisons : Stm → Stm
  | .rule l c h b => .rule l c h (normalizeOperators b)
  | .minimize l c w p ts b => .minimize l c w p ts (normalizeOperators b)
  | s => s

/-- `new_prg` of `normalize()` just before the `unpool` loop.  `loc i k` = begin line/column of the `k`-th
old-style aggregate literal in the body of statement `i`. -/
def preUnpoolFrom (loc : Nat → AggLoc) : Nat → Prog → Except String Prog
  | _, [] => .ok []
  | i, s :: ss => do
      let s1 ← replaceOldStm (loc i) s
      let rest ← preUnpoolFrom loc (i + 1) ss
      pure (expandComparisons s1.transBounds :: rest)

def preUnpool (loc : Nat → AggLoc) (prg : Prog) : Except String Prog := preUnpoolFrom loc 0 prg

/-! ## part B – `exline_arithmetic` -/

/-- `exline_term` -/
def exlineTerm (t : Term) : TM UniqueVars (Term × List Lit) :=
  match t with
  | .bin .. | .un .. => do
      let uv ← freshAux
      pure (uv, [(Sign.pos, Atom.cmp uv [⟨.eq, t⟩])])
  | _ => pure (t, [])

def exlineTerms : List Term → TM UniqueVars (List Term × List Lit)
  | [] => pure ([], [])
  | t :: ts => do
      let (t', c) ← exlineTerm t
      let (ts', cs) ← exlineTerms ts
      pure (t' :: ts', c ++ cs)

/-- `exline_literal` -/
def exlineLit (l : Lit) : TM UniqueVars (Lit × List Lit) :=
  match l with
  | (s, .sym (.fn name args ext)) =>
      if !(litCollect Term.isPool l).isEmpty then pure (l, []) else do
        let (args', conds) ← exlineTerms args
        pure ((s, .sym (.fn name args' ext)), conds)
  | _ => pure (l, [])

/-- the `for c in blit.condition` loop -/
def exlineCondition : List Lit → TM UniqueVars (List Lit)
  | [] => pure []
  | c :: cs => do
      let (c', body) ← exlineLit c
      let cs' ← exlineCondition cs
      pure (c' :: body ++ cs')

/-- the `for blit in stm.body` loop of `exline_arithmetic_rule` -/
def exlineBody : List BLit → TM UniqueVars (List BLit)
  | [] => pure []
  | .lit l :: bs => do
      let (l', body) ← exlineLit l
      let bs' ← exlineBody bs
      pure (.lit l' :: body.map BLit.lit ++ bs')
  | .clit (l, c) :: bs => do
      let c' ← exlineCondition c
      let bs' ← exlineBody bs
      pure (.clit (l, c') :: bs')

/-- the body of `exline_minimize_terms`, running on the `UniqueVariables` object `uv` it was given: weight,
priority, then the tuple terms; the assignments are appended to the body in that order -/
def exlineMinimizeTermsM (l c : Nat) (w p : Term) (ts : List Term) (b : List BLit) : TM UniqueVars Stm := do
  let (w', c1) ← exlineTerm w
  let (p', c2) ← exlineTerm p
  let (ts', c3) ← exlineTerms ts
  pure (Stm.minimize l c w' p' ts' (b ++ c1.map BLit.lit ++ c2.map BLit.lit ++ c3.map BLit.lit))

/-- `exline_minimize_terms(stm, unique_vars=None)` as a stand-alone function:
`uv = unique_vars if unique_vars is not None else UniqueVariables(stm)` -/
def exlineMinimizeTerms (l c : Nat) (w p : Term) (ts : List Term) (b : List BLit) (uv : Option UniqueVars) :
    Except String Stm :=
  runTM (exlineMinimizeTermsM l c w p ts b) (uv.getD (UniqueVars.init (.minimize l c w p ts b)))

/-- `exline_arithmetic_rule`: ONE `UniqueVariables(stm)` object, built from the original statement, is used for
the head (rule) resp. weight/priority/terms (objective, handed to `exline_minimize_terms`) and then for the
body loop, which also runs over the assignments just appended (they are comparisons: unchanged) -/
def exlineStm (stm : Stm) : Except String Stm :=
  let uv := UniqueVars.init stm
  match stm with
  | .rule l c h b =>
      runTM (do
        let (h', extra) ←
          match h with
          | .lit hl => do
              let (hl', body) ← exlineLit hl
              pure (Head.lit hl', body)
          | _ => pure (h, [])
        let b' ← exlineBody (b ++ extra.map BLit.lit)
        pure (Stm.rule l c h' b')) uv
  | .minimize l c w p ts b =>
      runTM (do
        let stm' ← exlineMinimizeTermsM l c w p ts b
        match stm' with
        | .minimize l c w' p' ts' b1 => do
            let b' ← exlineBody b1
            pure (Stm.minimize l c w' p' ts' b')
        | s => pure s) uv
  | s => .ok s

/-- `exline_arithmetic` -/
def exlineArithmetic (prg : Prog) : Except String Prog := prg.mapM exlineStm

/-! ## part C – `inline_arithmetic` -/

/-- `any(x.name == "_" for x in collect_ast(rest, "Variable"))` (before the repair recorded as `fixed:` in
known_findings.json: `rest` IS the anonymous variable) -/
def isAnon (t : Term) : Bool := t.vars.contains "_"

/-- `_equality(lit)`: `(name of var, rest)`; `None` if either side is the anonymous variable -/
def equality? (l : Lit) : Option (String × Term) :=
  match l with
  | (s, .cmp t gs) =>
    if !(litCollect Term.isPool l).isEmpty || !(litCollect Term.isIval l).isEmpty then none else
    let okOp (op : CmpOp) : Bool := (op == .eq && s == .pos) || (op == .ne && s == .neg)
    match t, gs with
    | .var v, [g] =>
        -- `if` branch taken: the `elif` is never tried, whatever happens below
        if okOp g.op then (if v == "_" || isAnon g.term then none else some (v, g.term)) else none
    | _, [g] =>
        match g.term with
        -- (`isAnon t` cannot hold here: `t` is not a `Variable` in the `elif` branch; kept as in the code)
        | .var v => if okOp g.op then (if v == "_" || isAnon t then none else some (v, t)) else none
        | _ => none
    | _, _ => none
  | _ => none

def BLit.equality? : BLit → Option (String × Term)
  | .lit l => NgoVerif.equality? l
  | .clit _ => none

/-- the function handed to `transform_ast(·, "Variable", ·)` by `inline_replace_stm` -/
def replVar (v : String) (new : Term) : Term → Term :=
  Term.subst fun n => if n == v then new else .var n

/-- the `for blit in stm.body: … break / else` search of `inline_rule`: the first body literal that is an
equality whose variable name occurs more than once among ALL variables of the statement -/
def findInlineRule (allVars : List String) : List BLit → Option (BLit × String × Term)
  | [] => none
  | b :: bs =>
    match b.equality? with
    | some (v, rest) => if allVars.count v > 1 then some (b, v, rest) else findInlineRule allVars bs
    | none => findInlineRule allVars bs

/-- `inline_rule`.  Fuel: every round removes at least the found literal from the body (`x != blit` drops
all its copies), so `body.length + 1` rounds always suffice (see `inlineRule`). -/
def inlineRuleFuel : Nat → Stm → Stm
  | 0, s => s
  | fuel + 1, s =>
    match s with
    | .rule l c h b =>
      match findInlineRule s.vars b with
      | none => s
      | some (blit, v, rest) =>
        let b' := (b.filter fun x => x != blit).map (BLit.mapTerms (replVar v rest))
        inlineRuleFuel fuel (.rule l c (h.mapTerms (replVar v rest)) b')
    | .minimize l c w p ts b =>
      match findInlineRule s.vars b with
      | none => s
      | some (blit, v, rest) =>
        let b' := (b.filter fun x => x != blit).map (BLit.mapTerms (replVar v rest))
        inlineRuleFuel fuel (.minimize l c (replVar v rest w) (replVar v rest p) (ts.map (replVar v rest)) b')
    | s => s

def Stm.body : Stm → List BLit
  | .rule _ _ _ b => b
  | .minimize _ _ _ _ _ b => b
  | .showTerm _ b => b
  | .external _ b _ => b
  | _ => []

def inlineRule (s : Stm) : Stm := inlineRuleFuel (s.body.length + 1) s

/-- first condition that is an equality on a non-global variable -/
def findInlineCond (globals : List String) : List Lit → Option (Lit × String × Term)
  | [] => none
  | c :: cs =>
    match equality? c with
    | some (v, rest) => if !globals.contains v then some (c, v, rest) else findInlineCond globals cs
    | none => findInlineCond globals cs

/-- the outer `for elem in stm.atom.elements` search of `inline_aggregate` -/
def findInlineElem (globals : List String) : List BAggElem → Option (BAggElem × Lit × String × Term)
  | [] => none
  | e :: es =>
    match findInlineCond globals e.2 with
    | some (c, v, rest) => some (e, c, v, rest)
    | none => findInlineElem globals es

def condCount (es : List BAggElem) : Nat := (es.map fun e => e.2.length).sum

/-- `inline_aggregate` on the elements.  Fuel: every round removes at least one condition from the found
element (and from all its copies), so the total number of conditions + 1 bounds the number of rounds. -/
def inlineElemsFuel (globals : List String) : Nat → List BAggElem → List BAggElem
  | 0, es => es
  | fuel + 1, es =>
    match findInlineElem globals es with
    | none => es
    | some (elem, c, v, rest) =>
      let newConds := litsMapTerms (replVar v rest) (elem.2.filter fun x => x != c)
      let newTerms := elem.1.map (replVar v rest)
      inlineElemsFuel globals fuel (es.map fun e => if e != elem then e else (newTerms, newConds))

/-- `inline_conditional`.  Fuel: every round removes at least one condition. -/
def inlineCondFuel (globals : List String) : Nat → CondLit → CondLit
  | 0, cl => cl
  | fuel + 1, (l, cond) =>
    match findInlineCond globals cond with
    | none => (l, cond)
    | some (c, v, rest) =>
      inlineCondFuel globals fuel
        (litMapTerms (replVar v rest) l, litsMapTerms (replVar v rest) (cond.filter fun x => x != c))

/-- `inline_aggregate(blit, globals)` -/
def inlineAggregate (globals : List String) : BLit → BLit
  | .lit (s, .bagg l c lg f es rg) => .lit (s, .bagg l c lg f (inlineElemsFuel globals (condCount es + 1) es) rg)
  | b => b

/-- `inline_conditional(blit, globals)` -/
def inlineConditional (globals : List String) : BLit → BLit
  | .clit cl => .clit (inlineCondFuel globals (cl.2.length + 1) cl)
  | b => b

def Stm.setBody (s : Stm) (b : List BLit) : Stm :=
  match s with
  | .rule l c h _ => .rule l c h b
  | .minimize l c w p ts _ => .minimize l c w p ts b
  | s => s

def Stm.isRuleOrMin : Stm → Bool
  | .rule .. => true
  | .minimize .. => true
  | _ => false

/-- one round of the loop of `inline_arithmetic`; `gvA`/`gvC` are `global_vars_inside_body` as seen by
`inline_aggregates` resp. `inline_conditionals` (in Python the same function) -/
def inlineStm (gvA gvC : List BLit → List String) (s : Stm) : Stm :=
  if !s.isRuleOrMin then s else
  let s1 := inlineRule s
  let s2 := s1.setBody (s1.body.map (inlineAggregate (gvA s1.body)))
  s2.setBody (s2.body.map (inlineConditional (gvC s2.body)))

/-- `inline_arithmetic` with `global_vars_inside_body` (as a set of variable names) as a parameter -/
def inlineArithmetic (gv : List BLit → List String) : Prog → Prog :=
  List.map (inlineStm gv gv)

/-- the variant used by the correspondence: the values of `global_vars_inside_body` are the ones recorded on
the Python side, one pair per statement -/
def inlineArithmeticRec : List (List String × List String) → Prog → Prog
  | (a, c) :: gs, s :: ss => inlineStm (fun _ => a) (fun _ => c) s :: inlineArithmeticRec gs ss
  | [], s :: ss => inlineStm (fun _ => []) (fun _ => []) s :: inlineArithmeticRec [] ss
  | _, [] => []

end NgoVerif
