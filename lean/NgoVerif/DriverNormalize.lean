import NgoVerif.Sexp
import NgoVerif.Syntax
import NgoVerif.Model.Normalize
/-!
# Driver ops for `ngo/normalize.py`

* `(pre_unpool <prog> <agglocs>)` → `(ok <prog>)` | `(err "…")`;  `<agglocs>` has one entry per statement: the list
  of `(line col)` of the old-style aggregate literals of its body, in body order (`()` if there are none).
  `(pre_unpool <prog>)` is the same with every such location = `0 0`.
* `(exline <prog>)` → `(ok <prog>)` | `(err "…")`
* `(inline_arith <prog> <globals>)` → `(ok <prog>)`;  `<globals>` has one entry per statement: `()` or
  `(("A" "B" …) ("A" …))` = the value of `global_vars_inside_body` seen by `inline_aggregates` resp.
  `inline_conditionals`.

`(unsupported "…")`: a rule/objective contains a theory atom (its variables are invisible to the mirror), or –
`pre_unpool` only – an `opaque` statement that can carry a body with aggregates.
-/
namespace NgoVerif
open Sexp

private def okN (xs : List Sexp) : Sexp := .list (.atom "ok" :: xs)
private def unsupportedN (why : String) : Sexp := .list [.atom "unsupported", .str why]
private def errN (what : String) : Sexp := .list [.atom "err", .str what]

mutual
def Atom.hasTheoryN : Atom → Bool
  | .theory _ => true
  | .bagg _ _ _ _ es _ => bElemsHasTheoryN es
  | .agg _ es _ => cElemsHasTheoryN es
  | _ => false
def litsHasTheoryN : List (Sign × Atom) → Bool
  | [] => false
  | (_, a) :: ls => a.hasTheoryN || litsHasTheoryN ls
def bElemsHasTheoryN : List (List Term × List (Sign × Atom)) → Bool
  | [] => false
  | (_, c) :: es => litsHasTheoryN c || bElemsHasTheoryN es
def cElemsHasTheoryN : List ((Sign × Atom) × List (Sign × Atom)) → Bool
  | [] => false
  | ((_, a), c) :: es => a.hasTheoryN || litsHasTheoryN c || cElemsHasTheoryN es
end

def condLitHasTheoryN (c : CondLit) : Bool := c.1.2.hasTheoryN || litsHasTheoryN c.2

def BLit.hasTheoryN : BLit → Bool
  | .lit l => l.2.hasTheoryN
  | .clit c => condLitHasTheoryN c

def Head.hasTheoryN : Head → Bool
  | .lit l => l.2.hasTheoryN
  | .disj es => es.any condLitHasTheoryN
  | .agg _ es _ => es.any condLitHasTheoryN
  | .hagg _ _ es _ => es.any fun e => condLitHasTheoryN e.2
  | .theory _ => true

def Stm.hasTheoryN : Stm → Bool
  | .rule _ _ h b => h.hasTheoryN || b.any BLit.hasTheoryN
  | .minimize _ _ _ _ _ b => b.any BLit.hasTheoryN
  | .showTerm _ b => b.any BLit.hasTheoryN
  | .external _ b _ => b.any BLit.hasTheoryN
  | _ => false

/-- opaque statement kinds without a body: no transformer of normalize.py can change them -/
def bodilessOpaque (kind : String) : Bool :=
  ["ProjectSignature", "Script", "TheoryDefinition", "Defined", "Comment"].contains kind

def Stm.opaqueWithBody : Stm → Bool
  | .opaque k _ => !bodilessOpaque k
  | _ => false

def locsOfSexp : Sexp → Option (List (List (Nat × Nat)))
  | .list xs => xs.mapM fun x =>
      match x with
      | .list ys => ys.mapM fun y =>
          match y with
          | .list [l, c] => do
              let l' ← l.toNat?
              let c' ← c.toNat?
              pure (l', c')
          | _ => none
      | _ => none
  | _ => none

def locFun (locs : List (List (Nat × Nat))) : Nat → AggLoc :=
  fun i k => ((locs.getD i []).getD k (0, 0))

def strsOfSexp : Sexp → Option (List String)
  | .list xs => xs.mapM Sexp.toString?
  | _ => none

def globalsOfSexp : Sexp → Option (List (List String × List String))
  | .list xs => xs.mapM fun x =>
      match x with
      | .list [] => some ([], [])
      | .list [a, c] => do
          let a' ← strsOfSexp a
          let c' ← strsOfSexp c
          pure (a', c')
      | _ => none
  | _ => none

def runPreUnpool (p : Sexp) (locs : Option Sexp) : Sexp :=
  match Prog.ofSexp p with
  | none => unsupportedN "program"
  | some prg =>
    if prg.any Stm.hasTheoryN then unsupportedN "theory atom" else
    if prg.any Stm.opaqueWithBody then unsupportedN "opaque statement with a body" else
    let ls : Option (List (List (Nat × Nat))) :=
      match locs with
      | none => some []
      | some s => locsOfSexp s
    match ls with
    | none => unsupportedN "locations"
    | some ls =>
      match preUnpool (locFun ls) prg with
      | .ok r => okN [r.toSexp]
      | .error e => errN e

def handleNormalize (req : Sexp) : Option Sexp :=
  match req with
  | .list [.atom "pre_unpool", p] => some (runPreUnpool p none)
  | .list [.atom "pre_unpool", p, locs] => some (runPreUnpool p (some locs))
  | .list [.atom "exline", p] =>
    match Prog.ofSexp p with
    | none => some (unsupportedN "program")
    | some prg =>
      if prg.any Stm.hasTheoryN then some (unsupportedN "theory atom") else
      match exlineArithmetic prg with
      | .ok r => some (okN [r.toSexp])
      | .error e => some (errN e)
  | .list [.atom "inline_arith", p, g] =>
    match Prog.ofSexp p, globalsOfSexp g with
    | some prg, some gs =>
      if prg.any Stm.hasTheoryN then some (unsupportedN "theory atom") else
      if gs.length != prg.length then some (unsupportedN "one globals entry per statement expected") else
      some (okN [(inlineArithmeticRec gs prg).toSexp])
    | _, _ => some (unsupportedN "program or globals")
  | _ => none

end NgoVerif
