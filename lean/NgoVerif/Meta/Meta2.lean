import NgoVerif.Meta.Basic
/-! spike 2: converse of definitional extension, folding lemma, negative implied literal -/
namespace HT
variable {α : Type}

theorem agree_ext (D : Defs α) (T : Interp α) (hno : ∀ a, D.A a → ¬ T a) : AgreeOff D.A T (ext D T) := by
  intro a ha
  constructor
  · intro h; exact Or.inl ⟨ha, h⟩
  · intro h; rcases h with h | h
    · exact h.2
    · exact absurd h.1 ha

/-- converse: every stable model of P ∪ D is the extension of a stable model of P -/
theorem def_ext_complete (P : Prog α) (D : Defs α) (hP : ∀ r, P r → Indep D.A r)
    (hpers : ∀ a H T, Sub H T → D.dfn a H T → D.dfn a T T)
    (T' : Interp α) (hT' : Stable (Union P D.rules) T') :
    ∃ T, Stable P T ∧ ∀ a, T' a ↔ ext D T a := by
  classical
  let T : Interp α := fun a => T' a ∧ ¬ D.A a
  have agT : AgreeOff D.A T T' := fun a ha => ⟨fun h => h.1, fun h => ⟨h, ha⟩⟩
  have hMT : Models P T T := fun r hr => (hP r hr T T T' T' agT agT).mpr (hT'.1 r (Or.inl hr))
  -- aux atoms of T' are exactly the defined ones
  have haux : ∀ a, D.A a → (T' a ↔ D.dfn a T T) := by
    intro a hA
    constructor
    · intro hTa
      apply Classical.byContradiction
      intro hnd
      -- remove a from T'
      let H : Interp α := fun b => T' b ∧ b ≠ a
      have hsub : SSub H T' := ⟨fun b hb => hb.1, a, hTa, fun h => h.2 rfl⟩
      have agH : AgreeOff D.A H T' := fun b hb => ⟨fun h => h.1, fun h => ⟨h, fun e => hb (e ▸ hA)⟩⟩
      refine hT'.2 H hsub ?_
      intro r hr
      rcases hr with hr | hr
      · exact (hP r hr H T' T' T' agH (fun _ _ => Iff.rfl)).mpr (hT'.1 r (Or.inl hr))
      · obtain ⟨b, hB, rfl⟩ := hr
        have hb := hT'.1 _ (Or.inr ⟨b, hB, rfl⟩)
        refine ⟨?_, hb.2⟩
        intro hd
        have hd' : D.dfn b T' T' := (D.indep b H T' T' T' agH (fun _ _ => Iff.rfl)).mp hd
        refine ⟨hb.2 hd', ?_⟩
        intro e; subst e
        exact hnd ((D.indep b T T T' T' agT agT).mpr hd')
    · intro hd
      exact (hT'.1 _ (Or.inr ⟨a, hA, rfl⟩)).2 ((D.indep a T T T' T' agT agT).mp hd)
  refine ⟨T, ⟨hMT, ?_⟩, ?_⟩
  · intro H hH hMH
    -- extend H by the aux atoms of T'
    let H' : Interp α := fun a => (¬ D.A a ∧ H a) ∨ (D.A a ∧ T' a)
    have agH' : AgreeOff D.A H H' := by
      intro a ha
      constructor
      · intro h; exact Or.inl ⟨ha, h⟩
      · intro h; rcases h with h | h
        · exact h.2
        · exact absurd h.1 ha
    have hsub : SSub H' T' := by
      refine ⟨?_, ?_⟩
      · intro a ha
        rcases ha with h | h
        · exact (hH.1 a h.2).1
        · exact h.2
      · obtain ⟨b, hb, hnb⟩ := hH.2
        refine ⟨b, hb.1, ?_⟩
        intro h
        rcases h with h | h
        · exact hnb h.2
        · exact hb.2 h.1
    refine hT'.2 H' hsub ?_
    intro r hr
    rcases hr with hr | hr
    · exact (hP r hr H T H' T' agH' agT).mp (hMH r hr)
    · obtain ⟨b, hB, rfl⟩ := hr
      have hb := hT'.1 _ (Or.inr ⟨b, hB, rfl⟩)
      refine ⟨?_, hb.2⟩
      intro hd
      exact Or.inr ⟨hB, hb.2 (hpers b H' T' hsub.1 hd)⟩
  · intro a
    by_cases hA : D.A a
    · rw [haux a hA]
      constructor
      · intro h; exact Or.inr ⟨hA, h⟩
      · intro h; rcases h with h | h
        · exact absurd hA h.1
        · exact h.2
    · constructor
      · intro h; exact Or.inl ⟨hA, ⟨h, hA⟩⟩
      · intro h; rcases h with h | h
        · exact h.2.1
        · exact absurd h.1 hA
end HT
