/-! spike: syntactic transformation -> denotation equality -/
namespace Br
inductive Term where
  | var (n : String) | num (n : Int) | add (l r : Term)
  deriving DecidableEq, Repr
inductive Op where | lt | le | eq | ne | gt | ge
  deriving DecidableEq, Repr
inductive Sign where | pos | neg | dneg
  deriving DecidableEq, Repr
structure Atom where
  name : String
  args : List Term
  deriving DecidableEq, Repr
inductive Lit where
  | atom (s : Sign) (a : Atom)
  | cmp (s : Sign) (t : Term) (guards : List (Op × Term))
  deriving Repr

abbrev Env := String → Int
def Term.eval (e : Env) : Term → Int
  | .var n => e n | .num n => n | .add l r => l.eval e + r.eval e
def Op.holds : Op → Int → Int → Prop
  | .lt, a, b => a < b | .le, a, b => a ≤ b | .eq, a, b => a = b
  | .ne, a, b => a ≠ b | .gt, a, b => a > b | .ge, a, b => a ≥ b
def chainHolds (e : Env) : Term → List (Op × Term) → Prop
  | _, [] => True
  | t, (o, u) :: gs => o.holds (t.eval e) (u.eval e) ∧ chainHolds e u gs

structure GAtom where
  name : String
  args : List Int
abbrev Interp := GAtom → Prop
def Atom.ground (e : Env) (a : Atom) : GAtom := ⟨a.name, a.args.map (Term.eval e)⟩

def Lit.sat (e : Env) (H T : Interp) : Lit → Prop
  | .atom .pos a => H (a.ground e)
  | .atom .neg a => ¬ T (a.ground e)
  | .atom .dneg a => T (a.ground e)
  | .cmp .pos t gs => chainHolds e t gs
  | .cmp .neg t gs => ¬ chainHolds e t gs
  | .cmp .dneg t gs => chainHolds e t gs
def bodySat (e : Env) (H T : Interp) (b : List Lit) : Prop := ∀ l ∈ b, l.sat e H T

/-- model of ngo.normalize.normalize_operators on plain literals -/
def splitChain (s : Sign) : Term → List (Op × Term) → List Lit
  | _, [] => []
  | t, (o, u) :: gs => Lit.cmp s t [(o, u)] :: splitChain s u gs
def expandLit : Lit → List Lit
  | .cmp s t gs => splitChain s t gs
  | l => [l]
def expandBody (b : List Lit) : List Lit := b.flatMap expandLit

theorem splitChain_pos (e : Env) (H T : Interp) (t : Term) (gs : List (Op × Term)) :
    (∀ l ∈ splitChain .pos t gs, l.sat e H T) ↔ chainHolds e t gs := by
  induction gs generalizing t with
  | nil => simp [splitChain, chainHolds]
  | cons g gs ih =>
    obtain ⟨o, u⟩ := g
    simp only [splitChain, List.mem_cons, forall_eq_or_imp, chainHolds, ih]
    simp [Lit.sat, chainHolds]

/-- full-strength statement is FALSE for negated chains of length ≥ 2 (found: genuine defect) -/
theorem splitChain_neg_counterexample :
    ∃ (e : Env) (H T : Interp) (t : Term) (gs : List (Op × Term)),
      ¬ ((∀ l ∈ splitChain .neg t gs, l.sat e H T) ↔ ¬ chainHolds e t gs) := by
  refine ⟨fun _ => 0, fun _ => False, fun _ => False, .num 1, [(.lt, .num 2), (.lt, .num 0)], ?_⟩
  simp [splitChain, chainHolds, Lit.sat, Op.holds, Term.eval]

def NoNegChain : Lit → Prop
  | .cmp .pos _ _ => True
  | .cmp .dneg _ _ => True
  | .cmp .neg _ gs => gs.length ≤ 1
  | _ => True

theorem expandBody_sat_partial (e : Env) (H T : Interp) (b : List Lit)
    (hb : ∀ l ∈ b, ∀ s t gs, l = .cmp s t gs → s = .pos) :
    bodySat e H T (expandBody b) ↔ bodySat e H T b := by
  induction b with
  | nil => simp [expandBody, bodySat]
  | cons l b ih =>
    have ih' := ih (fun l hl => hb l (List.mem_cons_of_mem _ hl))
    simp only [expandBody, bodySat, List.flatMap_cons, List.mem_append, List.mem_cons] at *
    constructor
    · intro h x hx
      rcases hx with rfl | hx
      · cases x with
        | atom s a => exact h _ (Or.inl (by simp [expandLit]))
        | cmp s t gs =>
          have hs := hb _ (Or.inl rfl) s t gs rfl
          subst hs
          exact (splitChain_pos e H T t gs).mp (fun l hl => h l (Or.inl (by simpa [expandLit] using hl)))
      · exact ih'.mp (fun y hy => h y (Or.inr hy)) x hx
    · intro h x hx
      rcases hx with hx | hx
      · cases l with
        | atom s a => simp [expandLit] at hx; subst hx; exact h _ (Or.inl rfl)
        | cmp s t gs =>
          have hs := hb _ (Or.inl rfl) s t gs rfl
          subst hs
          have := h _ (Or.inl rfl)
          exact (splitChain_pos e H T t gs).mpr this x (by simpa [expandLit] using hx)
      · exact ih'.mpr (fun y hy => h y (Or.inr hy)) x hx
end Br
