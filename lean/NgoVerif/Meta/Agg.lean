import Mathlib.Data.Set.Finite.Basic
import Mathlib.Algebra.BigOperators.Group.Finset.Basic
import Mathlib.Data.Set.Card

/-! spike: aggregate value semantics over possibly infinite tuple sets -/
namespace Agg
open Classical

inductive Val where
  | num (n : Int) | id (s : String) | inf | sup
  deriving DecidableEq

abbrev Tuple := List Val

def weight : Tuple → Int
  | Val.num n :: _ => n
  | _ => 0

noncomputable def sumOf (S : Set Tuple) : Int :=
  if h : S.Finite then ∑ t ∈ h.toFinset, weight t else 0

noncomputable def sumPlusOf (S : Set Tuple) : Int :=
  if h : S.Finite then ∑ t ∈ h.toFinset, max (weight t) 0 else 0

noncomputable def countOf (S : Set Tuple) : Int :=
  if h : S.Finite then (h.toFinset.card : Int) else 0

/-- #count{t : c}  =  #sum+{1,t : c} -/
theorem count_eq_sumPlus (S : Set Tuple) :
    countOf S = sumPlusOf ((fun t => Val.num 1 :: t) '' S) := by
  have inj : Function.Injective (fun t : Tuple => Val.num 1 :: t) := by
    intro a b h; simpa using h
  unfold countOf sumPlusOf
  by_cases h : S.Finite
  · have h' : ((fun t => Val.num 1 :: t) '' S).Finite := h.image _
    rw [dif_pos h, dif_pos h']
    have : h'.toFinset = h.toFinset.image (fun t => Val.num 1 :: t) := by
      ext x; simp
    rw [this, Finset.sum_image (by intro a _ b _ hab; exact inj hab)]
    simp [weight]
  · have h' : ¬ ((fun t => Val.num 1 :: t) '' S).Finite := by
      intro hf; exact h ((Set.finite_image_iff inj.injOn).mp hf)
    rw [dif_neg h, dif_neg h']
end Agg
