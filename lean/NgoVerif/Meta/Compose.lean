/-!
# M10 — composing the per-pass guarantees along the pipeline (C01, C02, C06); core Lean only

`AS P I m` : `m` is an answer set (with its cost, if `Model` carries one) of program `P` joined with instance `I`.
`obs` is what the property observes: the restriction to the output predicates (C01), the same paired with the cost
vector (C02), or the restriction to the source vocabulary (C06).
-/
namespace Compose
variable {Prog Inst Model Obs : Type}

/-- same observations: `{obs m | m ∈ AS(P ∪ I)} = {obs m | m ∈ AS(Q ∪ I)}` for every instance -/
def EquivOn (AS : Prog → Inst → Model → Prop) (obs : Model → Obs) (P Q : Prog) : Prop :=
  ∀ I o, (∃ m, AS P I m ∧ obs m = o) ↔ (∃ m, AS Q I m ∧ obs m = o)

theorem EquivOn.refl (AS : Prog → Inst → Model → Prop) (obs : Model → Obs) (P : Prog) : EquivOn AS obs P P :=
  fun _ _ => Iff.rfl

theorem EquivOn.symm {AS : Prog → Inst → Model → Prop} {obs : Model → Obs} {P Q : Prog}
    (h : EquivOn AS obs P Q) : EquivOn AS obs Q P := fun I o => (h I o).symm

theorem EquivOn.trans {AS : Prog → Inst → Model → Prop} {obs : Model → Obs} {P Q R : Prog}
    (h1 : EquivOn AS obs P Q) (h2 : EquivOn AS obs Q R) : EquivOn AS obs P R :=
  fun I o => (h1 I o).trans (h2 I o)

/-- a guarantee on a finer observation (e.g. IN ∪ OUT, or the whole source vocabulary) gives the coarser one (OUT) -/
theorem EquivOn.coarsen {Obs' : Type} {AS : Prog → Inst → Model → Prop} {obs : Model → Obs} (f : Obs → Obs')
    {P Q : Prog} (h : EquivOn AS obs P Q) : EquivOn AS (f ∘ obs) P Q := by
  intro I o'
  constructor
  · rintro ⟨m, hm, rfl⟩
    obtain ⟨m', hm', he⟩ := (h I (obs m)).mp ⟨m, hm, rfl⟩
    exact ⟨m', hm', by simp [Function.comp, he]⟩
  · rintro ⟨m, hm, rfl⟩
    obtain ⟨m', hm', he⟩ := (h I (obs m)).mpr ⟨m, hm, rfl⟩
    exact ⟨m', hm', by simp [Function.comp, he]⟩

/-- a pipeline: the programs after each pass application -/
def Chain (R : Prog → Prog → Prop) : Prog → List Prog → Prop
  | _, [] => True
  | P, Q :: rest => R P Q ∧ Chain R Q rest

/-- **composition**: if every pass application preserves the observation, so does the whole run, whatever the
number of passes and loop iterations -/
theorem chain_equiv {AS : Prog → Inst → Model → Prop} {obs : Model → Obs} :
    ∀ (P : Prog) (steps : List Prog), Chain (EquivOn AS obs) P steps →
      EquivOn AS obs P ((P :: steps).getLast (List.cons_ne_nil _ _))
  | P, [], _ => EquivOn.refl AS obs P
  | P, Q :: rest, h => by
    have ih := chain_equiv Q rest h.2
    rw [List.getLast_cons_cons]
    exact EquivOn.trans h.1 ih

/-- satisfiability is an observation: equal observations imply equal satisfiability -/
theorem EquivOn.sat {AS : Prog → Inst → Model → Prop} {obs : Model → Obs} {P Q : Prog} (h : EquivOn AS obs P Q)
    (I : Inst) : (∃ m, AS P I m) ↔ (∃ m, AS Q I m) := by
  constructor
  · rintro ⟨m, hm⟩; obtain ⟨m', hm', _⟩ := (h I (obs m)).mp ⟨m, hm, rfl⟩; exact ⟨m', hm'⟩
  · rintro ⟨m, hm⟩; obtain ⟨m', hm', _⟩ := (h I (obs m)).mpr ⟨m, hm, rfl⟩; exact ⟨m', hm'⟩

/-- one-to-one conservative extension: `proj` maps the answer sets of `Q ∪ I` bijectively onto those of `P ∪ I` -/
def ConsExt (AS : Prog → Inst → Model → Prop) (proj : Model → Model) (P Q : Prog) : Prop :=
  ∀ I, (∀ m, AS Q I m → AS P I (proj m)) ∧
       (∀ m, AS P I m → ∃ m', AS Q I m' ∧ proj m' = m ∧ ∀ m'', AS Q I m'' → proj m'' = m → m'' = m')

/-- conservative extensions compose (the projections compose) -/
theorem ConsExt.trans {AS : Prog → Inst → Model → Prop} {p1 p2 : Model → Model} {P Q R : Prog}
    (h1 : ConsExt AS p1 P Q) (h2 : ConsExt AS p2 Q R) : ConsExt AS (p1 ∘ p2) P R := by
  intro I
  obtain ⟨a1, b1⟩ := h1 I
  obtain ⟨a2, b2⟩ := h2 I
  constructor
  · intro m hm; exact a1 _ (a2 m hm)
  · intro m hm
    obtain ⟨m1, hm1, e1, u1⟩ := b1 m hm
    obtain ⟨m2, hm2, e2, u2⟩ := b2 m1 hm1
    refine ⟨m2, hm2, by simp [Function.comp, e2, e1], ?_⟩
    intro m'' hm'' he
    have hq : AS Q I (p2 m'') := a2 m'' hm''
    have : p2 m'' = m1 := u1 _ hq (by simpa [Function.comp] using he)
    exact u2 m'' hm'' this

/-- a one-to-one extension has the same number of answer sets: `proj` is injective on them and onto -/
theorem ConsExt.injective {AS : Prog → Inst → Model → Prop} {proj : Model → Model} {P Q : Prog}
    (h : ConsExt AS proj P Q) (I : Inst) (m m' : Model) (hm : AS Q I m) (hm' : AS Q I m') (he : proj m = proj m') :
    m = m' := by
  obtain ⟨a, b⟩ := h I
  obtain ⟨m0, _, _, u⟩ := b (proj m) (a m hm)
  rw [u m hm rfl, u m' hm' he.symm]

/-- a conservative extension preserves every observation that only looks at the projected part -/
theorem ConsExt.equivOn {AS : Prog → Inst → Model → Prop} {proj : Model → Model} {obs : Model → Obs} {P Q : Prog}
    (h : ConsExt AS proj P Q) (hobs : ∀ m, obs (proj m) = obs m) : EquivOn AS obs P Q := by
  intro I o
  obtain ⟨a, b⟩ := h I
  constructor
  · rintro ⟨m, hm, rfl⟩
    obtain ⟨m', hm', e, _⟩ := b m hm
    exact ⟨m', hm', by rw [← hobs m', e]⟩
  · rintro ⟨m, hm, rfl⟩
    exact ⟨proj m, a m hm, hobs m⟩

end Compose
