/-! spike: shallow HT semantics and definitional extension -/
namespace HT
variable {α : Type}

abbrev Interp (α : Type) := α → Prop

def Sub (H T : Interp α) : Prop := ∀ a, H a → T a
def SSub (H T : Interp α) : Prop := Sub H T ∧ ∃ a, T a ∧ ¬ H a

/-- a ground rule as its satisfaction relation on HT pairs -/
abbrev Rule (α : Type) := Interp α → Interp α → Prop
abbrev Prog (α : Type) := Rule α → Prop

def Models (P : Prog α) (H T : Interp α) : Prop := ∀ r, P r → r H T

def Stable (P : Prog α) (T : Interp α) : Prop :=
  Models P T T ∧ ∀ H, SSub H T → ¬ Models P H T

def AgreeOff (A : α → Prop) (I J : Interp α) : Prop := ∀ a, ¬ A a → (I a ↔ J a)

def Indep (A : α → Prop) (r : Rule α) : Prop :=
  ∀ H T H' T', AgreeOff A H H' → AgreeOff A T T' → (r H T ↔ r H' T')

/-- definitions of the atoms in A : `dfn a H T` is the (disjunction of the) bodies -/
structure Defs (α : Type) where
  A : α → Prop
  dfn : α → Interp α → Interp α → Prop
  indep : ∀ a, Indep A (dfn a)

def Defs.rules (D : Defs α) : Prog α :=
  fun r => ∃ a, D.A a ∧ r = fun H T => (D.dfn a H T → H a) ∧ (D.dfn a T T → T a)

def Union (P Q : Prog α) : Prog α := fun r => P r ∨ Q r

def ext (D : Defs α) (T : Interp α) : Interp α :=
  fun a => (¬ D.A a ∧ T a) ∨ (D.A a ∧ D.dfn a T T)

theorem stable_no_aux {P : Prog α} {A : α → Prop} (hP : ∀ r, P r → Indep A r)
    {T : Interp α} (hT : Stable P T) : ∀ a, A a → ¬ T a := by
  intro a hA hTa
  classical
  refine hT.2 (fun b => T b ∧ ¬ A b) ⟨fun b hb => hb.1, a, hTa, fun h => h.2 hA⟩ ?_
  intro r hr
  have := hP r hr (fun b => T b ∧ ¬ A b) T T T
    (by intro b hb; exact ⟨fun h => h.1, fun h => ⟨h, hb⟩⟩) (by intro b _; exact Iff.rfl)
  exact this.mpr (hT.1 r hr)

theorem def_ext_sound (P : Prog α) (D : Defs α) (hP : ∀ r, P r → Indep D.A r)
    (T : Interp α) (hT : Stable P T) : Stable (Union P D.rules) (ext D T) := by
  have hno := stable_no_aux hP hT
  have agree : AgreeOff D.A T (ext D T) := by
    intro a ha
    constructor
    · intro h; exact Or.inl ⟨ha, h⟩
    · intro h; rcases h with h | h
      · exact h.2
      · exact absurd h.1 ha
  constructor
  · intro r hr
    rcases hr with hr | hr
    · exact (hP r hr T T (ext D T) (ext D T) agree agree).mp (hT.1 r hr)
    · obtain ⟨a, hA, rfl⟩ := hr
      have : D.dfn a (ext D T) (ext D T) → ext D T a := by
        intro h
        exact Or.inr ⟨hA, (D.indep a T T (ext D T) (ext D T) agree agree).mpr h⟩
      exact ⟨this, this⟩
  · intro H' hH' hM
    -- H = H' off A
    classical
    let H : Interp α := fun a => H' a ∧ ¬ D.A a
    have agH : AgreeOff D.A H H' := by
      intro a ha; exact ⟨fun h => h.1, fun h => ⟨h, ha⟩⟩
    have hHT : Sub H T := by
      intro a ha
      have := hH'.1 a ha.1
      rcases this with h | h
      · exact h.2
      · exact absurd h.1 ha.2
    have hMH : Models P H T := by
      intro r hr
      exact (hP r hr H T H' (ext D T) agH agree).mpr (hM r (Or.inl hr))
    have hEq : ∀ a, T a → H a := by
      intro a hTa
      apply Classical.byContradiction
      intro hna
      exact hT.2 H ⟨hHT, a, hTa, hna⟩ hMH
    -- H' ⊇ ext D T
    obtain ⟨b, hb, hnb⟩ := hH'.2
    rcases hb with hb | hb
    · exact hnb (hEq b hb.2).1
    · have agH'T : AgreeOff D.A H' T := by
        intro a ha
        constructor
        · intro h; exact hHT a ⟨h, ha⟩
        · intro h; exact (hEq a h).1
      have h1 : D.dfn b H' (ext D T) :=
        (D.indep b H' (ext D T) T T agH'T (fun a ha => (agree a ha).symm)).mpr hb.2
      have := hM _ (Or.inr ⟨b, hb.1, rfl⟩)
      exact hnb (this.1 h1)
end HT
