/-!
# The covering (immediate successor) relation of a finite, sorted domain — what `__next_…` must be (C20)
core Lean only
-/
namespace Cover

/-- consecutive pairs of a list -/
def consecutive : List Int → List (Int × Int)
  | a :: b :: rest => (a, b) :: consecutive (b :: rest)
  | _ => []

theorem consecutive_cover : ∀ (l : List Int), l.Pairwise (· < ·) → ∀ a b : Int,
    ((a, b) ∈ consecutive l ↔ a ∈ l ∧ b ∈ l ∧ a < b ∧ ∀ c ∈ l, ¬ (a < c ∧ c < b))
  | [], _, a, b => by simp [consecutive]
  | [x], _, a, b => by
    simp only [consecutive, List.not_mem_nil, List.mem_singleton, false_iff]
    rintro ⟨rfl, rfl, h, _⟩; omega
  | x :: y :: rest, hs, a, b => by
    have hs' := List.pairwise_cons.mp hs
    have hxy : x < y := hs'.1 y List.mem_cons_self
    have hxrest : ∀ c ∈ rest, x < c := fun c hc => hs'.1 c (List.mem_cons_of_mem _ hc)
    have hs2 := List.pairwise_cons.mp hs'.2
    have hyrest : ∀ c ∈ rest, y < c := hs2.1
    have ih := consecutive_cover (y :: rest) hs'.2 a b
    simp only [consecutive, List.mem_cons, Prod.mk.injEq]
    constructor
    · rintro (⟨rfl, rfl⟩ | h)
      · refine ⟨Or.inl rfl, Or.inr (Or.inl rfl), hxy, ?_⟩
        rintro c (rfl | rfl | hc) ⟨h1, h2⟩
        · omega
        · omega
        · have := hyrest c hc; omega
      · obtain ⟨ha, hb, hab, hno⟩ := ih.mp h
        simp only [List.mem_cons] at ha hb
        refine ⟨Or.inr ha, Or.inr hb, hab, ?_⟩
        rintro c (rfl | hc) ⟨h1, h2⟩
        · rcases ha with rfl | ha
          · omega
          · have := hxrest a ha; omega
        · exact hno c (List.mem_cons.mpr hc) ⟨h1, h2⟩
    · rintro ⟨ha, hb, hab, hno⟩
      rcases ha with rfl | ha
      · -- a = x
        rcases hb with rfl | rfl | hb
        · omega
        · exact Or.inl ⟨rfl, rfl⟩
        · exact absurd ⟨hxy, hyrest b hb⟩ (hno y (Or.inr (Or.inl rfl)))
      · right
        apply ih.mpr
        have hxa : x < a := by
          rcases ha with rfl | ha
          · exact hxy
          · exact hxrest a ha
        have hb' : b = y ∨ b ∈ rest := by
          rcases hb with rfl | hb
          · omega
          · exact hb
        refine ⟨List.mem_cons.mpr ha, List.mem_cons.mpr hb', hab, ?_⟩
        intro c hc
        exact hno c (Or.inr (List.mem_cons.mp hc))

/-- in a strictly sorted list the head is the least element -/
theorem head_least (x : Int) (l : List Int) (hs : (x :: l).Pairwise (· < ·)) : ∀ c ∈ x :: l, x ≤ c := by
  intro c hc
  rcases List.mem_cons.mp hc with rfl | hc
  · exact Int.le_refl _
  · exact Int.le_of_lt ((List.pairwise_cons.mp hs).1 c hc)

/-- … and the last element is the greatest -/
theorem last_greatest : ∀ (l : List Int) (hne : l ≠ []), l.Pairwise (· < ·) → ∀ c ∈ l, c ≤ l.getLast hne
  | [x], _, _, c, hc => by simp at hc; simp [hc]
  | x :: y :: rest, _, hs, c, hc => by
    have hs' := List.pairwise_cons.mp hs
    have ih := last_greatest (y :: rest) (List.cons_ne_nil _ _) hs'.2
    rw [List.getLast_cons_cons]
    rcases List.mem_cons.mp hc with rfl | hc
    · have h1 := hs'.1 y List.mem_cons_self
      have h2 := ih y List.mem_cons_self
      omega
    · exact ih c hc

end Cover
