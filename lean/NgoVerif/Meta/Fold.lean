import NgoVerif.Meta.Meta2
/-! spike 3: folding lemma M3f -/
namespace HT
variable {α : Type}

def mkRule (body head : Interp α → Interp α → Prop) : Rule α :=
  fun H T => (body H T → head H T) ∧ (body T T → head T T)

/-- `rf` is `r` with the defining body of aux atom `a` replaced by `a` itself -/
def Fold (D : Defs α) (r rf : Rule α) : Prop :=
  ∃ a rest head, D.A a ∧ Indep D.A rest ∧ Indep D.A head ∧
    r = mkRule (fun H T => D.dfn a H T ∧ rest H T) head ∧
    rf = mkRule (fun H T => H a ∧ rest H T) head

structure Folding (D : Defs α) (P Pf : Prog α) : Prop where
  fwd : ∀ r, P r → (Pf r ∧ Indep D.A r) ∨ ∃ rf, Pf rf ∧ Fold D r rf
  bwd : ∀ rf, Pf rf → (P rf ∧ Indep D.A rf) ∨ ∃ r, P r ∧ Fold D r rf

theorem fold_stable (P Pf : Prog α) (D : Defs α) (hP : ∀ r, P r → Indep D.A r)
    (hpers : ∀ a H T, Sub H T → D.dfn a H T → D.dfn a T T)
    (hF : Folding D P Pf) (T' : Interp α) :
    Stable (Union P D.rules) T' ↔ Stable (Union Pf D.rules) T' := by
  classical
  have agrefl : ∀ I : Interp α, AgreeOff D.A I I := fun _ _ _ => Iff.rfl
  constructor
  · intro hS
    obtain ⟨T, _, hTT'⟩ := def_ext_complete P D hP hpers T' hS
    -- aux atoms of T' are supported
    have hsupp : ∀ a, D.A a → T' a → D.dfn a T' T' := by
      intro a hA hTa
      have := (hTT' a).mp hTa
      rcases this with h | h
      · exact absurd hA h.1
      · have ag : AgreeOff D.A T T' := by
          intro b hb
          rw [hTT' b]
          constructor
          · intro h; exact Or.inl ⟨hb, h⟩
          · intro h; rcases h with h | h
            · exact h.2
            · exact absurd h.1 hb
        exact (D.indep a T T T' T' ag ag).mp h.2
    have hsubm : ∀ H, Models (Union Pf D.rules) H T' → Sub H T' → Models (Union P D.rules) H T' := by
      intro H hM _ r hr
      rcases hr with hr | hr
      · rcases hF.fwd r hr with h | ⟨rf, hrf, a, rest, head, hA, _, _, rfl, rfl⟩
        · exact hM r (Or.inl h.1)
        · have hrfm := hM _ (Or.inl hrf)
          have hd := hM _ (Or.inr ⟨a, hA, rfl⟩)
          exact ⟨fun hb => hrfm.1 ⟨hd.1 hb.1, hb.2⟩, fun hb => hrfm.2 ⟨hd.2 hb.1, hb.2⟩⟩
      · exact hM r (Or.inr hr)
    constructor
    · intro rf hrf
      rcases hrf with hrf | hrf
      · rcases hF.bwd rf hrf with h | ⟨r, hr, a, rest, head, hA, _, _, rfl, rfl⟩
        · exact hS.1 rf (Or.inl h.1)
        · have hrm := hS.1 _ (Or.inl hr)
          have : (T' a ∧ rest T' T') → head T' T' := fun hb => hrm.2 ⟨hsupp a hA hb.1, hb.2⟩
          exact ⟨this, this⟩
      · exact hS.1 rf (Or.inr hrf)
    · intro H hH hM
      exact hS.2 H hH (hsubm H hM hH.1)
  · intro hS
    have htot : Models (Union P D.rules) T' T' := by
      intro r hr
      rcases hr with hr | hr
      · rcases hF.fwd r hr with h | ⟨rf, hrf, a, rest, head, hA, _, _, rfl, rfl⟩
        · exact hS.1 r (Or.inl h.1)
        · have hrfm := hS.1 _ (Or.inl hrf)
          have hd := hS.1 _ (Or.inr ⟨a, hA, rfl⟩)
          have : (D.dfn a T' T' ∧ rest T' T') → head T' T' := fun hb => hrfm.2 ⟨hd.2 hb.1, hb.2⟩
          exact ⟨this, this⟩
      · exact hS.1 r (Or.inr hr)
    refine ⟨htot, ?_⟩
    intro H' hH' hM
    let H'' : Interp α := fun a => (¬ D.A a ∧ H' a) ∨ (D.A a ∧ D.dfn a H' T')
    have ag : AgreeOff D.A H'' H' := by
      intro a ha
      constructor
      · intro h; rcases h with h | h
        · exact h.2
        · exact absurd h.1 ha
      · intro h; exact Or.inl ⟨ha, h⟩
    have hsub'' : Sub H'' H' := by
      intro a ha
      rcases ha with h | h
      · exact h.2
      · exact (hM _ (Or.inr ⟨a, h.1, rfl⟩)).1 h.2
    have hss : SSub H'' T' := by
      refine ⟨fun a ha => hH'.1 a (hsub'' a ha), ?_⟩
      obtain ⟨b, hb, hnb⟩ := hH'.2
      exact ⟨b, hb, fun h => hnb (hsub'' b h)⟩
    refine hS.2 H'' hss ?_
    intro rf hrf
    rcases hrf with hrf | hrf
    · rcases hF.bwd rf hrf with h | ⟨r, hr, a, rest, head, hA, hrest, hhead, rfl, rfl⟩
      · exact (h.2 H'' T' H' T' ag (agrefl T')).mpr (hM rf (Or.inl h.1))
      · have hrm := hM _ (Or.inl hr)
        refine ⟨?_, (hS.1 _ (Or.inl hrf)).2⟩
        intro hb
        have ha : D.dfn a H' T' := by
          rcases hb.1 with h | h
          · exact absurd hA h.1
          · exact h.2
        have hr' : rest H' T' := (hrest H'' T' H' T' ag (agrefl T')).mp hb.2
        exact (hhead H'' T' H' T' ag (agrefl T')).mpr (hrm.1 ⟨ha, hr'⟩)
    · obtain ⟨b, hB, rfl⟩ := hrf
      refine ⟨?_, (hS.1 _ (Or.inr ⟨b, hB, rfl⟩)).2⟩
      intro hd
      exact Or.inr ⟨hB, (D.indep b H'' T' H' T' ag (agrefl T')).mp hd⟩
end HT
