import NgoVerif.Meta.Fold
/-!
# The split (projection / factoring) schema at the ground level, with the exact side condition

A rule schema `Hd(e) ← N(e) ∧ R(e)` (one ground rule per environment `e`) is replaced by
`aux(t e) ← N(e)` and `Hd(e) ← R(e) ∧ aux(t e)` with fresh atoms `aux k`.  The side condition (`Glue`) says that an
environment may be re-assembled from the `N`-part of one environment and the `R`/head-part of another whenever the two
agree on the interface `t` — i.e. every variable shared between the moved part and the rest is passed through the
auxiliary atom.  Under it the stable models correspond one-to-one (`split_sound`, `split_complete`).
-/
namespace HT
variable {α E K : Type}

theorem indep_mkRule {A : α → Prop} {body head : Interp α → Interp α → Prop}
    (hb : Indep A body) (hh : Indep A head) : Indep A (mkRule body head) := by
  intro H T H' T' aH aT
  have aTT : AgreeOff A T T' := aT
  simp only [mkRule]
  rw [hb H T H' T' aH aT, hh H T H' T' aH aT, hb T T T' T' aT aT, hh T T T' T' aT aT]

theorem indep_and {A : α → Prop} {p q : Interp α → Interp α → Prop} (hp : Indep A p) (hq : Indep A q) :
    Indep A (fun H T => p H T ∧ q H T) := by
  intro H T H' T' aH aT
  show (p H T ∧ q H T) ↔ (p H' T' ∧ q H' T')
  rw [hp H T H' T' aH aT, hq H T H' T' aH aT]

structure SplitData (α E K : Type) where
  P0 : Prog α
  N : E → Interp α → Interp α → Prop
  R : E → Interp α → Interp α → Prop
  Hd : E → Interp α → Interp α → Prop
  t : E → K
  aux : K → α
  aux_inj : ∀ k k', aux k = aux k' → k = k'

namespace SplitData
variable (S : SplitData α E K)

def A : α → Prop := fun a => ∃ k, a = S.aux k

/-- the side condition: shared variables go through the interface -/
def Glue : Prop := ∀ e e', S.t e' = S.t e → ∃ e'',
  (∀ H T, S.N e'' H T ↔ S.N e' H T) ∧ (∀ H T, S.R e'' H T ↔ S.R e H T) ∧ (∀ H T, S.Hd e'' H T ↔ S.Hd e H T)

structure WF : Prop where
  p0 : ∀ r, S.P0 r → Indep S.A r
  n : ∀ e, Indep S.A (S.N e)
  r : ∀ e, Indep S.A (S.R e)
  hd : ∀ e, Indep S.A (S.Hd e)
  pers : ∀ e H T, Sub H T → S.N e H T → S.N e T T

/-- the definition of the auxiliary atoms -/
def dfn (a : α) (H T : Interp α) : Prop := ∃ e, a = S.aux (S.t e) ∧ S.N e H T

def defs (h : S.WF) : Defs α where
  A := S.A
  dfn := S.dfn
  indep := by
    intro a H T H' T' aH aT
    simp only [dfn]
    constructor
    · rintro ⟨e, ha, hn⟩; exact ⟨e, ha, (h.n e H T H' T' aH aT).mp hn⟩
    · rintro ⟨e, ha, hn⟩; exact ⟨e, ha, (h.n e H T H' T' aH aT).mpr hn⟩

/-- the original program -/
def orig : Prog α := fun r => S.P0 r ∨ ∃ e, r = mkRule (fun H T => S.N e H T ∧ S.R e H T) (S.Hd e)
/-- the original program with the moved part replaced by the *definition* of its auxiliary atom -/
def unfolded : Prog α := fun r => S.P0 r ∨ ∃ e, r = mkRule (fun H T => S.dfn (S.aux (S.t e)) H T ∧ S.R e H T) (S.Hd e)
/-- the rewritten rules (without the auxiliary rules) -/
def folded : Prog α := fun r => S.P0 r ∨ ∃ e, r = mkRule (fun H T => H (S.aux (S.t e)) ∧ S.R e H T) (S.Hd e)

theorem models_unfolded (hg : S.Glue) (H T : Interp α) : Models S.orig H T ↔ Models S.unfolded H T := by
  constructor
  · intro hm r hr
    rcases hr with hr | ⟨e, rfl⟩
    · exact hm r (Or.inl hr)
    · constructor
      · rintro ⟨⟨e', he', hn⟩, hr⟩
        have hte : S.t e' = S.t e := (S.aux_inj _ _ he').symm
        obtain ⟨e'', h1, h2, h3⟩ := hg e e' hte
        have := (hm _ (Or.inr ⟨e'', rfl⟩)).1 ⟨(h1 H T).mpr hn, (h2 H T).mpr hr⟩
        exact (h3 H T).mp this
      · rintro ⟨⟨e', he', hn⟩, hr⟩
        have hte : S.t e' = S.t e := (S.aux_inj _ _ he').symm
        obtain ⟨e'', h1, h2, h3⟩ := hg e e' hte
        have := (hm _ (Or.inr ⟨e'', rfl⟩)).2 ⟨(h1 T T).mpr hn, (h2 T T).mpr hr⟩
        exact (h3 T T).mp this
  · intro hm r hr
    rcases hr with hr | ⟨e, rfl⟩
    · exact hm r (Or.inl hr)
    · have hu := hm _ (Or.inr ⟨e, rfl⟩)
      exact ⟨fun hb => hu.1 ⟨⟨e, rfl, hb.1⟩, hb.2⟩, fun hb => hu.2 ⟨⟨e, rfl, hb.1⟩, hb.2⟩⟩

theorem stable_unfolded (hg : S.Glue) (T : Interp α) : Stable S.orig T ↔ Stable S.unfolded T := by
  unfold Stable
  rw [S.models_unfolded hg T T]
  constructor
  · rintro ⟨h1, h2⟩; exact ⟨h1, fun H hs hm => h2 H hs ((S.models_unfolded hg H T).mpr hm)⟩
  · rintro ⟨h1, h2⟩; exact ⟨h1, fun H hs hm => h2 H hs ((S.models_unfolded hg H T).mp hm)⟩

theorem unfolded_indep (h : S.WF) : ∀ r, S.unfolded r → Indep (S.defs h).A r := by
  intro r hr
  rcases hr with hr | ⟨e, rfl⟩
  · exact h.p0 r hr
  · exact indep_mkRule (indep_and ((S.defs h).indep _) (h.r e)) (h.hd e)

theorem folding (h : S.WF) : Folding (S.defs h) S.unfolded S.folded where
  fwd := by
    intro r hr
    rcases hr with hr | ⟨e, rfl⟩
    · exact Or.inl ⟨Or.inl hr, h.p0 r hr⟩
    · exact Or.inr ⟨_, Or.inr ⟨e, rfl⟩, S.aux (S.t e), S.R e, S.Hd e, ⟨_, rfl⟩, h.r e, h.hd e, rfl, rfl⟩
  bwd := by
    intro r hr
    rcases hr with hr | ⟨e, rfl⟩
    · exact Or.inl ⟨Or.inl hr, h.p0 r hr⟩
    · exact Or.inr ⟨_, Or.inr ⟨e, rfl⟩, S.aux (S.t e), S.R e, S.Hd e, ⟨_, rfl⟩, h.r e, h.hd e, rfl, rfl⟩

theorem dfn_pers (h : S.WF) : ∀ a H T, Sub H T → (S.defs h).dfn a H T → (S.defs h).dfn a T T := by
  rintro a H T hs ⟨e, ha, hn⟩
  exact ⟨e, ha, h.pers e H T hs hn⟩

/-- **soundness**: every stable model of the original program extends (by the auxiliary atoms whose moved part holds)
to a stable model of the split program -/
theorem split_sound (h : S.WF) (hg : S.Glue) (T : Interp α) (hT : Stable S.orig T) :
    Stable (Union S.folded (S.defs h).rules) (ext (S.defs h) T) := by
  have h1 : Stable S.unfolded T := (S.stable_unfolded hg T).mp hT
  have h2 := def_ext_sound S.unfolded (S.defs h) (S.unfolded_indep h) T h1
  exact (fold_stable S.unfolded S.folded (S.defs h) (S.unfolded_indep h) (S.dfn_pers h) (S.folding h) _).mp h2

/-- **completeness**: every stable model of the split program is such an extension of a stable model of the original
program — together with soundness: a one-to-one correspondence -/
theorem split_complete (h : S.WF) (hg : S.Glue) (T' : Interp α)
    (hT' : Stable (Union S.folded (S.defs h).rules) T') :
    ∃ T, Stable S.orig T ∧ ∀ a, T' a ↔ ext (S.defs h) T a := by
  have h1 := (fold_stable S.unfolded S.folded (S.defs h) (S.unfolded_indep h) (S.dfn_pers h) (S.folding h) T').mpr hT'
  obtain ⟨T, hT, hext⟩ := def_ext_complete S.unfolded (S.defs h) (S.unfolded_indep h) (S.dfn_pers h) T' h1
  exact ⟨T, (S.stable_unfolded hg T).mpr hT, hext⟩

/-- **folding against a definition that is already there**: with the auxiliary rules present on both sides, replacing
the moved part by its auxiliary atom does not change the stable models at all (no extension: same interpretation) -/
theorem fold_existing (h : S.WF) (hg : S.Glue) (T : Interp α) :
    Stable (Union S.orig (S.defs h).rules) T ↔ Stable (Union S.folded (S.defs h).rules) T := by
  have hm : ∀ H T', Models (Union S.orig (S.defs h).rules) H T' ↔ Models (Union S.unfolded (S.defs h).rules) H T' := by
    intro H T'
    constructor
    · intro hM r hr
      rcases hr with hr | hr
      · exact (S.models_unfolded hg H T').mp (fun r' hr' => hM r' (Or.inl hr')) r hr
      · exact hM r (Or.inr hr)
    · intro hM r hr
      rcases hr with hr | hr
      · exact (S.models_unfolded hg H T').mpr (fun r' hr' => hM r' (Or.inl hr')) r hr
      · exact hM r (Or.inr hr)
  have h1 : Stable (Union S.orig (S.defs h).rules) T ↔ Stable (Union S.unfolded (S.defs h).rules) T := by
    unfold Stable
    rw [hm T T]
    constructor
    · rintro ⟨a, b⟩; exact ⟨a, fun H hs hM => b H hs ((hm H T).mpr hM)⟩
    · rintro ⟨a, b⟩; exact ⟨a, fun H hs hM => b H hs ((hm H T).mp hM)⟩
  rw [h1]
  exact fold_stable S.unfolded S.folded (S.defs h) (S.unfolded_indep h) (S.dfn_pers h) (S.folding h) T

end SplitData
end HT
