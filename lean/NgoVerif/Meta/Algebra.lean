import Mathlib.Algebra.BigOperators.Group.Finset.Basic
import Mathlib.Data.Finset.Card
import Mathlib.Tactic.Ring
import Mathlib.Tactic.Linarith
import Mathlib.Data.Finset.Max
/-!
# M7 / M8 — order and aggregate algebra used by the chain traits (symmetry, minmax_chains, sum_chains, math, inline)
-/
namespace Alg

/-! ## telescoping over a list of domain values (sum_chains / minmax objective weights) -/

/-- `Σᵢ (dᵢ₊₁ − dᵢ)` over consecutive elements -/
def tele : List Int → Int
  | [] => 0
  | [_] => 0
  | a :: b :: rest => (b - a) + tele (b :: rest)

theorem tele_eq (a : Int) : ∀ (l : List Int), a + tele (a :: l) = (a :: l).getLast (List.cons_ne_nil _ _)
  | [] => by simp [tele]
  | b :: rest => by
    have ih := tele_eq b rest
    simp only [tele, List.getLast_cons_cons]
    rw [← ih]; ring

/-- the chain encoding of "the value is `d_k`": base weight `d₀` plus one difference per chain step up to `k` -/
theorem tele_take (a : Int) (l : List Int) (k : Nat) (hk : k ≤ l.length) :
    a + tele ((a :: l).take (k + 1)) = (a :: l)[k]'(by simp; omega) := by
  induction l generalizing a k with
  | nil =>
    have : k = 0 := by simpa using hk
    subst this; simp [tele]
  | cons b rest ih =>
    cases k with
    | zero => simp [tele]
    | succ k =>
      have := ih b k (by simpa using hk)
      simp only [List.take_succ_cons, tele, List.getElem_cons_succ] at this ⊢
      rw [← this]; ring

/-! ## `X != Y` → `X < Y` for symmetric bodies (symmetry) -/

theorem neq_to_lt (R : Int → Int → Prop) (hsym : ∀ x y, R x y → R y x) :
    (∃ x y, x ≠ y ∧ R x y) ↔ (∃ x y, x < y ∧ R x y) := by
  constructor
  · rintro ⟨x, y, hne, h⟩
    rcases Int.lt_or_gt_of_ne hne with hlt | hgt
    · exact ⟨x, y, hlt, h⟩
    · exact ⟨y, x, hgt, hsym x y h⟩
  · rintro ⟨x, y, hlt, h⟩
    exact ⟨x, y, Int.ne_of_lt hlt, h⟩

/-- a symmetric rule fires for the ordered pair exactly when it fires for some unordered one, *also when the compared
variables are visible elsewhere only through a symmetric context*; if the context is not symmetric the rewrite is
wrong: -/
theorem neq_to_lt_counterexample :
    ∃ R : Int → Int → Prop, ¬ ((∃ x y, x ≠ y ∧ R x y) ↔ (∃ x y, x < y ∧ R x y)) := by
  refine ⟨fun x y => x = 1 ∧ y = 0, ?_⟩
  intro h
  obtain ⟨x, y, hlt, hx, hy⟩ := h.mp ⟨1, 0, by decide, rfl, rfl⟩
  omega

/-- two different witnesses ⇔ the count is at least two -/
theorem two_distinct_iff_count {α : Type} [DecidableEq α] (s : Finset α) :
    (∃ x ∈ s, ∃ y ∈ s, x ≠ y) ↔ 2 ≤ s.card := by
  rw [← Finset.one_lt_card]; rfl

/-! ## `#max` through a chain (minmax_chains) -/

/-- `chain(v)` holds iff some selected element is ≥ v -/
def chainAt (S : Finset Int) (v : Int) : Prop := ∃ s ∈ S, v ≤ s

theorem chain_iff_le_max (S : Finset Int) (m : Int) (hm : m ∈ S) (hmax : ∀ s ∈ S, s ≤ m) (v : Int) :
    chainAt S v ↔ v ≤ m := by
  constructor
  · rintro ⟨s, hs, hv⟩; exact le_trans hv (hmax s hs)
  · intro h; exact ⟨m, hm, h⟩

/-- the result rule `max(v) :- chain(v), not chain(n) : next(v,n)` picks exactly the maximum, where `next` is the
covering relation of a domain that contains the selected elements -/
theorem result_is_max (D S : Finset Int) (hSD : S ⊆ D) (m : Int) (hm : m ∈ S) (hmax : ∀ s ∈ S, s ≤ m)
    (next : Int → Int → Prop)
    (hnext : ∀ a b, next a b ↔ a ∈ D ∧ b ∈ D ∧ a < b ∧ ∀ c ∈ D, ¬ (a < c ∧ c < b)) (v : Int) (hv : v ∈ D) :
    (chainAt S v ∧ ∀ n, next v n → ¬ chainAt S n) ↔ v = m := by
  constructor
  · rintro ⟨hc, hn⟩
    have hvm : v ≤ m := (chain_iff_le_max S m hm hmax v).mp hc
    by_contra hne
    have hlt : v < m := lt_of_le_of_ne hvm hne
    -- the least element of D above v is a successor of v below or equal m
    have hne' : (D.filter fun c => v < c).Nonempty := ⟨m, by simp [hSD hm, hlt]⟩
    let n := (D.filter fun c => v < c).min' hne'
    have hnmem : n ∈ D.filter fun c => v < c := Finset.min'_mem _ _
    have hnD : n ∈ D := (Finset.mem_filter.mp hnmem).1
    have hvn : v < n := (Finset.mem_filter.mp hnmem).2
    have hnm : n ≤ m := Finset.min'_le _ m (by simp [hSD hm, hlt])
    have hnext' : next v n := by
      rw [hnext]
      refine ⟨hv, hnD, hvn, ?_⟩
      rintro c hc ⟨h1, h2⟩
      have := Finset.min'_le (D.filter fun c => v < c) c (by simp [hc, h1])
      exact absurd h2 (not_lt.mpr this)
    exact hn n hnext' ((chain_iff_le_max S m hm hmax n).mpr hnm)
  · rintro rfl
    refine ⟨⟨v, hm, le_refl _⟩, ?_⟩
    intro n hn hc
    have h1 := ((hnext v n).mp hn).2.2.1
    have h2 := (chain_iff_le_max S v hm hmax n).mp hc
    omega

/-! ## exact integer elimination (math) -/

/-- a variable with coefficient `a` can be solved away exactly when `a` divides the rest -/
theorem eliminate_iff_dvd (a t : Int) : (∃ v : Int, a * v + t = 0) ↔ a ∣ t := by
  constructor
  · rintro ⟨v, h⟩; exact ⟨-v, by linarith⟩
  · rintro ⟨c, hc⟩; exact ⟨-c, by rw [hc]; ring⟩

theorem eliminate_unit (t : Int) : (∃ v : Int, 1 * v + t = 0) ∧ (∃ v : Int, (-1) * v + t = 0) :=
  ⟨⟨-t, by ring⟩, ⟨t, by ring⟩⟩

/-- `X = Y*3` cannot be dropped: for `X = 4` there is no `Y` -/
theorem eliminate_counterexample : ¬ ∃ y : Int, (4 : Int) = y * 3 := by
  rintro ⟨y, h⟩; omega

/-! ## sum of sums (inline, math): flattening needs tuples that stay distinct -/

theorem sum_flatten {G T : Type} [DecidableEq T] (groups : Finset G) (elems : G → Finset T) (w : T → Int)
    (hdisj : ∀ g ∈ groups, ∀ g' ∈ groups, g ≠ g' → Disjoint (elems g) (elems g')) :
    ∑ t ∈ groups.biUnion elems, w t = ∑ g ∈ groups, ∑ t ∈ elems g, w t :=
  Finset.sum_biUnion (fun g hg g' hg' hne => hdisj g hg g' hg' hne)

/-- without disjointness it fails: two groups contributing the same tuple `(3)` count once instead of twice (D11) -/
theorem sum_flatten_counterexample :
    ∃ (groups : Finset Bool) (elems : Bool → Finset Int) (w : Int → Int),
      ∑ t ∈ groups.biUnion elems, w t ≠ ∑ g ∈ groups, ∑ t ∈ elems g, w t := by
  refine ⟨{true, false}, fun _ => {3}, id, ?_⟩
  decide

end Alg
