/-! spike 4: removing a positive literal implied by another body atom (cleanup), definite-reduct class -/
namespace M6
variable {α : Type}
abbrev Interp (α : Type) := α → Prop
def Sub (H T : Interp α) : Prop := ∀ a, H a → T a
def SSub (H T : Interp α) : Prop := Sub H T ∧ ∃ a, T a ∧ ¬ H a

inductive GHead (α : Type) where
  | atom (a : α) | choice (a : α) | falsum

structure GRule (α : Type) where
  head : GHead α
  body : Interp α → Interp α → Prop

def headSat : GHead α → Interp α → Interp α → Prop
  | .atom a, H, _ => H a
  | .choice a, H, T => H a ∨ ¬ T a
  | .falsum, _, _ => False

def GRule.sat (r : GRule α) (H T : Interp α) : Prop :=
  (r.body H T → headSat r.head H T) ∧ (r.body T T → headSat r.head T T)

abbrev Prog (α : Type) := GRule α → Prop
def Models (P : Prog α) (H T : Interp α) : Prop := ∀ r, P r → r.sat H T
def Stable (P : Prog α) (T : Interp α) : Prop := Models P T T ∧ ∀ H, SSub H T → ¬ Models P H T

def Mono (P : Prog α) : Prop :=
  ∀ r, P r → ∀ H₁ H₂ T, Sub H₁ H₂ → Sub H₂ T → r.body H₁ T → r.body H₂ T

def Derives (r : GRule α) (p : α) : Prop := r.head = .atom p ∨ r.head = .choice p

/-- deleting atom `p` from a model keeps it a model if no rule for `p` can fire below -/
theorem remove_atom_model [DecidableEq α] {P : Prog α} (hmono : Mono P) {H T : Interp α} (hHT : Sub H T)
    (hM : Models P H T) (p : α)
    (hblock : ∀ r, P r → Derives r p → ¬ r.body H T) :
    Models P (fun a => H a ∧ a ≠ p) T := by
  intro r hr
  have hsub : Sub (fun a => H a ∧ a ≠ p) H := fun a h => h.1
  refine ⟨?_, (hM r hr).2⟩
  intro hb
  have hb' : r.body H T := hmono r hr _ _ _ hsub hHT hb
  have hh := (hM r hr).1 hb'
  cases hhd : r.head with
  | atom a =>
    rw [hhd] at hh
    by_cases e : a = p
    · exact absurd hb' (hblock r hr (Or.inl (e ▸ hhd)))
    · exact ⟨hh, e⟩
  | choice a =>
    rw [hhd] at hh
    by_cases e : a = p
    · exact absurd hb' (hblock r hr (Or.inr (e ▸ hhd)))
    · rcases hh with h | h
      · exact Or.inl ⟨h, e⟩
      · exact Or.inr h
  | falsum => rw [hhd] at hh; exact hh

theorem supported [DecidableEq α] {P : Prog α} (hmono : Mono P) {T : Interp α} (hS : Stable P T) (p : α) (hp : T p) :
    ∃ r, P r ∧ Derives r p ∧ r.body T T := by
  apply Classical.byContradiction
  intro hno
  have hblock : ∀ r, P r → Derives r p → ¬ r.body T T := fun r hr hd hb => hno ⟨r, hr, hd, hb⟩
  exact hS.2 _ ⟨fun a h => h.1, p, hp, fun h => h.2 rfl⟩
    (remove_atom_model hmono (fun _ h => h) hS.1 p hblock)

/-- the intersection of all H-models below T -/
def least (P : Prog α) (T : Interp α) : Interp α := fun a => ∀ H, Sub H T → Models P H T → H a

theorem least_model {P : Prog α} (hmono : Mono P) {T : Interp α} (hT : Models P T T) :
    Models P (least P T) T := by
  intro r hr
  have hsubT : Sub (least P T) T := fun a h => h T (fun _ x => x) hT
  refine ⟨?_, (hT r hr).2⟩
  intro hb
  have key : ∀ H, Sub H T → Models P H T → headSat r.head H T := by
    intro H hHT hM
    exact (hM r hr).1 (hmono r hr _ _ _ (fun a h => h H hHT hM) hHT hb)
  cases hhd : r.head with
  | atom a => intro H hHT hM; have := key H hHT hM; rw [hhd] at this; exact this
  | choice a =>
    by_cases hTa : T a
    · left; intro H hHT hM
      have := key H hHT hM; rw [hhd] at this
      rcases this with h | h
      · exact h
      · exact absurd hTa h
    · right; exact hTa
  | falsum => have := key T (fun _ x => x) hT; rw [hhd] at this; exact this

/-- `r₀ = head ← p ∧ b ∧ rest`, `r₀' = head ← p ∧ rest`; every rule deriving `p` has `b` in its body -/
theorem remove_implied_pos [DecidableEq α] (P : Prog α) (hmono : Mono P) (p b : α) (rest : Interp α → Interp α → Prop)
    (hd : GHead α) (hhd : hd ≠ .atom p ∧ hd ≠ .choice p)
    (hrestmono : ∀ H₁ H₂ T, Sub H₁ H₂ → Sub H₂ T → rest H₁ T → rest H₂ T)
    (r₀ : GRule α) (hr₀ : r₀ = ⟨hd, fun H T => H p ∧ H b ∧ rest H T⟩) (hin : P r₀)
    (himp : ∀ r, P r → Derives r p → ∀ H T, r.body H T → H b)
    (T : Interp α) :
    let r₀' : GRule α := ⟨hd, fun H T => H p ∧ rest H T⟩
    let P' : Prog α := fun r => (P r ∧ r ≠ r₀) ∨ r = r₀'
    Stable P T ↔ Stable P' T := by
  intro r₀' P'
  have weaker : ∀ H, Models P' H T → Models P H T := by
    intro H hM r hr
    by_cases e : r = r₀
    · subst e
      have h' := hM r₀' (Or.inr rfl)
      rw [hr₀]
      exact ⟨fun hb => h'.1 ⟨hb.1, hb.2.2⟩, fun hb => h'.2 ⟨hb.1, hb.2.2⟩⟩
    · exact hM r (Or.inl ⟨hr, e⟩)
  constructor
  · intro hS
    refine ⟨?_, fun H hH hM => hS.2 H hH (weaker H hM)⟩
    intro r hr
    rcases hr with hr | hr
    · exact hS.1 r hr.1
    · subst hr
      have : (T p ∧ rest T T) → headSat hd T T := by
        intro hb
        obtain ⟨ρ, hρ, hder, hbody⟩ := supported hmono hS p hb.1
        have hb' : T b := himp ρ hρ hder T T hbody
        have := (hS.1 r₀ hin).2
        rw [hr₀] at this
        exact this ⟨hb.1, hb', hb.2⟩
      exact ⟨this, this⟩
  · intro hS
    have hMT : Models P T T := weaker T hS.1
    refine ⟨hMT, ?_⟩
    intro H hH hM
    -- the least model below T is a strictly smaller model of P'
    have hL := least_model hmono hMT
    have hLH : Sub (least P T) H := fun a h => h H hH.1 hM
    have hLT : Sub (least P T) T := fun a h => hH.1 a (hLH a h)
    have hss : SSub (least P T) T := by
      obtain ⟨c, hc, hnc⟩ := hH.2
      exact ⟨hLT, c, hc, fun h => hnc (hLH c h)⟩
    refine hS.2 _ hss ?_
    intro r hr
    rcases hr with hr | hr
    · exact hL r hr.1
    · subst hr
      refine ⟨?_, (hS.1 r₀' (Or.inr rfl)).2⟩
      intro hb
      have hbb : least P T b := by
        apply Classical.byContradiction
        intro hnb
        have hblock : ∀ r, P r → Derives r p → ¬ r.body (least P T) T :=
          fun r hr hder hbody => hnb (himp r hr hder _ _ hbody)
        have hM1 := remove_atom_model hmono hLT hL p hblock
        have := hb.1 (fun a => least P T a ∧ a ≠ p) (fun a h => hLT a h.1) hM1
        exact this.2 rfl
      have := (hL r₀ hin).1
      rw [hr₀] at this
      exact this ⟨hb.1, hbb, hb.2⟩
end M6
