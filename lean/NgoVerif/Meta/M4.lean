import NgoVerif.Meta.Basic
/-! spike 5: positive-recursive definitional extension (chains, next/min/max) -/
namespace HT
variable {α : Type}

structure RDef (α : Type) where
  hd : α
  pre : α → Prop                       -- positive aux premises
  cond : Interp α → Interp α → Prop     -- the rest of the body, independent of the aux atoms

structure RDefs (α : Type) where
  A : α → Prop
  rules : RDef α → Prop
  hdA : ∀ d, rules d → A d.hd
  preA : ∀ d, rules d → ∀ a, d.pre a → A a
  indep : ∀ d, rules d → Indep A d.cond

inductive Der (D : RDefs α) (T : Interp α) : α → Prop
  | step (d : RDef α) : D.rules d → d.cond T T → (∀ a, d.pre a → Der D T a) → Der D T d.hd

def RDefs.prog (D : RDefs α) : Prog α :=
  fun r => ∃ d, D.rules d ∧
    r = fun H T => ((∀ a, d.pre a → H a) ∧ d.cond H T → H d.hd) ∧ ((∀ a, d.pre a → T a) ∧ d.cond T T → T d.hd)

def rext (D : RDefs α) (T : Interp α) : Interp α :=
  fun a => (¬ D.A a ∧ T a) ∨ (D.A a ∧ Der D T a)

theorem rdef_ext_sound (P : Prog α) (D : RDefs α) (hP : ∀ r, P r → Indep D.A r)
    (T : Interp α) (hT : Stable P T) (hno : ∀ a, D.A a → ¬ T a) :
    Stable (Union P D.prog) (rext D T) := by
  classical
  have agree : AgreeOff D.A T (rext D T) := by
    intro a ha
    constructor
    · intro h; exact Or.inl ⟨ha, h⟩
    · intro h; rcases h with h | h
      · exact h.2
      · exact absurd h.1 ha
  constructor
  · intro r hr
    rcases hr with hr | hr
    · exact (hP r hr T T _ _ agree agree).mp (hT.1 r hr)
    · obtain ⟨d, hd, rfl⟩ := hr
      have : (∀ a, d.pre a → rext D T a) ∧ d.cond (rext D T) (rext D T) → rext D T d.hd := by
        intro h
        refine Or.inr ⟨D.hdA d hd, Der.step d hd ((D.indep d hd T T _ _ agree agree).mpr h.2) ?_⟩
        intro a ha
        rcases h.1 a ha with h' | h'
        · exact absurd (D.preA d hd a ha) h'.1
        · exact h'.2
      exact ⟨this, this⟩
  · intro H' hH' hM
    let H : Interp α := fun a => H' a ∧ ¬ D.A a
    have agH : AgreeOff D.A H H' := fun a ha => ⟨fun h => h.1, fun h => ⟨h, ha⟩⟩
    have hHT : Sub H T := by
      intro a ha
      rcases hH'.1 a ha.1 with h | h
      · exact h.2
      · exact absurd h.1 ha.2
    have hMH : Models P H T := fun r hr =>
      (hP r hr H T H' _ agH agree).mpr (hM r (Or.inl hr))
    have hEq : ∀ a, T a → H a := by
      intro a hTa
      apply Classical.byContradiction
      intro hna
      exact hT.2 H ⟨hHT, a, hTa, hna⟩ hMH
    have agH'T : AgreeOff D.A H' T := by
      intro a ha
      exact ⟨fun h => hHT a ⟨h, ha⟩, fun h => (hEq a h).1⟩
    -- every derivable aux atom is already in H'
    have hder : ∀ a, Der D T a → H' a := by
      intro a h
      induction h with
      | step d hd hc _ ih =>
        have hc' : d.cond H' (rext D T) :=
          (D.indep d hd H' _ T T agH'T (fun a ha => (agree a ha).symm)).mpr hc
        exact (hM _ (Or.inr ⟨d, hd, rfl⟩)).1 ⟨ih, hc'⟩
    obtain ⟨b, hb, hnb⟩ := hH'.2
    rcases hb with hb | hb
    · exact hnb (hEq b hb.2).1
    · exact hnb (hder b hb.2)
end HT
