import NgoVerif.Sexp
import NgoVerif.Syntax
import NgoVerif.Model.Symmetry
/-!
# Driver ops for `ngo/symmetry.py` and `replace_simple_assignments`

* `(symmetry <prog> (<input preds>…))` → `(ok <prog>)` | `(err "…")` | `(unsupported "…")`:
  `SymmetryTranslator(prog, inputs).execute(prog)`, statement order included.  Programs with theory atoms or pools
  are `unsupported` (as for `DomainPredicates`), and so is a body / condition with more than 8 candidate groups.
* `(simple_assign <stm>)` → `(ok <stm>)` | `(err "…")` | `(unsupported "…")`: `replace_simple_assignments(stm)`.
* `(ast_sort (<body literal>…))` → `(ok (<body literal>…))`: Python's `sorted(…)` on clingo ASTs (validation of the
  model of clingo's AST order).
* `(term_sort (<term>…))` → `(ok (<term>…))`: the same for terms.
-/
namespace NgoVerif
open Sexp

namespace Symmetry

def okS (xs : List Sexp) : Sexp := .list (.atom "ok" :: xs)
def unsupportedS (why : String) : Sexp := .list [.atom "unsupported", .str why]
def errorS (what : String) : Sexp := .list [.atom "err", .str what]

def errAnswer (e : String) : Sexp :=
  if e.startsWith "unsupported" then unsupportedS e else errorS e

end Symmetry

open Symmetry in
def handleSymmetry : Sexp → Option Sexp
  | .list [.atom "symmetry", p, .list ins] => some <|
    match Prog.ofSexp p, ins.mapM Pred.ofSexp with
    | some prg, some inputs =>
      match Dep.progOutside prg with
      | some why => unsupportedS why
      | none =>
        match execute prg inputs with
        | .ok r => okS [Prog.toSexp r]
        | .error e => errAnswer e
    | _, _ => unsupportedS "program or predicates"
  | .list [.atom "simple_assign", s] => some <|
    match Stm.ofSexp s with
    | some stm =>
      match Dep.stmOutside stm with
      | some why => unsupportedS why
      | none =>
        match replaceSimpleAssignments stm with
        | .ok r => okS [r.toSexp]
        | .error e => errAnswer e
    | none => unsupportedS "statement"
  | .list [.atom "ast_sort", .list ls] => some <|
    match ls.mapM BLit.ofSexp with
    | some lits =>
      if lits.any BLit.hasTheory then unsupportedS "theory atom"
      else okS [.list ((sortBy blitCmp lits).map BLit.toSexp)]
    | none => unsupportedS "literals"
  | .list [.atom "term_sort", .list ts] => some <|
    match ts.mapM Term.ofSexp with
    | some terms => okS [.list ((sortBy termCmp terms).map Term.toSexp)]
    | none => unsupportedS "terms"
  | _ => none

end NgoVerif
