import NgoVerif.Sexp
import NgoVerif.Syntax
import NgoVerif.Model.Duplication
/-!
# Driver ops for `ngo/literal_duplication.py`

* `(duplication <prog> (<input preds>…))` → `(ok <prog>)` | `(err "…")` | `(unsupported "…")`:
  `LiteralDuplicationTranslator(prog, inputs).execute(prog)`
* `(dup_replace_assignments <stm>)` → `(ok <stm>)` | `(err "…")` | `(unsupported "…")`: `replace_assignments(stm)`
* `(dup_anonymize (<blit>…))` → `(ok (<blit>…) (("old" "new")…))` | `(err "…")`: `anonymize_variables(literals)`
* `(dup_collect <prog> <size>)` → `(ok ((<key blits> (<ruleid> <kind 0|1|2> (<original blits>))…)…))` | `(err "…")`:
  `LiteralCollector(size, prog, {}).occurences` (after `_filter_occurences`), keys in insertion order
* `(ast_sorted (<blit>…))` → `(ok (<blit>…))`: `sorted(literals)` with clingo's AST order
* `(ast_cmp <blit> <blit>)` → `(ok lt|eq|gt)`
* `(sym_cmp <sym> <sym>)` → `(ok lt|eq|gt)`: order of `clingo.Symbol`
-/
namespace NgoVerif
open Sexp

namespace Duplication

def okS (xs : List Sexp) : Sexp := .list (.atom "ok" :: xs)
def unsupportedS (why : String) : Sexp := .list [.atom "unsupported", .str why]
def errorS (what : String) : Sexp := .list [.atom "err", .str what]
def ordS : Ordering → Sexp
  | .lt => .atom "lt" | .eq => .atom "eq" | .gt => .atom "gt"
def blitsS (l : List BLit) : Sexp := .list (l.map BLit.toSexp)

def rbS (rb : RB) : Sexp :=
  .list [ofNat rb.ruleid,
         ofNat (match rb.sub, rb.subsub with | none, _ => 0 | some _, none => 1 | some _, some _ => 2),
         blitsS rb.original]

end Duplication

open Duplication in
def handleDuplication : Sexp → Option Sexp
  | .list [.atom "duplication", p, .list ins] => some <|
    match Prog.ofSexp p, ins.mapM Pred.ofSexp with
    | some prg, some inputs =>
      match outside prg with
      | some why => unsupportedS why
      | none =>
        match execute prg inputs with
        | .ok r => okS [Prog.toSexp r]
        | .error e => if e.startsWith "unsupported" then unsupportedS e else errorS e
    | _, _ => unsupportedS "program"
  | .list [.atom "dup_replace_assignments", s] => some <|
    match Stm.ofSexp s with
    | some stm =>
      match outside [stm] with
      | some why => unsupportedS why
      | none =>
        match replaceAssignments stm with
        | .ok r => okS [r.toSexp]
        | .error e => errorS e
    | none => unsupportedS "statement"
  | .list [.atom "dup_anonymize", .list b] => some <|
    match b.mapM BLit.ofSexp with
    | some lits =>
      if lits.any BLit.hasTheory then unsupportedS "theory atom" else
      match anonymize lits with
      | .ok (r, m) => okS [blitsS r, .list (m.map fun p => .list [.str p.1, .str p.2])]
      | .error e => errorS e
    | none => unsupportedS "literals"
  | .list [.atom "dup_collect", p, n] => some <|
    match Prog.ofSexp p, n.toNat? with
    | some prg, some size =>
      match outside prg with
      | some why => unsupportedS why
      | none =>
        match (do let occ ← collectOccs size prg 0 []; filterOccs occ) with
        | .ok occ => okS [.list (occ.map fun e => .list [blitsS e.1, .list (e.2.map rbS)])]
        | .error e => errorS e
    | _, _ => unsupportedS "program or size"
  | .list [.atom "ast_sorted", .list b] => some <|
    match b.mapM BLit.ofSexp with
    | some lits => if lits.any BLit.hasTheory then unsupportedS "theory atom" else okS [blitsS (astSort lits)]
    | none => unsupportedS "literals"
  | .list [.atom "ast_cmp", a, b] => some <|
    match BLit.ofSexp a, BLit.ofSexp b with
    | some x, some y =>
      if x.hasTheory || y.hasTheory then unsupportedS "theory atom" else okS [ordS (blitCmp x y)]
    | _, _ => unsupportedS "literals"
  | .list [.atom "sym_cmp", a, b] => some <|
    match Sym.ofSexp a, Sym.ofSexp b with
    | some x, some y => okS [ordS (symCmp x y)]
    | _, _ => unsupportedS "symbols"
  | _ => none

end NgoVerif
