/-!
# S-expressions: the wire format between the Python harness and the Lean driver

One value per line.  Atoms are bare tokens (`rule`, `12`, `-3`) or quoted strings with
`\"`, `\\`, `\n` escapes.  The reader is total: malformed input yields `none`, which the driver reports as
`unsupported`, so an unreadable case can never silently compare equal.
-/
namespace NgoVerif

inductive Sexp where
  | atom (s : String)
  | str (s : String)
  | list (xs : List Sexp)
  deriving Repr, BEq, Inhabited

namespace Sexp

def escape (s : String) : String :=
  s.foldl (fun acc c =>
    if c == '"' then acc ++ "\\\"" else if c == '\\' then acc ++ "\\\\"
    else if c == '\n' then acc ++ "\\n" else acc.push c) ""

mutual
def toStr : Sexp → String
  | .atom s => s
  | .str s => "\"" ++ escape s ++ "\""
  | .list xs => "(" ++ listToStr xs ++ ")"
def listToStr : List Sexp → String
  | [] => ""
  | [x] => toStr x
  | x :: y :: xs => toStr x ++ " " ++ listToStr (y :: xs)
end

instance : ToString Sexp := ⟨toStr⟩

/-- tokens -/
inductive Tok where
  | lp | rp | atom (s : String) | str (s : String)
  deriving Repr, BEq

/-- Tokenise a character list; fuel-free structural recursion on the list. -/
def tokenize : List Char → Option (List Tok)
  | [] => some []
  | c :: cs =>
    if c == '(' then (tokenize cs).map (Tok.lp :: ·)
    else if c == ')' then (tokenize cs).map (Tok.rp :: ·)
    else if c == ' ' || c == '\t' || c == '\n' || c == '\r' then tokenize cs
    else if c == '"' then
      -- read string
      let rec rdStr : List Char → String → Option (String × List Char)
        | [], _ => none
        | '"' :: rest, acc => some (acc, rest)
        | '\\' :: 'n' :: rest, acc => rdStr rest (acc.push '\n')
        | '\\' :: x :: rest, acc => rdStr rest (acc.push x)
        | x :: rest, acc => rdStr rest (acc.push x)
      match rdStr cs "" with
      | none => none
      | some (s, rest) =>
        if _h : rest.length < (c :: cs).length then (tokenize rest).map (Tok.str s :: ·) else none
    else
      let rec rdAtom : List Char → String → (String × List Char)
        | [], acc => (acc, [])
        | x :: rest, acc =>
          if x == '(' || x == ')' || x == ' ' || x == '\t' || x == '\n' || x == '\r' || x == '"' then (acc, x :: rest)
          else rdAtom rest (acc.push x)
      let (s, rest) := rdAtom cs (String.singleton c)
      if _h : rest.length < (c :: cs).length then (tokenize rest).map (Tok.atom s :: ·) else none
termination_by l => l.length

/-- Parse tokens with an explicit stack; total. -/
def parseToks : List Tok → List (List Sexp) → Option Sexp
  | [], [[x]] => some x
  | [], _ => none
  | Tok.lp :: ts, stk => parseToks ts ([] :: stk)
  | Tok.rp :: ts, cur :: parent :: stk => parseToks ts ((Sexp.list cur.reverse :: parent) :: stk)
  | Tok.rp :: _, _ => none
  | Tok.atom s :: ts, cur :: stk => parseToks ts ((Sexp.atom s :: cur) :: stk)
  | Tok.str s :: ts, cur :: stk => parseToks ts ((Sexp.str s :: cur) :: stk)
  | _ :: _, [] => none

def parse (s : String) : Option Sexp :=
  match tokenize s.toList with
  | none => none
  | some ts => parseToks ts [[]]

def ofNat (n : Nat) : Sexp := .atom (toString n)
def ofInt (n : Int) : Sexp := .atom (toString n)
def ofBool (b : Bool) : Sexp := .atom (if b then "1" else "0")

def toInt? : Sexp → Option Int
  | .atom s => s.toInt?
  | _ => none
def toNat? : Sexp → Option Nat
  | .atom s => s.toNat?
  | _ => none
def toBool? : Sexp → Option Bool
  | .atom "1" => some true
  | .atom "0" => some false
  | _ => none
def toString? : Sexp → Option String
  | .str s => some s
  | _ => none

end Sexp
end NgoVerif
