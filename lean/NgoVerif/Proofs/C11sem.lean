import NgoVerif.Sem.Rename
import NgoVerif.Sem.Program
/-!
# `symmetry`: replacing `X != Y` by `X < Y` in a rule whose rest is symmetric in `X` and `Y` — from syntax

`h :- B, X != Y.` and `h :- B, X < Y.` have the same here-and-there models (hence the same stable models, whatever is
added to the program) when
* the body `B` is symmetric: an involution `σ` of the variables that exchanges `X` and `Y` (the plain swap, or the swap
  of several pairs at once) maps every literal of `B` to a literal of `B`, up to the orientation of an inequality
  `U != V` (decidable on the syntax; this is what "two copies of the same literals" means),
* the set of global variables of the rule is closed under `σ`,
* the head does not distinguish `e` from `e ∘ σ` (it mentions none of the exchanged variables), and
* `!=` is `<` or `>` on ground terms (clingo's order on symbols is total).
The theorem holds for every choice of the arithmetic / aggregate parameters and for every head semantics with the
stated invariance.  It is the typed-program version of `C11_neq_to_lt`; `neq_to_lt_needs_symmetry` in `Props/C11.lean`
shows the symmetry hypothesis cannot be dropped.
-/
namespace NgoVerif.Proofs.C11sem
open NgoVerif NgoVerif.Sem

variable (P : PParams)

def swap (X Y : String) : String → String := fun v => if v = X then Y else if v = Y then X else v

theorem swap_inv (X Y : String) : ∀ v, swap X Y (swap X Y v) = v := by
  intro v
  unfold swap
  by_cases h1 : v = X
  · subst h1
    by_cases h2 : Y = v <;> simp [h2]
  · by_cases h2 : v = Y
    · subst h2; simp [h1]
    · simp [h1, h2]

theorem swap_left (X Y : String) : swap X Y X = Y := by simp [swap]
theorem swap_right (X Y : String) : swap X Y Y = X := by
  unfold swap; by_cases h : Y = X <;> simp [h]

/-- the comparison literal `X op Y` -/
def cmpBLit (X : String) (op : CmpOp) (Y : String) : BLit := .lit (.pos, .cmp (.var X) [⟨op, .var Y⟩])

theorem cmpBLit_sat (G : String → Prop) (e : Env) (H T : Interp) (X Y : String) (op : CmpOp) :
    blitSat P.toParams G e H T (cmpBLit X op Y) ↔ P.rel op (e X) (e Y) := by
  simp [cmpBLit, blitSat, litSat, atomSat, chainHolds, evalTerm]

theorem bodySat_snoc (G : String → Prop) (e : Env) (H T : Interp) (b : List BLit) (l : BLit) :
    bodySat P.toParams G e H T (b ++ [l]) ↔ bodySat P.toParams G e H T b ∧ blitSat P.toParams G e H T l := by
  simp only [bodySat, List.mem_append, List.mem_singleton]
  constructor
  · intro h; exact ⟨fun x hx => h x (Or.inl hx), h l (Or.inr rfl)⟩
  · rintro ⟨h1, h2⟩ x (hx | rfl)
    · exact h1 x hx
    · exact h2

theorem globals_same (h : Head) (b : List BLit) (X Y : String) (op op' : CmpOp) :
    ruleGlobals P h (b ++ [cmpBLit X op Y]) = ruleGlobals P h (b ++ [cmpBLit X op' Y]) := by
  simp [ruleGlobals, bodyGlobals, cmpBLit, blitGlobals, litVars, litTerms, Atom.terms]

/-- the side condition, for an involution `σ` of the variables that exchanges `X` and `Y` (the plain swap, or the swap
of several pairs at once: `p(A), p(B), q(A,V1), q(B,V2), V1 != V2` is symmetric under `A↔B, V1↔V2` only) -/
structure Symmetric (σ : String → String) (X Y : String) (h : Head) (b : List BLit) : Prop where
  inv : ∀ v, σ (σ v) = v
  sx : σ X = Y
  /-- the rest of the body is symmetric: the image of every literal is again in the body, up to the orientation of
  an inequality `U != V` -/
  body : ∀ l ∈ b, renameBLit σ l ∈ b ∨ ∃ U V, renameBLit σ l = cmpBLit U .ne V ∧ cmpBLit V .ne U ∈ b
  /-- the global variables of the rule are closed under `σ` -/
  globals : ∀ v, v ∈ ruleGlobals P h (b ++ [cmpBLit X .ne Y]) ↔ σ v ∈ ruleGlobals P h (b ++ [cmpBLit X .ne Y])
  /-- the head cannot tell the two orientations apart -/
  head : ∀ (e : Env) H T, P.headSat (fun v => v ∈ ruleGlobals P h (b ++ [cmpBLit X .ne Y])) (fun v => e (σ v)) H T h ↔
    P.headSat (fun v => v ∈ ruleGlobals P h (b ++ [cmpBLit X .ne Y])) e H T h
  /-- clingo's order on ground terms is total -/
  total : ∀ x y, P.rel .ne x y ↔ (P.rel .lt x y ∨ P.rel .lt y x)

theorem Symmetric.sy {σ : String → String} {X Y : String} {h : Head} {b : List BLit} (hs : Symmetric P σ X Y h b) :
    σ Y = X := by rw [← hs.sx, hs.inv]

theorem ne_comm {σ : String → String} {X Y : String} {h : Head} {b : List BLit} (hs : Symmetric P σ X Y h b) (x y : Sym) :
    P.rel .ne x y → P.rel .ne y x := by
  intro hne
  rcases (hs.total x y).mp hne with h1 | h1
  · exact (hs.total y x).mpr (Or.inr h1)
  · exact (hs.total y x).mpr (Or.inl h1)

/-- a symmetric body holds at `e ∘ σ` when it holds at `e` -/
theorem body_swap {σ : String → String} {X Y : String} {h : Head} {b : List BLit} (hs : Symmetric P σ X Y h b) (e : Env)
    (H T : Interp)
    (hb : bodySat P.toParams (fun v => v ∈ ruleGlobals P h (b ++ [cmpBLit X .ne Y])) e H T b) :
    bodySat P.toParams (fun v => v ∈ ruleGlobals P h (b ++ [cmpBLit X .ne Y])) (fun v => e (σ v)) H T b := by
  have hG : renameG σ (fun v => v ∈ ruleGlobals P h (b ++ [cmpBLit X .ne Y])) =
      (fun v => v ∈ ruleGlobals P h (b ++ [cmpBLit X .ne Y])) := by
    funext v; exact propext (hs.globals v).symm
  intro l hl
  have key : blitSat P.toParams (fun v => v ∈ ruleGlobals P h (b ++ [cmpBLit X .ne Y])) e H T (renameBLit σ l) := by
    rcases hs.body l hl with h1 | ⟨U, V, h1, h2⟩
    · exact hb _ h1
    · rw [h1, cmpBLit_sat]
      have := hb _ h2
      rw [cmpBLit_sat] at this
      exact ne_comm P hs _ _ this
  have := (blitSat_rename P.toParams σ hs.inv _ H T l e).mp key
  rw [hG] at this
  exact this

/-- **`X != Y` ⟶ `X < Y` preserves the here-and-there models of the rule** -/
theorem neq_to_lt_stm (σ : String → String) (l c : Nat) (X Y : String) (h : Head) (b : List BLit)
    (hs : Symmetric P σ X Y h b) (H T : Interp) :
    stmSat P H T (.rule l c h (b ++ [cmpBLit X .ne Y])) ↔ stmSat P H T (.rule l c h (b ++ [cmpBLit X .lt Y])) := by
  simp only [stmSat]
  rw [← globals_same P h b X Y .ne .lt]
  have key : ∀ (H' : Interp) (e : Env),
      ((bodySat P.toParams (fun v => v ∈ ruleGlobals P h (b ++ [cmpBLit X .ne Y])) e H' T (b ++ [cmpBLit X .ne Y]) →
          P.headSat (fun v => v ∈ ruleGlobals P h (b ++ [cmpBLit X .ne Y])) e H' T h)) ↔
      ((bodySat P.toParams (fun v => v ∈ ruleGlobals P h (b ++ [cmpBLit X .ne Y])) e H' T (b ++ [cmpBLit X .lt Y]) →
          P.headSat (fun v => v ∈ ruleGlobals P h (b ++ [cmpBLit X .ne Y])) e H' T h) ∧
       (bodySat P.toParams (fun v => v ∈ ruleGlobals P h (b ++ [cmpBLit X .ne Y])) (fun v => e (σ v)) H' T
          (b ++ [cmpBLit X .lt Y]) →
          P.headSat (fun v => v ∈ ruleGlobals P h (b ++ [cmpBLit X .ne Y])) (fun v => e (σ v)) H' T h)) := by
    intro H' e
    simp only [bodySat_snoc, cmpBLit_sat, hs.sx, hs.sy]
    constructor
    · intro hne
      refine ⟨fun ⟨hb, hlt⟩ => hne ⟨hb, (hs.total _ _).mpr (Or.inl hlt)⟩, fun ⟨hb, hlt⟩ => ?_⟩
      have hb' := body_swap P hs (fun v => e (σ v)) H' T hb
      simp only [hs.inv] at hb'
      exact (hs.head e H' T).mpr (hne ⟨hb', (hs.total _ _).mpr (Or.inr hlt)⟩)
    · rintro ⟨h1, h2⟩ ⟨hb, hne⟩
      rcases (hs.total _ _).mp hne with hlt | hgt
      · exact h1 ⟨hb, hlt⟩
      · exact (hs.head e H' T).mp (h2 ⟨body_swap P hs e H' T hb, hgt⟩)
  constructor
  · intro hall e
    exact ⟨((key H e).mp (hall e).1).1, ((key T e).mp (hall e).2).1⟩
  · intro hall e
    refine ⟨(key H e).mpr ⟨(hall e).1, (hall _).1⟩, (key T e).mpr ⟨(hall e).2, (hall _).2⟩⟩

/-- … hence the programs are strongly equivalent -/
theorem neq_to_lt_strongEq (σ : String → String) (pre post : Prog) (l c : Nat) (X Y : String) (h : Head) (b : List BLit)
    (hs : Symmetric P σ X Y h b) :
    StrongEq P (pre ++ .rule l c h (b ++ [cmpBLit X .ne Y]) :: post) (pre ++ .rule l c h (b ++ [cmpBLit X .lt Y]) :: post) := by
  intro H T
  simp only [Models, List.mem_append, List.mem_cons]
  constructor
  · intro hm s hs'
    rcases hs' with hs' | rfl | hs'
    · exact hm s (Or.inl hs')
    · exact (neq_to_lt_stm P σ l c X Y h b hs H T).mp (hm _ (Or.inr (Or.inl rfl)))
    · exact hm s (Or.inr (Or.inr hs'))
  · intro hm s hs'
    rcases hs' with hs' | rfl | hs'
    · exact hm s (Or.inl hs')
    · exact (neq_to_lt_stm P σ l c X Y h b hs H T).mpr (hm _ (Or.inr (Or.inl rfl)))
    · exact hm s (Or.inr (Or.inr hs'))

end NgoVerif.Proofs.C11sem
