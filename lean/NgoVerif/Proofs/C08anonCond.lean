import NgoVerif.Proofs.C08anon
/-!
# `cleanup`: deleting a weaker copy of a literal inside a condition — a strong equivalence for every program

The condition of a conditional literal in a body (`l : …, p(s̄), p(t̄), …`) or of an element of a body aggregate
(`t̄ : …, p(s̄), p(t̄), …`) loses `p(t̄)`, where `t̄` is `s̄` with some arguments replaced by distinct variables that occur
nowhere else in the rule (the anonymous variables, renamed apart).  The local environment of the condition can give those
variables the values `p(s̄)` has, so the conditional literal holds, and the element contributes the same tuples, before and
after.  Hence the rule has the same here-and-there models, in any program, for every head semantics of `Sem/Head.lean`.
-/
namespace NgoVerif.Proofs.C08anonCond
open NgoVerif NgoVerif.Sem NgoVerif.Proofs.C08anon

variable (P : Params)

theorem litsSat_iff_forall (G : String → Prop) (e : Env) (H T : Interp) :
    ∀ c : List Lit, litsSat P G e H T c ↔ ∀ l ∈ c, litSat P G e H T l
  | [] => by simp [litsSat]
  | l :: ls => by
    simp only [litsSat, litsSat_iff_forall G e H T ls, List.mem_cons, forall_eq_or_imp]

/-- the data of one deletion inside a condition -/
structure CondAnon where
  cond : List Lit           -- the condition after the deletion
  pn : String
  sargs : List Term
  targs : List Term
  F : List String

namespace CondAnon
def pLit (A : CondAnon) : Lit := (.pos, .sym (.fn A.pn A.sargs false))
def qLit (A : CondAnon) : Lit := (.pos, .sym (.fn A.pn A.targs false))
end CondAnon

/-- `keep`: what else is evaluated under the local environment (the conditional literal's head literal, the element's
tuple terms): the fresh variables do not occur there either -/
structure OkC (A : CondAnon) (G : String → Prop) (keep : List String) : Prop where
  pmem : A.pLit ∈ A.cond
  len : A.targs.length = A.sargs.length
  fresh : ∀ v ∈ A.F, v ∉ (litsTerms A.cond).flatMap Term.vars ∧ v ∉ keep ∧ ¬ G v
  pos : ∀ p ∈ A.targs.zip A.sargs, p.1 = p.2 ∨ isFresh A.F p.1 = true
  nodup : (A.targs.filter (isFresh A.F)).Nodup

theorem lit_vars_sub (c : List Lit) (l : Lit) (hl : l ∈ c) : ∀ v ∈ litVars l, v ∈ (litsTerms c).flatMap Term.vars := by
  induction c with
  | nil => cases hl
  | cons x xs ih =>
    intro v hv
    simp only [litsTerms, List.flatMap_append, List.mem_append]
    rcases List.mem_cons.mp hl with rfl | hl
    · exact Or.inl (by simpa [litVars] using hv)
    · exact Or.inr (ih hl v hv)

/-- from a local environment for the shortened condition to one for the full condition that agrees with it outside `F` -/
theorem extend_env (A : CondAnon) (G : String → Prop) (keep : List String) (hok : OkC A G keep) (e' : Env) (X T : Interp)
    (hc : litsSat P G e' X T A.cond) :
    ∃ e'' : Env, (∀ v, v ∉ A.F → e'' v = e' v) ∧ litSat P G e'' X T A.qLit := by
  obtain ⟨hp, hlen, hfresh, hpos, hnd⟩ := hok
  have hpl := (litsSat_iff_forall P G e' X T A.cond).mp hc _ hp
  simp only [CondAnon.pLit, litSat, atomSat, groundAtom, Option.map_eq_some_iff] at hpl
  obtain ⟨a, ⟨vals, hv, rfl⟩, hX⟩ := hpl
  have hFs : ∀ v ∈ A.F, v ∉ A.sargs.flatMap Term.vars := by
    intro v hvF hmem
    apply (hfresh v hvF).1
    exact lit_vars_sub A.cond A.pLit hp v (by simpa [CondAnon.pLit, litVars, litTerms, Atom.terms, Term.vars] using hmem)
  obtain ⟨e'', hag, hev⟩ := exists_env P A.F e' A.targs A.sargs vals hlen hv hpos hnd hFs
  refine ⟨e'', hag, ?_⟩
  simp only [CondAnon.qLit, litSat, atomSat, groundAtom, Option.map_eq_some_iff]
  exact ⟨_, ⟨vals, hev, rfl⟩, hX⟩

theorem cond_transfer (A : CondAnon) (G : String → Prop) (keep : List String) (hok : OkC A G keep) (e' e'' : Env)
    (hag : ∀ v, v ∉ A.F → e'' v = e' v) (X T : Interp) : litsSat P G e'' X T A.cond ↔ litsSat P G e' X T A.cond :=
  litsSat_congr P G X T A.cond e'' e' (fun v hv => hag v (fun hvF => (hok.fresh v hvF).1 hv))

theorem agree_transfer (A : CondAnon) (G : String → Prop) (keep : List String) (hok : OkC A G keep) (e e' e'' : Env)
    (hag : ∀ v, v ∉ A.F → e'' v = e' v) (h : Agree G e e') : Agree G e e'' := by
  intro v hG
  rw [hag v (fun hvF => (hok.fresh v hvF).2.2 hG)]
  exact h v hG

/-! ## a conditional literal in a body -/

/-- `l : c̄` with the weaker copy anywhere in `c̄` (`cfull` has the literals of `q :: cond`) -/
theorem condLit_iff (A : CondAnon) (G : String → Prop) (hd : Lit) (hok : OkC A G (litVars hd)) (cfull : List Lit)
    (hmem : ∀ x, x ∈ cfull ↔ x ∈ A.qLit :: A.cond) (e : Env) (H T : Interp) :
    condLitSat P G e H T (hd, cfull) ↔ condLitSat P G e H T (hd, A.cond) := by
  have full_iff : ∀ e' X, litsSat P G e' X T cfull ↔ litSat P G e' X T A.qLit ∧ litsSat P G e' X T A.cond := by
    intro e' X
    rw [litsSat_iff_forall, litsSat_iff_forall]
    constructor
    · intro h
      exact ⟨h _ ((hmem _).mpr (List.mem_cons_self)), fun l hl => h l ((hmem l).mpr (List.mem_cons_of_mem _ hl))⟩
    · rintro ⟨hq, hc⟩ l hl
      rcases List.mem_cons.mp ((hmem l).mp hl) with rfl | hl'
      · exact hq
      · exact hc l hl'
  simp only [condLitSat_iff]
  have half : ∀ (X : Interp) (e' : Env), Agree G e e' →
      ((∀ e'', Agree G e e'' → litsSat P G e'' X T cfull → litSat P G e'' X T hd) →
        litsSat P G e' X T A.cond → litSat P G e' X T hd) := by
    intro X e' hagr hall hc
    obtain ⟨e'', hag, hq⟩ := extend_env P A G (litVars hd) hok e' X T hc
    have h1 := hall e'' (agree_transfer A G (litVars hd) hok e e' e'' hag hagr)
      ((full_iff e'' X).mpr ⟨hq, (cond_transfer P A G (litVars hd) hok e' e'' hag X T).mpr hc⟩)
    exact (litSat_congr P G X T hd e'' e' (fun v hv => hag v (fun hvF => (hok.fresh v hvF).2.1 hv))).mp h1
  constructor
  · intro h e' hagr
    exact ⟨half H e' hagr (fun e'' ha => (h e'' ha).1), half T e' hagr (fun e'' ha => (h e'' ha).2)⟩
  · intro h e' hagr
    exact ⟨fun hc => (h e' hagr).1 ((full_iff e' H).mp hc).2, fun hc => (h e' hagr).2 ((full_iff e' T).mp hc).2⟩

/-! ## an element of a body aggregate -/

theorem elem_iff (A : CondAnon) (G : String → Prop) (ts : List Term) (hok : OkC A G (ts.flatMap Term.vars)) (cfull : List Lit)
    (hmem : ∀ x, x ∈ cfull ↔ x ∈ A.qLit :: A.cond) (e : Env) (X T : Interp) (tup : List Sym) :
    (∃ e', Agree G e e' ∧ evalTerms P e' ts = some tup ∧ litsSat P G e' X T cfull) ↔
      (∃ e', Agree G e e' ∧ evalTerms P e' ts = some tup ∧ litsSat P G e' X T A.cond) := by
  have full_iff : ∀ e', litsSat P G e' X T cfull ↔ litSat P G e' X T A.qLit ∧ litsSat P G e' X T A.cond := by
    intro e'
    rw [litsSat_iff_forall, litsSat_iff_forall]
    constructor
    · intro h
      exact ⟨h _ ((hmem _).mpr (List.mem_cons_self)), fun l hl => h l ((hmem l).mpr (List.mem_cons_of_mem _ hl))⟩
    · rintro ⟨hq, hc⟩ l hl
      rcases List.mem_cons.mp ((hmem l).mp hl) with rfl | hl'
      · exact hq
      · exact hc l hl'
  constructor
  · rintro ⟨e', ha, ht, hc⟩
    exact ⟨e', ha, ht, ((full_iff e').mp hc).2⟩
  · rintro ⟨e', ha, ht, hc⟩
    obtain ⟨e'', hag, hq⟩ := extend_env P A G (ts.flatMap Term.vars) hok e' X T hc
    refine ⟨e'', agree_transfer A G _ hok e e' e'' hag ha, ?_, (full_iff e'').mpr ⟨hq, (cond_transfer P A G _ hok e' e'' hag X T).mpr hc⟩⟩
    rw [evalTerms_congr P e'' e' ts (fun v hv => hag v (fun hvF => (hok.fresh v hvF).2.1 hv))]
    exact ht

theorem bTuples_iff (A : CondAnon) (G : String → Prop) (ts : List Term) (hok : OkC A G (ts.flatMap Term.vars)) (cfull : List Lit)
    (hmem : ∀ x, x ∈ cfull ↔ x ∈ A.qLit :: A.cond) (e : Env) (X T : Interp) :
    ∀ (epre epost : List BAggElem) (tup : List Sym),
      bTuples P G e X T (epre ++ (ts, cfull) :: epost) tup ↔ bTuples P G e X T (epre ++ (ts, A.cond) :: epost) tup
  | [], epost, tup => by
    simp only [List.nil_append, bTuples]
    rw [elem_iff P A G ts hok cfull hmem e X T tup]
  | x :: epre, epost, tup => by
    obtain ⟨xt, xc⟩ := x
    simp only [List.cons_append, bTuples]
    rw [bTuples_iff A G ts hok cfull hmem e X T epre epost tup]

/-- the aggregate literal holds before the deletion iff it holds after it -/
theorem baggLit_iff (A : CondAnon) (G : String → Prop) (ts : List Term) (hok : OkC A G (ts.flatMap Term.vars)) (cfull : List Lit)
    (hmem : ∀ x, x ∈ cfull ↔ x ∈ A.qLit :: A.cond) (s : Sign) (l c : Nat) (lg rg : Option Guard) (f : AggFun)
    (epre epost : List BAggElem) (e : Env) (H T : Interp) :
    litSat P G e H T (s, .bagg l c lg f (epre ++ (ts, cfull) :: epost) rg) ↔
      litSat P G e H T (s, .bagg l c lg f (epre ++ (ts, A.cond) :: epost) rg) := by
  simp only [litSat, atomSat]
  have hH : bTuples P G e H H (epre ++ (ts, cfull) :: epost) = bTuples P G e H H (epre ++ (ts, A.cond) :: epost) := by
    funext tup; exact propext (bTuples_iff P A G ts hok cfull hmem e H H epre epost tup)
  have hT : bTuples P G e T T (epre ++ (ts, cfull) :: epost) = bTuples P G e T T (epre ++ (ts, A.cond) :: epost) := by
    funext tup; exact propext (bTuples_iff P A G ts hok cfull hmem e T T epre epost tup)
  rw [hH, hT]

/-! ## the rule -/

/-- replacing ONE body literal by a literal that is satisfied by the same `(e, H, T)` - under the rule's set of global
variables, which both literals leave unchanged - keeps the rule's here-and-there models -/
theorem rule_replace_blit (l c : Nat) (h : Head) (pre post : List BLit) (b b' : BLit)
    (hglob : blitGlobals b = blitGlobals b')
    (hiff : ∀ (e : Env) (X T : Interp),
      blitSat P (fun v => v ∈ ruleGlobals (stdParams P) h (pre ++ b' :: post)) e X T b ↔
        blitSat P (fun v => v ∈ ruleGlobals (stdParams P) h (pre ++ b' :: post)) e X T b')
    (H T : Interp) :
    stmSat (stdParams P) H T (.rule l c h (pre ++ b :: post)) ↔ stmSat (stdParams P) H T (.rule l c h (pre ++ b' :: post)) := by
  have hG : ruleGlobals (stdParams P) h (pre ++ b :: post) = ruleGlobals (stdParams P) h (pre ++ b' :: post) := by
    show stdHeadGlobals h ++ bodyGlobals (pre ++ b :: post) = stdHeadGlobals h ++ bodyGlobals (pre ++ b' :: post)
    simp only [bodyGlobals, List.flatMap_append, List.flatMap_cons, hglob]
  have hbody : ∀ (e : Env) (X : Interp),
      bodySat P (fun v => v ∈ ruleGlobals (stdParams P) h (pre ++ b' :: post)) e X T (pre ++ b :: post) ↔
        bodySat P (fun v => v ∈ ruleGlobals (stdParams P) h (pre ++ b' :: post)) e X T (pre ++ b' :: post) := by
    intro e X
    simp only [bodySat, List.mem_append, List.mem_cons]
    constructor
    · intro hs x hx
      rcases hx with hx | rfl | hx
      · exact hs x (Or.inl hx)
      · exact (hiff e X T).mp (hs b (Or.inr (Or.inl rfl)))
      · exact hs x (Or.inr (Or.inr hx))
    · intro hs x hx
      rcases hx with hx | rfl | hx
      · exact hs x (Or.inl hx)
      · exact (hiff e X T).mpr (hs b' (Or.inr (Or.inl rfl)))
      · exact hs x (Or.inr (Or.inr hx))
  simp only [stmSat, stdParams_headSat, stdParams_toParams, hG]
  constructor
  · intro hs e
    exact ⟨fun hb => (hs e).1 ((hbody e H).mpr hb), fun hb => (hs e).2 ((hbody e T).mpr hb)⟩
  · intro hs e
    exact ⟨fun hb => (hs e).1 ((hbody e H).mp hb), fun hb => (hs e).2 ((hbody e T).mp hb)⟩

/-! ## the executable check -/

/-- `vars` are the variables of the whole rule outside of the shortened condition (head, other body literals, the other
parts of the literal that carries the condition): the fresh variables occur in none of them, hence are not global -/
def condCheck (A : CondAnon) (outside : List String) : Bool :=
  A.cond.any (fun l => litEqb l A.pLit) && A.targs.length == A.sargs.length &&
  A.F.all (fun v => !((litsTerms A.cond).flatMap Term.vars).contains v && !outside.contains v) &&
  (A.targs.zip A.sargs).all (fun p => termEqb p.1 p.2 || isFresh A.F p.1) && decide (freshNames A.F A.targs).Nodup

theorem condCheck_sound (A : CondAnon) (outside : List String) (G : String → Prop) (keep : List String)
    (hG : ∀ v, G v → v ∈ outside) (hkeep : ∀ v ∈ keep, v ∈ outside) (h : condCheck A outside = true) : OkC A G keep := by
  simp only [condCheck, Bool.and_eq_true, beq_iff_eq] at h
  obtain ⟨⟨⟨⟨h1, h2⟩, h3⟩, h4⟩, h5⟩ := h
  refine ⟨?_, h2, ?_, ?_, nodup_fresh _ _ (by simpa using h5)⟩
  · obtain ⟨l, hl, heq⟩ := List.any_eq_true.mp h1
    have := litEqb_eq _ _ heq
    subst this
    exact hl
  · intro v hv
    have := (List.all_eq_true.mp h3) v hv
    simp only [Bool.and_eq_true, Bool.not_eq_true'] at this
    have n1 : v ∉ (litsTerms A.cond).flatMap Term.vars := by
      intro hm
      have h' := List.contains_iff_mem.mpr hm
      rw [this.1] at h'
      cases h'
    have n2 : v ∉ outside := by
      intro hm
      have h' := List.contains_iff_mem.mpr hm
      rw [this.2] at h'
      cases h'
    exact ⟨n1, fun hk => n2 (hkeep v hk), fun hg => n2 (hG v hg)⟩
  · intro p hp
    have := (List.all_eq_true.mp h4) p hp
    simp only [Bool.or_eq_true] at this
    rcases this with h | h
    · exact Or.inl (termEqb_eq _ _ h)
    · exact Or.inr h

end NgoVerif.Proofs.C08anonCond
