import NgoVerif.Spec.C18
/-! helper lemmas for C18 -/
namespace NgoVerif.Proofs.C18
open NgoVerif NgoVerif.Spec

/-- what a collector entry means in terms of the generic fold -/
def Hit (signs : List Sign) (atoms : List (Sign × Term)) (sp : SPred) : Prop :=
  ∃ x ∈ atoms, x.1 = sp.sign ∧ sp.sign ∈ signs ∧ symPred? x.2 = some sp.pred

theorem Hit.nil {signs sp} : ¬ Hit signs [] sp := by simp [Hit]

theorem Hit.append {signs a b sp} : Hit signs (a ++ b) sp ↔ Hit signs a sp ∨ Hit signs b sp := by
  simp only [Hit, List.mem_append]
  constructor
  · rintro ⟨x, hx | hx, h⟩
    · exact Or.inl ⟨x, hx, h⟩
    · exact Or.inr ⟨x, hx, h⟩
  · rintro (⟨x, hx, h⟩ | ⟨x, hx, h⟩)
    · exact ⟨x, Or.inl hx, h⟩
    · exact ⟨x, Or.inr hx, h⟩

theorem hit_sym (signs : List Sign) (sp : SPred) (s : Sign) (t : Term) :
    sp ∈ (if signs.contains s then (match symPred? t with | some p => [(⟨s, p⟩ : SPred)] | none => []) else [])
      ↔ Hit signs [(s, t)] sp := by
  obtain ⟨ss, pp⟩ := sp
  simp only [Hit, List.mem_singleton, exists_eq_left]
  by_cases hs : signs.contains s = true
  · have hs' : s ∈ signs := by simpa using hs
    cases hp : symPred? t with
    | none => simp [hs]
    | some p =>
      simp only [hs, if_true, List.mem_singleton, SPred.mk.injEq, Option.some.injEq]
      constructor
      · rintro ⟨rfl, rfl⟩; exact ⟨rfl, hs', rfl⟩
      · rintro ⟨h1, _, h3⟩; exact ⟨h1.symm, h3.symm⟩
  · have hs' : s ∉ signs := by simpa using hs
    simp only [hs, Bool.false_eq_true, if_false, List.not_mem_nil, false_iff]
    rintro ⟨h1, h2, _⟩
    exact hs' (h1 ▸ h2)

mutual
theorem mem_litPreds (signs : List Sign) (sp : SPred) :
    ∀ l : Sign × Atom, sp ∈ litPreds signs l ↔ Hit signs (litAtoms l) sp
  | (s, .sym t) => by
    simp only [litPreds, litAtoms, atomAtoms, atomAggPreds, List.append_nil]
    exact hit_sym signs sp s t
  | (s, .cmp t gs) => by simp [litPreds, litAtoms, atomAggPreds, atomAtoms, Hit]
  | (s, .bool b) => by simp [litPreds, litAtoms, atomAggPreds, atomAtoms, Hit]
  | (s, .theory t) => by simp [litPreds, litAtoms, atomAggPreds, atomAtoms, Hit]
  | (s, .bagg l c lg f elems rg) => by
    simp only [litPreds, litAtoms, atomAggPreds, atomAtoms, List.nil_append]
    exact mem_bElemsPreds signs sp elems
  | (s, .agg lg elems rg) => by
    simp only [litPreds, litAtoms, atomAggPreds, atomAtoms, List.nil_append]
    exact mem_cElemsPreds signs sp elems
theorem mem_litsPreds (signs : List Sign) (sp : SPred) :
    ∀ ls : List (Sign × Atom), sp ∈ litsPreds signs ls ↔ Hit signs (litsAtoms ls) sp
  | [] => by simp [litsPreds, litsAtoms, Hit]
  | l :: ls => by
    rw [litsPreds, litsAtoms, List.mem_append, Hit.append, mem_litPreds signs sp l, mem_litsPreds signs sp ls]
theorem mem_bElemsPreds (signs : List Sign) (sp : SPred) :
    ∀ es : List (List Term × List (Sign × Atom)), sp ∈ bElemsPreds signs es ↔ Hit signs (bElemsAtoms es) sp
  | [] => by simp [bElemsPreds, bElemsAtoms, Hit]
  | (_, c) :: es => by
    rw [bElemsPreds, bElemsAtoms, List.mem_append, Hit.append, mem_litsPreds signs sp c, mem_bElemsPreds signs sp es]
theorem mem_cElemsPreds (signs : List Sign) (sp : SPred) :
    ∀ es : List ((Sign × Atom) × List (Sign × Atom)), sp ∈ cElemsPreds signs es ↔ Hit signs (cElemsAtoms es) sp
  | [] => by simp [cElemsPreds, cElemsAtoms, Hit]
  | (l, c) :: es => by
    rw [cElemsPreds, cElemsAtoms]
    simp only [List.mem_append, Hit.append]
    rw [mem_litPreds signs sp l, mem_litsPreds signs sp c, mem_cElemsPreds signs sp es]
    constructor
    · rintro (((h | h) | h) | h)
      · exact Or.inl (Or.inl h)
      · exact Or.inl (Or.inr h)
      · exact Or.inl (Or.inr h)
      · exact Or.inr h
    · rintro ((h | h) | h)
      · exact Or.inl (Or.inl (Or.inl h))
      · exact Or.inl (Or.inl (Or.inr h))
      · exact Or.inr h
end


theorem mem_condLitPreds (signs : List Sign) (sp : SPred) (c : CondLit) :
    sp ∈ condLitPreds signs c ↔ Hit signs (condLitAtoms c) sp := by
  simp only [condLitPreds, condLitAtoms, List.mem_append, Hit.append, mem_litPreds, mem_litsPreds]

theorem mem_blitPreds (signs : List Sign) (sp : SPred) (b : BLit) :
    sp ∈ b.preds signs ↔ Hit signs (blitAtoms b) sp := by
  cases b with
  | lit l => simp only [BLit.preds, blitAtoms, mem_litPreds]
  | clit c => simp only [BLit.preds, blitAtoms, mem_condLitPreds]

theorem hit_flatMap {α} (signs : List Sign) (sp : SPred) (f : α → List (Sign × Term)) (l : List α) :
    Hit signs (l.flatMap f) sp ↔ ∃ a ∈ l, Hit signs (f a) sp := by
  simp only [Hit, List.mem_flatMap]
  constructor
  · rintro ⟨x, ⟨a, ha, hx⟩, h⟩; exact ⟨a, ha, x, hx, h⟩
  · rintro ⟨a, ha, x, hx, h⟩; exact ⟨x, ⟨a, ha, hx⟩, h⟩

theorem mem_bodyPreds (signs : List Sign) (sp : SPred) (b : List BLit) :
    sp ∈ bodyPreds signs b ↔ Hit signs (bodyAtoms b) sp := by
  simp only [bodyPreds, bodyAtoms, List.mem_flatMap, hit_flatMap, mem_blitPreds]

theorem mem_headPreds (signs : List Sign) (sp : SPred) (h : Head) :
    sp ∈ h.preds signs ↔ Hit signs (headAtoms h) sp := by
  cases h with
  | lit l => simp only [Head.preds, headAtoms, mem_litPreds]
  | disj es => simp only [Head.preds, headAtoms, List.mem_flatMap, hit_flatMap, mem_condLitPreds]
  | agg lg es rg =>
    simp only [Head.preds, headAtoms, List.mem_flatMap, hit_flatMap, List.mem_append, mem_condLitPreds,
      mem_litsPreds]
    constructor
    · rintro ⟨e, he, h | h⟩
      · exact ⟨e, he, h⟩
      · exact ⟨e, he, by rw [condLitAtoms, Hit.append]; exact Or.inr h⟩
    · rintro ⟨e, he, h⟩; exact ⟨e, he, Or.inl h⟩
  | hagg lg f es rg => simp only [Head.preds, headAtoms, List.mem_flatMap, hit_flatMap, mem_condLitPreds]
  | theory t => simp [Head.preds, headAtoms, Hit]


theorem mem_headDerivable (sp : SPred) (l c : Nat) (h : Head) (b : List BLit) :
    sp ∈ (Stm.rule l c h b).headDerivable ↔ Hit [.pos] (headDerivedAtoms h) sp := by
  cases h with
  | lit l => simp only [Stm.headDerivable, headDerivedAtoms, mem_litPreds]
  | disj es => simp only [Stm.headDerivable, headDerivedAtoms, List.mem_flatMap, hit_flatMap, mem_litPreds]
  | agg lg es rg => simp only [Stm.headDerivable, headDerivedAtoms, List.mem_flatMap, hit_flatMap, mem_litPreds]
  | hagg lg f es rg => simp only [Stm.headDerivable, headDerivedAtoms, List.mem_flatMap, hit_flatMap, mem_litPreds]
  | theory t => simp [Stm.headDerivable, headDerivedAtoms, Hit]

/-! ### sorted duplicate-free lists -/

theorem mem_insertOrd (x p : Pred) : ∀ l : List Pred, x ∈ insertOrd p l ↔ x = p ∨ x ∈ l
  | [] => by simp [insertOrd]
  | q :: qs => by
    unfold insertOrd
    by_cases h2 : Pred.le p q = true
    · simp [h2]
    · simp only [h2, Bool.false_eq_true, if_false, List.mem_cons, mem_insertOrd x p qs]
      constructor
      · rintro (h | h | h)
        · exact Or.inr (Or.inl h)
        · exact Or.inl h
        · exact Or.inr (Or.inr h)
      · rintro (h | h | h)
        · exact Or.inr (Or.inl h)
        · exact Or.inl h
        · exact Or.inr (Or.inr h)

theorem mem_insertSorted (x p : Pred) (l : List Pred) : x ∈ insertSorted p l ↔ x = p ∨ x ∈ l := by
  unfold insertSorted
  by_cases h : l.contains p = true
  · have hp : p ∈ l := by simpa using h
    simp only [h, if_true]
    constructor
    · exact Or.inr
    · rintro (rfl | h') <;> assumption
  · simp only [h, Bool.false_eq_true, if_false, mem_insertOrd]

theorem mem_sortDedup (x : Pred) : ∀ l : List Pred, x ∈ sortDedup l ↔ x ∈ l
  | [] => by simp [sortDedup]
  | p :: ps => by
    have ih := mem_sortDedup x ps
    simp only [sortDedup, List.foldr_cons] at ih ⊢
    rw [mem_insertSorted, ih]; simp

theorem nodup_insertOrd (p : Pred) : ∀ l : List Pred, p ∉ l → l.Nodup → (insertOrd p l).Nodup
  | [], _, _ => by simp [insertOrd]
  | q :: qs, hp, h => by
    unfold insertOrd
    by_cases h2 : Pred.le p q = true
    · simp only [h2, if_true]
      exact List.nodup_cons.mpr ⟨hp, h⟩
    · simp only [h2, Bool.false_eq_true, if_false]
      have hq := List.nodup_cons.mp h
      refine List.nodup_cons.mpr ⟨?_, nodup_insertOrd p qs (fun hm => hp (List.mem_cons_of_mem _ hm)) hq.2⟩
      rw [mem_insertOrd]
      rintro (rfl | hm)
      · exact hp (List.mem_cons_self)
      · exact hq.1 hm

theorem nodup_sortDedup : ∀ l : List Pred, (sortDedup l).Nodup
  | [] => by simp [sortDedup]
  | p :: ps => by
    have ih := nodup_sortDedup ps
    simp only [sortDedup, List.foldr_cons] at ih ⊢
    unfold insertSorted
    split
    · exact ih
    · rename_i h
      exact nodup_insertOrd p _ (by simpa using h) ih


/-! ### from the collectors to the specification -/

theorem sigs_of_symPred {t : Term} {p : Pred} (h : symPred? t = some p) : p ∈ sigs t := by
  cases t <;> simp_all [symPred?, sigs]

theorem symPred_of_sigs {t : Term} {p : Pred} (hf : t.isFn = true) (h : p ∈ sigs t) : symPred? t = some p := by
  cases t <;> simp_all [symPred?, sigs, Term.isFn]

theorem mem_allPreds_of_hit {s : Stm} {p : Pred} : p ∈ s.allPreds ↔ ∃ sp ∈ s.preds allSigns, sp.pred = p := by
  simp [Stm.allPreds]

theorem sign_mem_allSigns (s : Sign) : s ∈ allSigns := by cases s <;> simp [allSigns]

/-- statement-level collector = generic fold -/
theorem mem_stmPreds (sp : SPred) (s : Stm) :
    sp ∈ s.preds allSigns ↔
      match s with
      | .rule _ _ h b => Hit allSigns (headAtoms h ++ bodyAtoms b) sp
      | .minimize _ _ _ _ _ b => Hit allSigns (bodyAtoms b) sp
      | _ => False := by
  cases s <;> simp [Stm.preds, Hit.append, mem_headPreds, mem_bodyPreds]

theorem occurs_allPreds {s : Stm} {p : Pred} (hpl : PlainAtoms s) (h : Occurs s p) : p ∈ s.allPreds := by
  rw [mem_allPreds_of_hit]
  cases s with
  | rule l c hd b =>
    obtain ⟨x, hx, hp⟩ := h
    refine ⟨⟨x.1, p⟩, ?_, rfl⟩
    rw [mem_stmPreds]
    exact ⟨x, hx, rfl, sign_mem_allSigns _, symPred_of_sigs (hpl x hx) hp⟩
  | minimize l c w pr ts b =>
    obtain ⟨x, hx, hp⟩ := h
    refine ⟨⟨x.1, p⟩, ?_, rfl⟩
    rw [mem_stmPreds]
    exact ⟨x, hx, rfl, sign_mem_allSigns _, symPred_of_sigs (hpl x hx) hp⟩
  | _ => exact absurd h (by simp [Occurs])

theorem derivable_posHead {s : Stm} {p : Pred} (h : p ∈ s.derivablePreds) : PosHead s p := by
  simp only [Stm.derivablePreds, List.mem_map] at h
  obtain ⟨sp, hsp, rfl⟩ := h
  cases s with
  | rule l c hd b =>
    rw [mem_headDerivable] at hsp
    obtain ⟨x, hx, h1, h2, h3⟩ := hsp
    refine ⟨x, hx, ?_, sigs_of_symPred h3⟩
    rw [h1]; simpa using h2
  | _ => simp [Stm.headDerivable] at hsp

theorem posHead_derivable {s : Stm} {p : Pred} (hpl : PlainAtoms s) (h : PosHead s p) : p ∈ s.derivablePreds := by
  simp only [Stm.derivablePreds, List.mem_map]
  cases s with
  | rule l c hd b =>
    obtain ⟨x, hx, h1, hp⟩ := h
    refine ⟨⟨.pos, p⟩, ?_, rfl⟩
    rw [mem_headDerivable]
    have hx' : x ∈ headAtoms hd ++ bodyAtoms b := by
      apply List.mem_append_left
      cases hd with
      | lit l => exact hx
      | disj es =>
        simp only [headDerivedAtoms, headAtoms, List.mem_flatMap] at hx ⊢
        obtain ⟨e, he, hx⟩ := hx
        exact ⟨e, he, by simp [condLitAtoms, hx]⟩
      | agg lg es rg =>
        simp only [headDerivedAtoms, headAtoms, List.mem_flatMap] at hx ⊢
        obtain ⟨e, he, hx⟩ := hx
        exact ⟨e, he, by simp [condLitAtoms, hx]⟩
      | hagg lg f es rg =>
        simp only [headDerivedAtoms, headAtoms, List.mem_flatMap] at hx ⊢
        obtain ⟨e, he, hx⟩ := hx
        exact ⟨e, he, by simp [condLitAtoms, hx]⟩
      | theory t => simp [headDerivedAtoms] at hx
    exact ⟨x, hx, h1, by simp, symPred_of_sigs (hpl x hx') hp⟩
  | _ => exact absurd h (by simp [PosHead])

theorem usedInBody_bodyOccurs {s : Stm} {p : Pred} (h : p ∈ s.usedInBody) : BodyOccurs s p := by
  simp only [Stm.usedInBody, List.mem_map, List.mem_append] at h
  obtain ⟨sp, hsp, rfl⟩ := h
  cases s with
  | rule l c hd b =>
    rcases hsp with hsp | hsp
    · simp only [Stm.bodyPreds, mem_bodyPreds] at hsp
      obtain ⟨x, hx, _, _, h3⟩ := hsp
      exact ⟨x, hx, sigs_of_symPred h3⟩
    · simp [Stm.minimizePreds] at hsp
  | minimize l c w pr ts b =>
    rcases hsp with hsp | hsp
    · simp [Stm.bodyPreds] at hsp
    · simp only [Stm.minimizePreds, mem_bodyPreds] at hsp
      obtain ⟨x, hx, _, _, h3⟩ := hsp
      exact ⟨x, hx, sigs_of_symPred h3⟩
  | _ => simp [Stm.bodyPreds, Stm.minimizePreds] at hsp

theorem mem_autoDetectInput (prg : Prog) (p : Pred) :
    p ∈ autoDetectInput prg ↔
      (p ∈ prg.allPreds ∧ p ∉ prg.derivablePreds) ∨ (p ∈ prg.allPreds ∧ sameDefUse prg p = true) := by
  simp only [autoDetectInput, autoDetectInputParts, mem_sortDedup, List.mem_append, List.mem_filter]
  simp

theorem input_complete (prg : Prog) (p : Pred)
    (hplain : ∀ s ∈ prg, PlainAtoms s)
    (hocc : ∃ s ∈ prg, Occurs s p) (hnh : ∀ s ∈ prg, ¬ PosHead s p) :
    p ∈ autoDetectInput prg := by
  rw [mem_autoDetectInput]
  left
  obtain ⟨s, hs, ho⟩ := hocc
  constructor
  · exact List.mem_flatMap.mpr ⟨s, hs, occurs_allPreds (hplain s hs) ho⟩
  · intro hd
    obtain ⟨s', hs', hd'⟩ := List.mem_flatMap.mp hd
    exact hnh s' hs' (derivable_posHead hd')

theorem input_excludes (prg : Prog) (p : Pred)
    (hplain : ∀ s ∈ prg, PlainAtoms s)
    (h : ∃ s ∈ prg, PosHead s p ∧ ¬ BodyOccurs s p) :
    p ∉ autoDetectInput prg := by
  obtain ⟨s, hs, hph, hnb⟩ := h
  rw [mem_autoDetectInput]
  have hder : p ∈ s.derivablePreds := posHead_derivable (hplain s hs) hph
  rintro (⟨_, hnd⟩ | ⟨_, hsd⟩)
  · exact hnd (List.mem_flatMap.mpr ⟨s, hs, hder⟩)
  · simp only [sameDefUse, List.all_eq_true] at hsd
    have := hsd s hs
    have hc : s.derivablePreds.contains p = true := by simpa using hder
    rw [hc] at this
    have hu : p ∈ s.usedInBody := by simpa using this
    exact hnb (usedInBody_bodyOccurs hu)

/-- `:- d(1;2), e.   e :- not f.` : `d/1` occurs, is never a head, and is not reported (defect D9) -/
theorem input_complete_counterexample :
    ∃ (prg : Prog) (p : Pred), (∃ s ∈ prg, Occurs s p) ∧ (∀ s ∈ prg, ¬ PosHead s p) ∧ p ∉ autoDetectInput prg := by
  refine ⟨[ .rule 1 1 (.lit (.pos, .bool false))
              [.lit (.pos, .sym (.pool [.fn "d" [.sym (.num 1)] false, .fn "d" [.sym (.num 2)] false])),
               .lit (.pos, .sym (.fn "e" [] false))],
            .rule 2 1 (.lit (.pos, .sym (.fn "e" [] false))) [.lit (.neg, .sym (.fn "f" [] false))] ],
          ⟨"d", 1⟩, ?_, ?_, ?_⟩
  · refine ⟨_, List.mem_cons_self, ?_⟩
    simp [Occurs, headAtoms, bodyAtoms, blitAtoms, litAtoms, atomAtoms, sigs]
  · intro s hs
    simp only [List.mem_cons, List.not_mem_nil, or_false] at hs
    rcases hs with rfl | rfl <;> simp [PosHead, headDerivedAtoms, litAtoms, atomAtoms, sigs]
  · decide

theorem output_exact (prg : Prog) (p : Pred)
    (hplain : ∀ s ∈ prg, ∀ t b, s = Stm.showTerm t b → ∀ x ∈ bodyAtoms b, x.2.isFn = true) :
    p ∈ autoDetectOutput prg ↔ Shown prg p := by
  simp only [autoDetectOutput, mem_sortDedup, List.mem_flatMap, Shown]
  constructor
  · rintro ⟨s, hs, hp⟩
    refine ⟨s, hs, ?_⟩
    cases s with
    | showSig n a pos => simpa using hp
    | showTerm t b =>
      simp only [List.mem_map] at hp
      obtain ⟨sp, hsp, rfl⟩ := hp
      rw [mem_bodyPreds] at hsp
      obtain ⟨x, hx, _, _, h3⟩ := hsp
      exact ⟨x, hx, sigs_of_symPred h3⟩
    | _ => simp at hp
  · rintro ⟨s, hs, hp⟩
    refine ⟨s, hs, ?_⟩
    cases s with
    | showSig n a pos => simpa using hp
    | showTerm t b =>
      obtain ⟨x, hx, hp⟩ := hp
      simp only [List.mem_map]
      refine ⟨⟨x.1, p⟩, ?_, rfl⟩
      rw [mem_bodyPreds]
      exact ⟨x, hx, rfl, sign_mem_allSigns _, symPred_of_sigs (hplain _ hs t b rfl x hx) hp⟩
    | _ => exact absurd hp (by simp)

theorem output_nodup (prg : Prog) : (autoDetectOutput prg).Nodup := nodup_sortDedup _

end NgoVerif.Proofs.C18
