import NgoVerif.Model.Globals
/-! helper lemmas for C07: the name generators of `UniqueNames` / `UniqueVariables` -/
namespace NgoVerif.Proofs.C07
open NgoVerif

theorem toString_nat_inj {a b : Nat} (h : toString a = toString b) : a = b := by
  rw [Nat.toString_eq_repr, Nat.toString_eq_repr] at h
  have h2 : a.repr.toList = b.repr.toList := by rw [h]
  rw [Nat.toList_repr, Nat.toList_repr] at h2
  have := congrArg (fun l => Nat.ofDigitChars 10 l 0) h2
  simpa using this

theorem auxName_inj (arity : Nat) {a b : Nat} (h : auxName arity a = auxName arity b) : a = b := by
  simp only [auxName, Pred.mk.injEq, and_true] at h
  exact toString_nat_inj ((String.append_right_inj _).mp h)

theorem string_append_ne_self (s t : String) (ht : t ≠ "") : s ++ t ≠ s := by
  intro h
  have h2 : s ++ t = s ++ "" := by simpa using h
  exact ht ((String.append_right_inj s).mp h2)

theorem toString_nat_ne_empty (n : Nat) : toString n ≠ "" := by
  rw [Nat.toString_eq_repr]; exact Nat.repr_ne_empty

theorem similarName_inj (sim : String) (arity : Nat) {a b : Nat}
    (h : similarName sim arity a = similarName sim arity b) : a = b := by
  unfold similarName at h
  by_cases ha : a = 0 <;> by_cases hb : b = 0
  · omega
  · simp only [ha, hb, beq_self_eq_true, if_true, beq_iff_eq, if_false, Pred.mk.injEq, and_true] at h
    exact absurd h.symm (string_append_ne_self sim _ (toString_nat_ne_empty b))
  · simp only [ha, hb, beq_self_eq_true, if_true, beq_iff_eq, if_false, Pred.mk.injEq, and_true] at h
    exact absurd h (string_append_ne_self sim _ (toString_nat_ne_empty a))
  · simp only [ha, hb, beq_iff_eq, if_false, Pred.mk.injEq, and_true] at h
    exact toString_nat_inj ((String.append_right_inj _).mp h)

/-! ### `findFree` -/

theorem findFree_spec (mk : Nat → Pred) (known : List Pred) :
    ∀ fuel k n, findFree mk known fuel k = some n →
      mk n ∉ known ∧ k ≤ n ∧ ∀ j, k ≤ j → j < n → mk j ∈ known
  | 0, _, _, h => by simp [findFree] at h
  | fuel + 1, k, n, h => by
    unfold findFree at h
    by_cases hc : known.contains (mk k) = true
    · simp only [hc, if_true] at h
      obtain ⟨h1, h2, h3⟩ := findFree_spec mk known fuel (k + 1) n h
      refine ⟨h1, by omega, ?_⟩
      intro j hj hjn
      by_cases hjk : j = k
      · subst hjk; simpa using hc
      · exact h3 j (by omega) hjn
    · simp only [hc, Bool.false_eq_true, if_false, Option.some.injEq] at h
      subst h
      refine ⟨by simpa using hc, Nat.le_refl _, ?_⟩
      intro j hj hjn; omega

/-- membership among the candidates `mk j`, `j > k`, is unaffected by deleting `mk k` -/
theorem findFree_filter (mk : Nat → Pred) (hinj : ∀ a b, mk a = mk b → a = b) (known : List Pred) (k0 : Nat) :
    ∀ fuel k, k0 < k → findFree mk (known.filter (· != mk k0)) fuel k = findFree mk known fuel k
  | 0, _, _ => rfl
  | fuel + 1, k, hk => by
    unfold findFree
    have hne : mk k ≠ mk k0 := fun h => by have := hinj _ _ h; omega
    have hc : (known.filter (· != mk k0)).contains (mk k) = known.contains (mk k) := by
      rw [Bool.eq_iff_iff]
      simp only [List.contains_iff_mem, List.mem_filter, bne_iff_ne, ne_eq]
      exact ⟨fun h => h.1, fun h => ⟨h, hne⟩⟩
    rw [hc, findFree_filter mk hinj known k0 fuel (k + 1) (by omega)]

/-- pigeonhole: with an injective naming and more fuel than known names a free one is found -/
theorem findFree_isSome (mk : Nat → Pred) (hinj : ∀ a b, mk a = mk b → a = b) :
    ∀ fuel (known : List Pred) k, known.length < fuel → (findFree mk known fuel k).isSome
  | 0, _, _, h => by omega
  | fuel + 1, known, k, h => by
    unfold findFree
    by_cases hc : known.contains (mk k) = true
    · simp only [hc, if_true]
      rw [← findFree_filter mk hinj known k fuel (k + 1) (by omega)]
      apply findFree_isSome mk hinj fuel
      have hmem : mk k ∈ known := by simpa using hc
      have : (known.filter (· != mk k)).length < known.length := by
        have h1 := List.length_filter_le (· != mk k) known
        have h2 : (known.filter (· != mk k)).length ≠ known.length := by
          intro heq
          have := (List.length_filter_eq_length_iff).mp heq (mk k) hmem
          simp at this
        omega
      omega
    · have hc' : mk k ∉ known := by simpa using hc
      simp [hc']

/-! ### the same for variable names -/

theorem findFreeVar_spec (base : String) (known : List String) :
    ∀ fuel k n, findFreeVar base known fuel k = some n →
      (base ++ toString n) ∉ known ∧ k ≤ n ∧ ∀ j, k ≤ j → j < n → (base ++ toString j) ∈ known
  | 0, _, _, h => by simp [findFreeVar] at h
  | fuel + 1, k, n, h => by
    unfold findFreeVar at h
    by_cases hc : known.contains ((base ++ toString k)) = true
    · simp only [hc, if_true] at h
      obtain ⟨h1, h2, h3⟩ := findFreeVar_spec base known fuel (k + 1) n h
      refine ⟨h1, by omega, ?_⟩
      intro j hj hjn
      by_cases hjk : j = k
      · subst hjk; simpa using hc
      · exact h3 j (by omega) hjn
    · simp only [hc, Bool.false_eq_true, if_false, Option.some.injEq] at h
      subst h
      refine ⟨by simpa using hc, Nat.le_refl _, ?_⟩
      intro j hj hjn; omega

/-- membership among the candidates `(base ++ toString j)`, `j > k`, is unaffected by deleting `(base ++ toString k)` -/
theorem findFreeVar_filter (base : String) (known : List String) (k0 : Nat) :
    ∀ fuel k, k0 < k → findFreeVar base (known.filter (· != (base ++ toString k0))) fuel k = findFreeVar base known fuel k
  | 0, _, _ => rfl
  | fuel + 1, k, hk => by
    unfold findFreeVar
    have hne : (base ++ toString k) ≠ (base ++ toString k0) := fun h => by have := toString_nat_inj ((String.append_right_inj _).mp h); omega
    have hc : (known.filter (· != (base ++ toString k0))).contains ((base ++ toString k)) = known.contains ((base ++ toString k)) := by
      rw [Bool.eq_iff_iff]
      simp only [List.contains_iff_mem, List.mem_filter, bne_iff_ne, ne_eq]
      exact ⟨fun h => h.1, fun h => ⟨h, hne⟩⟩
    rw [hc, findFreeVar_filter base known k0 fuel (k + 1) (by omega)]

/-- pigeonhole: with an injective naming and more fuel than known names a free one is found -/
theorem findFreeVar_isSome (base : String) :
    ∀ fuel (known : List String) k, known.length < fuel → (findFreeVar base known fuel k).isSome
  | 0, _, _, h => by omega
  | fuel + 1, known, k, h => by
    unfold findFreeVar
    by_cases hc : known.contains ((base ++ toString k)) = true
    · simp only [hc, if_true]
      rw [← findFreeVar_filter base known k fuel (k + 1) (by omega)]
      apply findFreeVar_isSome base fuel
      have hmem : (base ++ toString k) ∈ known := by simpa using hc
      have : (known.filter (· != (base ++ toString k))).length < known.length := by
        have h1 := List.length_filter_le (· != (base ++ toString k)) known
        have h2 : (known.filter (· != (base ++ toString k))).length ≠ known.length := by
          intro heq
          have := (List.length_filter_eq_length_iff).mp heq ((base ++ toString k)) hmem
          simp at this
        omega
      omega
    · have hc' : (base ++ toString k) ∉ known := by simpa using hc
      simp only [List.contains_iff_mem, hc', if_false, Option.isSome_some]

/-! ### one step of the state machine -/

theorem newAux_some (s : UniqueNames) (arity : Nat) : (s.newAux arity).isSome := by
  unfold UniqueNames.newAux
  simp only
  split
  · have := findFree_isSome (auxName arity) (fun a b => auxName_inj arity) (s.preds.length + 1) s.preds
      (s.auxcounter + 1) (by omega)
    cases hf : findFree (auxName arity) s.preds (s.preds.length + 1) (s.auxcounter + 1) with
    | none => rw [hf] at this; simp at this
    | some n => simp
  · simp

theorem newPred_some (s : UniqueNames) (sim : String) (arity : Nat) : (s.newPred sim arity).isSome := by
  unfold UniqueNames.newPred
  have := findFree_isSome (similarName sim arity) (fun a b => similarName_inj sim arity) (s.preds.length + 1) s.preds
    0 (by omega)
  cases hf : findFree (similarName sim arity) s.preds (s.preds.length + 1) 0 with
  | none => rw [hf] at this; simp at this
  | some n => simp

theorem newAux_fresh {s s' : UniqueNames} {arity : Nat} {p : Pred} (h : s.newAux arity = some (p, s')) :
    p ∉ s.preds ∧ s'.preds = p :: s.preds := by
  unfold UniqueNames.newAux at h
  simp only at h
  split at h
  · cases hf : findFree (auxName arity) s.preds (s.preds.length + 1) (s.auxcounter + 1) with
    | none => rw [hf] at h; simp at h
    | some n =>
      rw [hf] at h
      simp only [Option.some.injEq, Prod.mk.injEq] at h
      obtain ⟨rfl, rfl⟩ := h
      exact ⟨(findFree_spec _ _ _ _ _ hf).1, rfl⟩
  · rename_i hc
    simp only [Option.some.injEq, Prod.mk.injEq] at h
    obtain ⟨rfl, rfl⟩ := h
    exact ⟨by simpa using hc, rfl⟩

theorem newPred_fresh {s s' : UniqueNames} {sim : String} {arity : Nat} {p : Pred}
    (h : s.newPred sim arity = some (p, s')) : p ∉ s.preds ∧ s'.preds = p :: s.preds := by
  unfold UniqueNames.newPred at h
  cases hf : findFree (similarName sim arity) s.preds (s.preds.length + 1) 0 with
  | none => rw [hf] at h; simp at h
  | some n =>
    rw [hf] at h
    simp only [Option.some.injEq, Prod.mk.injEq] at h
    obtain ⟨rfl, rfl⟩ := h
    exact ⟨(findFree_spec _ _ _ _ _ hf).1, rfl⟩


theorem makeUnique_some (u : UniqueVars) (v : String) : (u.makeUnique v).isSome := by
  unfold UniqueVars.makeUnique
  split
  · simp
  · split
    · simp
    · have := findFreeVar_isSome v (u.all.length + 1) u.all 0 (by omega)
      cases hf : findFreeVar v u.all (u.all.length + 1) 0 with
      | none => rw [hf] at this; simp at this
      | some n => simp

/-- a returned variable is `_`, or it is new w.r.t. everything seen so far and is recorded -/
theorem makeUnique_fresh {u u' : UniqueVars} {v r : String} (h : u.makeUnique v = some (r, u')) :
    (r = "_" ∧ u' = u) ∨ (r ∉ u.all ∧ u'.all = u.all ++ [r]) := by
  unfold UniqueVars.makeUnique at h
  split at h
  · rename_i hv
    simp only [Option.some.injEq, Prod.mk.injEq] at h
    obtain ⟨rfl, rfl⟩ := h
    exact Or.inl ⟨by simpa using hv, rfl⟩
  · split at h
    · rename_i hc
      simp only [Option.some.injEq, Prod.mk.injEq] at h
      obtain ⟨rfl, rfl⟩ := h
      exact Or.inr ⟨by simpa using hc, rfl⟩
    · cases hf : findFreeVar v u.all (u.all.length + 1) 0 with
      | none => rw [hf] at h; simp at h
      | some n =>
        rw [hf] at h
        simp only [Option.some.injEq, Prod.mk.injEq] at h
        obtain ⟨rfl, rfl⟩ := h
        exact Or.inr ⟨(findFreeVar_spec _ _ _ _ _ hf).1, rfl⟩

/-- a request for a name other than `_` is answered with a variable that was not seen before, and records it -/
theorem makeUnique_fresh_named {u u' : UniqueVars} {v r : String} (hv : v ≠ "_") (h : u.makeUnique v = some (r, u')) :
    r ∉ u.all ∧ u'.all = u.all ++ [r] := by
  unfold UniqueVars.makeUnique at h
  split at h
  · rename_i hc; exact absurd (by simpa using hc) hv
  · split at h
    · rename_i hc
      simp only [Option.some.injEq, Prod.mk.injEq] at h
      obtain ⟨rfl, rfl⟩ := h
      exact ⟨by simpa using hc, rfl⟩
    · cases hf : findFreeVar v u.all (u.all.length + 1) 0 with
      | none => rw [hf] at h; simp at h
      | some n =>
        rw [hf] at h
        simp only [Option.some.injEq, Prod.mk.injEq] at h
        obtain ⟨rfl, rfl⟩ := h
        exact ⟨(findFreeVar_spec _ _ _ _ _ hf).1, rfl⟩

end NgoVerif.Proofs.C07
