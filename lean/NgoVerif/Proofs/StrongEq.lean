import NgoVerif.Sem.Program
import NgoVerif.Proofs.C05sem
import NgoVerif.Proofs.C08sem
import Mathlib.Tactic.Tauto
/-!
# From equal body denotations to strong equivalence of programs, for two model functions:
`expand_comparisons` (normalize.py) and `remove_boolean` (cleanup.py)
-/
namespace NgoVerif.Proofs.StrongEq
open NgoVerif NgoVerif.Sem NgoVerif.Proofs.C05sem

variable (P : PParams)

/-! ### the set of global variables is unchanged -/

theorem vars_expandCmp (s : Sign) (v : String) :
    ∀ (t : Term) (gs : List Guard), gs ≠ [] →
      (v ∈ (expandCmp s t gs).flatMap litVars ↔ v ∈ litVars (s, Atom.cmp t gs))
  | t, [], h => absurd rfl h
  | t, [g], _ => by
    simp [expandCmp, cmpList, litVars, litTerms, Atom.terms]
  | t, g :: g2 :: gs, _ => by
    have ih := vars_expandCmp s v g.term (g2 :: gs) (List.cons_ne_nil _ _)
    simp only [expandCmp, cmpList, List.map_cons, List.flatMap_cons, List.mem_append] at ih ⊢
    rw [ih]
    simp only [litVars, litTerms, Atom.terms, List.map_cons, List.flatMap_cons, List.mem_append, List.map_nil,
      List.flatMap_nil, List.append_nil, List.not_mem_nil, or_false]
    tauto

theorem globals_normalizeOperators (v : String) :
    ∀ b : List BLit, okBody b = true → (v ∈ bodyGlobals (normalizeOperators b) ↔ v ∈ bodyGlobals b)
  | [], _ => by simp [normalizeOperators]
  | .clit (l, c) :: bs, hok => by
    simp only [okBody, List.all_cons, Bool.and_eq_true] at hok
    have ih := globals_normalizeOperators v bs (by simpa [okBody] using hok.2)
    simp only [normalizeOperators, bodyGlobals, List.flatMap_cons, List.mem_append, blitGlobals] at ih ⊢
    rw [ih]
  | .lit (s, .cmp t gs) :: bs, hok => by
    simp only [okBody, List.all_cons, Bool.and_eq_true, okBLit] at hok
    have ih := globals_normalizeOperators v bs (by simpa [okBody] using hok.2)
    have hne : gs ≠ [] := by
      intro h; subst h
      have h1 := hok.1
      cases s
      · have : okLit (Sign.pos, Atom.cmp t []) = false := rfl
        rw [this] at h1; cases h1
      · have : okLit (Sign.neg, Atom.cmp t []) = false := rfl
        rw [this] at h1; cases h1
      · have : okLit (Sign.dneg, Atom.cmp t []) = false := rfl
        rw [this] at h1; cases h1
    simp only [normalizeOperators, bodyGlobals, List.flatMap_append, List.flatMap_cons, List.mem_append, List.flatMap_map] at ih ⊢
    rw [ih]
    have hexp : ∀ ls : List Lit, (∀ l ∈ ls, ∃ s' l' op r, l = (s', Atom.cmp l' [⟨op, r⟩])) →
        (v ∈ List.flatMap (fun x => blitGlobals (BLit.lit x)) ls ↔ v ∈ ls.flatMap litVars) := by
      intro ls hls
      simp only [List.mem_flatMap]
      constructor
      · rintro ⟨l, hl, hv⟩
        obtain ⟨s', l', op, r, rfl⟩ := hls l hl
        exact ⟨_, hl, by simpa [blitGlobals] using hv⟩
      · rintro ⟨l, hl, hv⟩
        obtain ⟨s', l', op, r, rfl⟩ := hls l hl
        exact ⟨_, hl, by simpa [blitGlobals] using hv⟩
    have hall : ∀ l ∈ expandCmp s t gs, ∃ s' l' op r, l = (s', Atom.cmp l' [⟨op, r⟩]) := by
      intro l hl
      simp only [expandCmp, List.mem_map] at hl
      obtain ⟨⟨l', op, r⟩, _, heq⟩ := hl
      exact ⟨s, l', op, r, heq.symm⟩
    rw [hexp _ hall, vars_expandCmp s v t gs hne]
    simp [blitGlobals]
  | .lit (s, .bagg l c lg f es rg) :: bs, hok => by
    simp only [okBody, List.all_cons, Bool.and_eq_true] at hok
    have ih := globals_normalizeOperators v bs (by simpa [okBody] using hok.2)
    simp only [normalizeOperators, bodyGlobals, List.flatMap_cons, List.mem_append, blitGlobals] at ih ⊢
    rw [ih]
  | .lit (s, .sym t) :: bs, hok => by
    simp only [okBody, List.all_cons, Bool.and_eq_true] at hok
    have ih := globals_normalizeOperators v bs (by simpa [okBody] using hok.2)
    simp only [normalizeOperators, bodyGlobals, List.flatMap_cons, List.mem_append] at ih ⊢
    rw [ih]
  | .lit (s, .bool b) :: bs, hok => by
    simp only [okBody, List.all_cons, Bool.and_eq_true] at hok
    have ih := globals_normalizeOperators v bs (by simpa [okBody] using hok.2)
    simp only [normalizeOperators, bodyGlobals, List.flatMap_cons, List.mem_append] at ih ⊢
    rw [ih]
  | .lit (s, .agg lg es rg) :: bs, hok => by
    simp only [okBody, List.all_cons, Bool.and_eq_true] at hok
    have ih := globals_normalizeOperators v bs (by simpa [okBody] using hok.2)
    simp only [normalizeOperators, bodyGlobals, List.flatMap_cons, List.mem_append] at ih ⊢
    rw [ih]
  | .lit (s, .theory t) :: bs, hok => by
    simp only [okBody, List.all_cons, Bool.and_eq_true] at hok
    have ih := globals_normalizeOperators v bs (by simpa [okBody] using hok.2)
    simp only [normalizeOperators, bodyGlobals, List.flatMap_cons, List.mem_append] at ih ⊢
    rw [ih]

/-- statements whose bodies satisfy the hypothesis of the `_partial` theorem -/
def okStm : Stm → Bool
  | .rule _ _ _ b => okBody b
  | .minimize _ _ _ _ _ b => okBody b
  | _ => true

theorem stmSat_expandComparisons (s : Stm) (hok : okStm s = true) (H T : Interp) :
    stmSat P H T (expandComparisons s) ↔ stmSat P H T s := by
  cases s with
  | rule l c h b =>
    simp only [okStm] at hok
    have hG : (fun v => v ∈ ruleGlobals P h (normalizeOperators b)) = (fun v => v ∈ ruleGlobals P h b) := by
      funext v
      simp only [ruleGlobals, List.mem_append, globals_normalizeOperators v b hok]
    simp only [expandComparisons, stmSat, hG]
    constructor
    · intro hs e
      obtain ⟨h1, h2⟩ := hs e
      exact ⟨fun hb => h1 ((normalizeOperators_sat P.toParams (fun v => v ∈ ruleGlobals P h b) e H T b hok).mpr hb),
             fun hb => h2 ((normalizeOperators_sat P.toParams _ e T T b hok).mpr hb)⟩
    · intro hs e
      obtain ⟨h1, h2⟩ := hs e
      exact ⟨fun hb => h1 ((normalizeOperators_sat P.toParams (fun v => v ∈ ruleGlobals P h b) e H T b hok).mp hb),
             fun hb => h2 ((normalizeOperators_sat P.toParams _ e T T b hok).mp hb)⟩
  | _ => simp [expandComparisons, stmSat]

/-- **`expand_comparisons` is a strong equivalence** on programs without negated multi-guard comparisons -/
theorem expandComparisons_strongEq (prg : Prog) (hok : ∀ s ∈ prg, okStm s = true) :
    StrongEq P prg (prg.map expandComparisons) :=
  strongEq_of_map P expandComparisons prg (fun s hs H T => stmSat_expandComparisons P s (hok s hs) H T)

/-- … and every objective contributes the same ground tuples -/
theorem costTuples_expandComparisons (s : Stm) (hok : okStm s = true) (T : Interp) (x : Sym × Sym × List Sym) :
    costTuples P T (expandComparisons s) x ↔ costTuples P T s x := by
  cases s with
  | minimize l c w p ts b =>
    obtain ⟨wv, pv, tv⟩ := x
    simp only [okStm] at hok
    have hG : (fun v => v ∈ bodyGlobals (normalizeOperators b) ++ (w :: p :: ts).flatMap Term.vars) =
        (fun v => v ∈ bodyGlobals b ++ (w :: p :: ts).flatMap Term.vars) := by
      funext v
      simp only [List.mem_append, globals_normalizeOperators v b hok]
    simp only [expandComparisons, costTuples, hG]
    constructor
    · rintro ⟨e, hb, h⟩; exact ⟨e, (normalizeOperators_sat P.toParams _ e T T b hok).mp hb, h⟩
    · rintro ⟨e, hb, h⟩; exact ⟨e, (normalizeOperators_sat P.toParams _ e T T b hok).mpr hb, h⟩
  | _ => simp [expandComparisons, costTuples]


/-! ### `remove_boolean` -/
open NgoVerif.Cleanup NgoVerif.Proofs.C08sem

theorem globals_cleanupBooleanAggregates (v : String) (b : List BLit) :
    v ∈ bodyGlobals (cleanupBooleanAggregates b) ↔ v ∈ bodyGlobals b := by
  induction b with
  | nil => simp [cleanupBooleanAggregates]
  | cons x xs ih =>
    simp only [cleanupBooleanAggregates, List.map_cons, bodyGlobals, List.flatMap_cons, List.mem_append] at ih ⊢
    rw [ih]
    cases x with
    | clit c => simp
    | lit l =>
      obtain ⟨s, a⟩ := l
      cases a <;> simp [blitGlobals]

theorem globals_cleanupBooleanConditionals (v : String) (b : List BLit) :
    v ∈ bodyGlobals (cleanupBooleanConditionals b) ↔ v ∈ bodyGlobals b := by
  induction b with
  | nil => simp [cleanupBooleanConditionals]
  | cons x xs ih =>
    unfold cleanupBooleanConditionals at ih ⊢
    simp only [bodyGlobals] at ih ⊢
    cases x with
    | lit l => simp only [List.filterMap_cons, List.flatMap_cons, List.mem_append, ih]
    | clit c =>
      obtain ⟨l, cond⟩ := c
      simp only [List.filterMap_cons]
      by_cases hf : containsFalseLits (removeTrueLits cond) = true
      · simp only [hf, if_true, List.flatMap_cons, List.mem_append, ih, blitGlobals, List.not_mem_nil, false_or]
      · simp only [hf, Bool.false_eq_true, if_false, List.flatMap_cons, List.mem_append, ih, blitGlobals, List.not_mem_nil,
          false_or]

theorem blitTrue_no_globals : ∀ x : BLit, blitTrue x = true → blitGlobals x = []
  | .clit _, _ => rfl
  | .lit (s, .bool b), _ => by simp [blitGlobals, litVars, litTerms, Atom.terms]
  | .lit (s, .sym _), h => by cases s <;> simp [blitTrue, litTrue] at h
  | .lit (s, .cmp _ _), h => by cases s <;> simp [blitTrue, litTrue] at h
  | .lit (s, .bagg ..), h => by cases s <;> simp [blitTrue, litTrue] at h
  | .lit (s, .agg ..), h => by cases s <;> simp [blitTrue, litTrue] at h
  | .lit (s, .theory _), h => by cases s <;> simp [blitTrue, litTrue] at h

theorem globals_removeTrueBLits (v : String) (b : List BLit) :
    v ∈ bodyGlobals (removeTrueBLits b) ↔ v ∈ bodyGlobals b := by
  induction b with
  | nil => simp [removeTrueBLits]
  | cons x xs ih =>
    unfold removeTrueBLits at ih ⊢
    simp only [bodyGlobals] at ih ⊢
    by_cases ht : blitTrue x = true
    · simp only [List.filter_cons, ht, Bool.not_true, Bool.false_eq_true, if_false, List.flatMap_cons, List.mem_append, ih,
        blitTrue_no_globals x ht, List.not_mem_nil, false_or]
    · simp only [List.filter_cons, ht, Bool.not_false, if_true, List.flatMap_cons, List.mem_append, ih]

theorem globals_removeBooleanBody (v : String) (b b' : List BLit) (h : removeBooleanBody b = some b') :
    v ∈ bodyGlobals b' ↔ v ∈ bodyGlobals b := by
  unfold removeBooleanBody at h
  simp only at h
  split at h
  · cases h
  · simp only [Option.some.injEq] at h
    subst h
    rw [globals_removeTrueBLits, globals_cleanupBooleanConditionals, globals_cleanupBooleanAggregates]

/-- a statement kept by `remove_boolean` has the same satisfaction relation; a dropped one is satisfied everywhere -/
theorem stmSat_removeBoolean (s : Stm) (H T : Interp) :
    match removeBoolean s with
    | some s' => (stmSat P H T s' ↔ stmSat P H T s)
    | none => stmSat P H T s := by
  cases s with
  | rule l c h b =>
    simp only [removeBoolean]
    cases hb : removeBooleanBody b with
    | none =>
      simp only [Option.map_none, stmSat]
      intro e
      have h1 := removeBooleanBody_sound P.toParams (fun v => v ∈ ruleGlobals P h b) e H T b
      have h2 := removeBooleanBody_sound P.toParams (fun v => v ∈ ruleGlobals P h b) e T T b
      rw [hb] at h1 h2
      exact ⟨fun hs => absurd hs h1, fun hs => absurd hs h2⟩
    | some b' =>
      simp only [Option.map_some, stmSat]
      have hG : (fun v => v ∈ ruleGlobals P h b') = (fun v => v ∈ ruleGlobals P h b) := by
        funext v; simp only [ruleGlobals, List.mem_append, globals_removeBooleanBody v b b' hb]
      rw [hG]
      constructor
      · intro hs e
        have h1 := removeBooleanBody_sound P.toParams (fun v => v ∈ ruleGlobals P h b) e H T b
        have h2 := removeBooleanBody_sound P.toParams (fun v => v ∈ ruleGlobals P h b) e T T b
        rw [hb] at h1 h2
        exact ⟨fun x => (hs e).1 (h1.mpr x), fun x => (hs e).2 (h2.mpr x)⟩
      · intro hs e
        have h1 := removeBooleanBody_sound P.toParams (fun v => v ∈ ruleGlobals P h b) e H T b
        have h2 := removeBooleanBody_sound P.toParams (fun v => v ∈ ruleGlobals P h b) e T T b
        rw [hb] at h1 h2
        exact ⟨fun x => (hs e).1 (h1.mp x), fun x => (hs e).2 (h2.mp x)⟩
  | minimize l c w p ts b =>
    simp only [removeBoolean]
    cases hb : removeBooleanBody b <;> simp [stmSat]
  | _ => simp [removeBoolean, stmSat]

/-- **the boolean step of `cleanup` is a strong equivalence**: `[remove_boolean(s) for s in prg if it is not None]` -/
theorem removeBoolean_strongEq (prg : Prog) : StrongEq P prg (prg.filterMap removeBoolean) := by
  intro H T
  simp only [Models, List.mem_filterMap]
  constructor
  · rintro hm s' ⟨s, hs, hr⟩
    have := stmSat_removeBoolean P s H T
    rw [hr] at this
    exact this.mpr (hm s hs)
  · intro hm s hs
    have := stmSat_removeBoolean P s H T
    cases hr : removeBoolean s with
    | none => rw [hr] at this; exact this
    | some s' => rw [hr] at this; exact this.mp (hm s' ⟨s, hs, hr⟩)

end NgoVerif.Proofs.StrongEq
