import NgoVerif.Sem.Denote
import NgoVerif.Model.Normalize
/-!
# `expand_comparisons` (the model function `normalizeOperators` of `Model/Normalize.lean`) preserves the
here-and-there denotation of a body — for every environment, every HT pair and every choice of the semantic parameters
— unless it splits a *negated* chain.
-/
namespace NgoVerif.Proofs.C05sem
open NgoVerif NgoVerif.Sem

variable (P : Params)

/-- the hypothesis of the `_partial` theorem: a negated comparison literal has exactly one guard -/
def okLit : Sign × Atom → Bool
  | (.neg, .cmp _ gs) => gs.length == 1
  | (_, .cmp _ gs) => gs.length != 0   -- clingo's `Comparison` always has a guard
  | _ => true

def okLits (ls : List (Sign × Atom)) : Bool := ls.all okLit

def okBLit : BLit → Bool
  | .lit (s, .bagg _ _ _ _ es _) => okLit (s, .bool true) && es.all fun e => okLits e.2
  | .lit l => okLit l
  | .clit c => okLits c.2

def okBody (b : List BLit) : Bool := b.all okBLit

theorem litsSat_append (G : String → Prop) (e : Env) (H T : Interp) :
    ∀ (a b : List (Sign × Atom)), litsSat P G e H T (a ++ b) ↔ litsSat P G e H T a ∧ litsSat P G e H T b
  | [], b => by simp [litsSat]
  | x :: a, b => by
    simp only [List.cons_append, litsSat, litsSat_append G e H T a b, and_assoc]

/-- the links of a chain, each as its own one-guard literal with sign `s ∈ {pos, dneg}`, say what the chain says -/
theorem expand_pos (G : String → Prop) (e : Env) (H T : Interp) (s : Sign) (hs : s = .pos ∨ s = .dneg) :
    ∀ (t : Term) (gs : List Guard),
      litsSat P G e H T (expandCmp s t gs) ↔ chainHolds P e t gs
  | t, [] => by simp [expandCmp, cmpList, litsSat, chainHolds]
  | t, g :: gs => by
    have ih := expand_pos G e H T s hs g.term gs
    simp only [expandCmp, cmpList, List.map_cons, litsSat] at ih ⊢
    rw [ih]
    rcases hs with rfl | rfl <;> simp [litSat, atomSat, chainHolds]

theorem expand_sat (G : String → Prop) (e : Env) (H T : Interp) (s : Sign) (t : Term) (gs : List Guard)
    (hok : okLit (s, .cmp t gs) = true) :
    litsSat P G e H T (expandCmp s t gs) ↔ litSat P G e H T (s, .cmp t gs) := by
  cases s with
  | pos => rw [expand_pos P G e H T .pos (Or.inl rfl)]; simp [litSat, atomSat]
  | dneg => rw [expand_pos P G e H T .dneg (Or.inr rfl)]; simp [litSat, atomSat]
  | neg =>
    simp only [okLit, beq_iff_eq] at hok
    match gs, hok with
    | [g], _ => simp [expandCmp, cmpList, litsSat, litSat, atomSat, chainHolds]

theorem normCondition_sat (G : String → Prop) (e : Env) (H T : Interp) :
    ∀ (c : List (Sign × Atom)), okLits c = true → (litsSat P G e H T (normCondition c) ↔ litsSat P G e H T c)
  | [], _ => by simp [normCondition]
  | (s, a) :: cs, hok => by
    simp only [okLits, List.all_cons, Bool.and_eq_true] at hok
    have ih := normCondition_sat G e H T cs (by simpa [okLits] using hok.2)
    cases a with
    | cmp t gs =>
      simp only [normCondition, litsSat_append, litsSat, ih]
      rw [expand_sat P G e H T s t gs hok.1]
    | sym t => simp only [normCondition, litsSat, ih]
    | bool b => simp only [normCondition, litsSat, ih]
    | bagg l c lg f es rg => simp only [normCondition, litsSat, ih]
    | agg lg es rg => simp only [normCondition, litsSat, ih]
    | theory t => simp only [normCondition, litsSat, ih]

theorem bTuples_norm (G : String → Prop) (e : Env) (H T : Interp) :
    ∀ (es : List (List Term × List (Sign × Atom))), (es.all fun x => okLits x.2) = true →
      ∀ tup, bTuples P G e H T (es.map fun (ts, cond) => (ts, normCondition cond)) tup ↔ bTuples P G e H T es tup
  | [], _, tup => by simp [bTuples]
  | (ts, c) :: es, hok, tup => by
    simp only [List.all_cons, Bool.and_eq_true] at hok
    have ih := bTuples_norm G e H T es hok.2 tup
    simp only [List.map_cons, bTuples, ih]
    constructor
    · rintro (⟨e', ha, ht, hc⟩ | h)
      · exact Or.inl ⟨e', ha, ht, (normCondition_sat P G e' H T c hok.1).mp hc⟩
      · exact Or.inr h
    · rintro (⟨e', ha, ht, hc⟩ | h)
      · exact Or.inl ⟨e', ha, ht, (normCondition_sat P G e' H T c hok.1).mpr hc⟩
      · exact Or.inr h

theorem bodySat_cons (G : String → Prop) (e : Env) (H T : Interp) (b : BLit) (bs : List BLit) :
    bodySat P G e H T (b :: bs) ↔ blitSat P G e H T b ∧ bodySat P G e H T bs := by
  simp [bodySat]

theorem bodySat_lits_append (G : String → Prop) (e : Env) (H T : Interp) (ls : List (Sign × Atom)) (bs : List BLit) :
    bodySat P G e H T (ls.map BLit.lit ++ bs) ↔ litsSat P G e H T ls ∧ bodySat P G e H T bs := by
  induction ls with
  | nil => simp [litsSat, bodySat]
  | cons l ls ih =>
    simp only [List.map_cons, List.cons_append, bodySat_cons, ih, litsSat, blitSat, and_assoc]

/-- **`normalize_operators` keeps the denotation of a body.** -/
theorem normalizeOperators_sat (G : String → Prop) (e : Env) (H T : Interp) :
    ∀ (b : List BLit), okBody b = true → (bodySat P G e H T (normalizeOperators b) ↔ bodySat P G e H T b)
  | [], _ => by simp [normalizeOperators]
  | .clit (l, c) :: bs, hok => by
    simp only [okBody, List.all_cons, Bool.and_eq_true, okBLit] at hok
    have ih := normalizeOperators_sat G e H T bs (by simpa [okBody] using hok.2)
    simp only [normalizeOperators, bodySat_cons, ih, blitSat, condLitSat]
    constructor
    · rintro ⟨h, hb⟩
      refine ⟨fun e' ha => ?_, hb⟩
      obtain ⟨h1, h2⟩ := h e' ha
      exact ⟨fun hc => h1 ((normCondition_sat P G e' H T c hok.1).mpr hc),
             fun hc => h2 ((normCondition_sat P G e' T T c hok.1).mpr hc)⟩
    · rintro ⟨h, hb⟩
      refine ⟨fun e' ha => ?_, hb⟩
      obtain ⟨h1, h2⟩ := h e' ha
      exact ⟨fun hc => h1 ((normCondition_sat P G e' H T c hok.1).mp hc),
             fun hc => h2 ((normCondition_sat P G e' T T c hok.1).mp hc)⟩
  | .lit (s, .cmp t gs) :: bs, hok => by
    simp only [okBody, List.all_cons, Bool.and_eq_true, okBLit] at hok
    have ih := normalizeOperators_sat G e H T bs (by simpa [okBody] using hok.2)
    simp only [normalizeOperators, bodySat_lits_append, bodySat_cons, ih, blitSat]
    rw [expand_sat P G e H T s t gs hok.1]
  | .lit (s, .bagg l c lg f es rg) :: bs, hok => by
    simp only [okBody, List.all_cons, Bool.and_eq_true, okBLit] at hok
    have ih := normalizeOperators_sat G e H T bs (by simpa [okBody] using hok.2)
    simp only [normalizeOperators, bodySat_cons, ih, blitSat, litSat, atomSat]
    have h1 : bTuples P G e H H (es.map fun (ts, cond) => (ts, normCondition cond)) = bTuples P G e H H es := by
      funext tup; exact propext (bTuples_norm P G e H H es hok.1.2 tup)
    have h2 : bTuples P G e T T (es.map fun (ts, cond) => (ts, normCondition cond)) = bTuples P G e T T es := by
      funext tup; exact propext (bTuples_norm P G e T T es hok.1.2 tup)
    rw [h1, h2]
  | .lit (s, .sym t) :: bs, hok => by
    simp only [okBody, List.all_cons, Bool.and_eq_true] at hok
    have ih := normalizeOperators_sat G e H T bs (by simpa [okBody] using hok.2)
    simp only [normalizeOperators, bodySat_cons, ih]
  | .lit (s, .bool b) :: bs, hok => by
    simp only [okBody, List.all_cons, Bool.and_eq_true] at hok
    have ih := normalizeOperators_sat G e H T bs (by simpa [okBody] using hok.2)
    simp only [normalizeOperators, bodySat_cons, ih]
  | .lit (s, .agg lg es rg) :: bs, hok => by
    simp only [okBody, List.all_cons, Bool.and_eq_true] at hok
    have ih := normalizeOperators_sat G e H T bs (by simpa [okBody] using hok.2)
    simp only [normalizeOperators, bodySat_cons, ih]
  | .lit (s, .theory t) :: bs, hok => by
    simp only [okBody, List.all_cons, Bool.and_eq_true] at hok
    have ih := normalizeOperators_sat G e H T bs (by simpa [okBody] using hok.2)
    simp only [normalizeOperators, bodySat_cons, ih]

end NgoVerif.Proofs.C05sem
