import NgoVerif.Meta.Split
import NgoVerif.Sem.Program
import NgoVerif.Sem.Coincidence
import NgoVerif.Sem.Indep
/-!
# Projection's split, from syntax to stable models

`head :- body.` with `body` = `new` ∪ `rest` is replaced by `aux(V̄) :- new.` and `head :- rest, aux(V̄).`
The ground instances of these statements (under the here-and-there semantics of `Sem/*`) instantiate the ground-level
schema `Meta/Split.lean`; its side condition `Glue` follows from the *syntactic* condition "every variable of the moved
part that also occurs in the rest or in the head is among `V̄`" by the coincidence lemma.
-/
namespace NgoVerif.Proofs.C16sem
open NgoVerif NgoVerif.Sem

variable (P : PParams)

/-- the ground rules denoted by `head :- body.`: one per environment -/
def instances (G : String → Prop) (head : Head) (body : List BLit) : HT.Prog GAtom :=
  fun r => ∃ e : Env, r = HT.mkRule (fun H T => bodySat P.toParams G e H T body) (fun H T => P.headSat G e H T head)

def auxAtomTerm (auxName : String) (vs : List String) : Term := .fn auxName (vs.map Term.var) false
def auxLit (auxName : String) (vs : List String) : Lit := (.pos, .sym (auxAtomTerm auxName vs))

structure Syn where
  head : Head
  new : List BLit
  rest : List BLit
  body : List BLit
  vs : List String
  auxName : String
  headVars : List String

structure Cond (G : String → Prop) (S : Syn) : Prop where
  /-- the body is split into the two parts -/
  parts : ∀ l, l ∈ S.body ↔ l ∈ S.new ∨ l ∈ S.rest
  /-- every variable shared between the moved part and the rest / the head is passed through the auxiliary atom -/
  share : ∀ v, v ∈ S.new.flatMap BLit.vars → (v ∈ S.rest.flatMap BLit.vars ∨ v ∈ S.headVars) → v ∈ S.vs
  /-- the auxiliary predicate is fresh: neither part mentions it -/
  freshNew : bodyAvoids (nameSig S.auxName) S.new = true
  freshRest : bodyAvoids (nameSig S.auxName) S.rest = true
  /-- the head depends only on its variables and not on auxiliary atoms -/
  headVarsOk : ∀ e1 e2 : Env, (∀ v ∈ S.headVars, e1 v = e2 v) → ∀ H T, (P.headSat G e1 H T S.head ↔ P.headSat G e2 H T S.head)
  headIndep : ∀ e H T H' T', AgreeOffName (nameSig S.auxName) H H' → AgreeOffName (nameSig S.auxName) T T' →
    (P.headSat G e H T S.head ↔ P.headSat G e H' T' S.head)
  /-- a plain atom head holds iff its ground atom is in `H` -/
  atomHead : ∀ e H T t a, groundAtom P.toParams e t = some a → (P.headSat G e H T (.lit (.pos, .sym t)) ↔ H a)
  aggPers : AggPersistent P.toParams

theorem map_eq_pointwise {vs : List String} {e e' : Env} (h : vs.map e' = vs.map e) : ∀ v ∈ vs, e' v = e v := by
  induction vs with
  | nil => simp
  | cons x xs ih =>
    simp only [List.map_cons, List.cons.injEq] at h
    intro v hv
    rcases List.mem_cons.mp hv with rfl | hv
    · exact h.1
    · exact ih h.2 v hv

def splitData (G : String → Prop) (S : Syn) (P0 : HT.Prog GAtom) : HT.SplitData GAtom Env (List Sym) where
  P0 := P0
  N := fun e H T => bodySat P.toParams G e H T S.new
  R := fun e H T => bodySat P.toParams G e H T S.rest
  Hd := fun e H T => P.headSat G e H T S.head
  t := fun e => S.vs.map e
  aux := fun k => ⟨S.auxName, k⟩
  aux_inj := by intro k k' h; cases h; rfl

theorem agreeOffName_of (S : Syn) (G : String → Prop) (P0 : HT.Prog GAtom) {I J : Interp}
    (h : HT.AgreeOff (splitData P G S P0).A I J) : AgreeOffName (nameSig S.auxName) I J := by
  intro a hn
  apply h a
  rintro ⟨k, rfl⟩
  exact hn (by simp [named, nameSig, splitData])

theorem glue (G : String → Prop) (S : Syn) (P0 : HT.Prog GAtom) (hc : Cond P G S) : (splitData P G S P0).Glue := by
  intro e e' ht
  have hvs : ∀ v ∈ S.vs, e' v = e v := map_eq_pointwise ht
  let nv := S.new.flatMap BLit.vars
  refine ⟨patch nv e' e, ?_, ?_, ?_⟩
  · intro H T
    exact (bodySat_congr P.toParams G H T S.new e' _ (fun v hv => patch_eq nv e' e v hv)).symm
  · intro H T
    apply bodySat_congr P.toParams G H T S.rest
    intro v hv
    simp only [patch]
    by_cases hm : v ∈ nv
    · simp only [hm, if_true]; exact hvs v (hc.share v hm (Or.inl hv))
    · simp only [hm, if_false]
  · intro H T
    apply hc.headVarsOk
    intro v hv
    simp only [patch]
    by_cases hm : v ∈ nv
    · simp only [hm, if_true]; exact hvs v (hc.share v hm (Or.inr hv))
    · simp only [hm, if_false]

theorem wf (G : String → Prop) (S : Syn) (P0 : HT.Prog GAtom) (hc : Cond P G S)
    (hP0 : ∀ r, P0 r → HT.Indep (splitData P G S P0).A r) : (splitData P G S P0).WF where
  p0 := hP0
  n := fun e H T H' T' aH aT =>
    bodySat_indep P.toParams (nameSig S.auxName) G S.new hc.freshNew e H T H' T' (agreeOffName_of P S G P0 aH) (agreeOffName_of P S G P0 aT)
  r := fun e H T H' T' aH aT =>
    bodySat_indep P.toParams (nameSig S.auxName) G S.rest hc.freshRest e H T H' T' (agreeOffName_of P S G P0 aH) (agreeOffName_of P S G P0 aT)
  hd := fun e H T H' T' aH aT => hc.headIndep e H T H' T' (agreeOffName_of P S G P0 aH) (agreeOffName_of P S G P0 aT)
  pers := fun e H T hs h => bodySat_pers P.toParams hc.aggPers G e H T hs S.new h

/-! ### the syntactic programs have the models of the schema's programs -/

theorem bodySat_parts (G : String → Prop) (S : Syn) (hc : Cond P G S) (e : Env) (H T : Interp) :
    bodySat P.toParams G e H T S.body ↔ bodySat P.toParams G e H T S.new ∧ bodySat P.toParams G e H T S.rest := by
  simp only [bodySat]
  constructor
  · intro h; exact ⟨fun l hl => h l ((hc.parts l).mpr (Or.inl hl)), fun l hl => h l ((hc.parts l).mpr (Or.inr hl))⟩
  · rintro ⟨h1, h2⟩ l hl
    rcases (hc.parts l).mp hl with hl | hl
    · exact h1 l hl
    · exact h2 l hl

theorem evalTerms_vars (e : Env) (vs : List String) : evalTerms P.toParams e (vs.map Term.var) = some (vs.map e) := by
  induction vs with
  | nil => simp [evalTerms]
  | cons v vs ih => simp [evalTerms, evalTerm, ih]

theorem auxLit_sat (G : String → Prop) (S : Syn) (e : Env) (H T : Interp) :
    litSat P.toParams G e H T (auxLit S.auxName S.vs) ↔ H ⟨S.auxName, S.vs.map e⟩ := by
  simp only [auxLit, auxAtomTerm, litSat, atomSat, groundAtom, evalTerms_vars, Option.map_some]
  constructor
  · rintro ⟨a, ha, h⟩; cases ha; exact h
  · intro h; exact ⟨_, rfl, h⟩

theorem models_orig (G : String → Prop) (S : Syn) (P0 : HT.Prog GAtom) (hc : Cond P G S) (H T : Interp) :
    HT.Models (HT.Union P0 (instances P G S.head S.body)) H T ↔ HT.Models (splitData P G S P0).orig H T := by
  simp only [HT.Models, HT.Union, instances, HT.SplitData.orig, splitData]
  constructor
  · intro h r hr
    rcases hr with hr | ⟨e, rfl⟩
    · exact h r (Or.inl hr)
    · have := h _ (Or.inr ⟨e, rfl⟩)
      simp only [HT.mkRule, bodySat_parts P G S hc] at this ⊢
      exact this
  · intro h r hr
    rcases hr with hr | ⟨e, rfl⟩
    · exact h r (Or.inl hr)
    · have := h _ (Or.inr ⟨e, rfl⟩)
      simp only [HT.mkRule, bodySat_parts P G S hc] at this ⊢
      exact this

theorem bodySat_upd (G : String → Prop) (S : Syn) (e : Env) (H T : Interp) :
    bodySat P.toParams G e H T (S.rest ++ [.lit (auxLit S.auxName S.vs)]) ↔
      H ⟨S.auxName, S.vs.map e⟩ ∧ bodySat P.toParams G e H T S.rest := by
  simp only [bodySat, List.mem_append, List.mem_singleton]
  constructor
  · intro h
    refine ⟨?_, fun l hl => h l (Or.inl hl)⟩
    have := h _ (Or.inr rfl)
    simpa [blitSat, auxLit_sat] using this
  · rintro ⟨h1, h2⟩ l hl
    rcases hl with hl | rfl
    · exact h2 l hl
    · simpa [blitSat, auxLit_sat] using h1

theorem auxHead_sat (G : String → Prop) (S : Syn) (hc : Cond P G S) (e : Env) (H T : Interp) :
    P.headSat G e H T (.lit (auxLit S.auxName S.vs)) ↔ H ⟨S.auxName, S.vs.map e⟩ := by
  unfold auxLit
  exact hc.atomHead e H T _ _ (by simp only [auxAtomTerm, groundAtom, evalTerms_vars, Option.map_some])

/-- the split program: context, updated rule, auxiliary rule -/
def splitProg (G : String → Prop) (S : Syn) (P0 : HT.Prog GAtom) : HT.Prog GAtom :=
  HT.Union (HT.Union P0 (instances P G S.head (S.rest ++ [.lit (auxLit S.auxName S.vs)])))
    (instances P G (.lit (auxLit S.auxName S.vs)) S.new)

theorem models_split (G : String → Prop) (S : Syn) (P0 : HT.Prog GAtom) (hc : Cond P G S) (hw : (splitData P G S P0).WF)
    (H T : Interp) :
    HT.Models (splitProg P G S P0) H T ↔
      HT.Models (HT.Union (splitData P G S P0).folded ((splitData P G S P0).defs hw).rules) H T := by
  simp only [HT.Models, splitProg, HT.Union, instances, HT.SplitData.folded, HT.Defs.rules, HT.SplitData.defs,
    HT.SplitData.dfn, HT.SplitData.A, splitData]
  constructor
  · intro h r hr
    rcases hr with (hr | ⟨e, rfl⟩) | ⟨a, ⟨k, rfl⟩, rfl⟩
    · exact h r (Or.inl (Or.inl hr))
    · have := h _ (Or.inl (Or.inr ⟨e, rfl⟩))
      simp only [HT.mkRule, bodySat_upd] at this ⊢
      exact this
    · constructor
      · rintro ⟨e, hk, hn⟩
        have := (h _ (Or.inr ⟨e, rfl⟩)).1 hn
        have hk' : k = S.vs.map e := by cases hk; rfl
        rw [hk']; exact (auxHead_sat P G S hc e H T).mp this
      · rintro ⟨e, hk, hn⟩
        have := (h _ (Or.inr ⟨e, rfl⟩)).2 hn
        have hk' : k = S.vs.map e := by cases hk; rfl
        rw [hk']; exact (auxHead_sat P G S hc e T T).mp this
  · intro h r hr
    rcases hr with (hr | ⟨e, rfl⟩) | ⟨e, rfl⟩
    · exact h r (Or.inl (Or.inl hr))
    · have := h _ (Or.inl (Or.inr ⟨e, rfl⟩))
      simp only [HT.mkRule, bodySat_upd] at this ⊢
      exact this
    · have := h _ (Or.inr ⟨⟨S.auxName, S.vs.map e⟩, ⟨_, rfl⟩, rfl⟩)
      exact ⟨fun hn => (auxHead_sat P G S hc e H T).mpr (this.1 ⟨e, rfl, hn⟩),
             fun hn => (auxHead_sat P G S hc e T T).mpr (this.2 ⟨e, rfl, hn⟩)⟩

theorem stable_of_models {A B : HT.Prog GAtom} (h : ∀ H T, HT.Models A H T ↔ HT.Models B H T) (T : Interp) :
    HT.Stable A T ↔ HT.Stable B T := by
  unfold HT.Stable
  rw [h T T]
  constructor
  · rintro ⟨h1, h2⟩; exact ⟨h1, fun H hs hm => h2 H hs ((h H T).mpr hm)⟩
  · rintro ⟨h1, h2⟩; exact ⟨h1, fun H hs hm => h2 H hs ((h H T).mp hm)⟩

/-- the extension of a stable model by the auxiliary atoms whose moved part holds -/
def extend (G : String → Prop) (S : Syn) (T : Interp) : Interp :=
  fun a => (a.name ≠ S.auxName ∧ T a) ∨ (∃ e : Env, a = ⟨S.auxName, S.vs.map e⟩ ∧ bodySat P.toParams G e T T S.new)

theorem ext_eq (G : String → Prop) (S : Syn) (P0 : HT.Prog GAtom) (hw : (splitData P G S P0).WF) (T : Interp) (a : GAtom) :
    HT.ext ((splitData P G S P0).defs hw) T a ↔ extend P G S T a := by
  simp only [HT.ext, HT.SplitData.defs, HT.SplitData.A, HT.SplitData.dfn, splitData, extend]
  constructor
  · rintro (⟨hna, hT⟩ | ⟨_, e, ha, hn⟩)
    · left
      refine ⟨?_, hT⟩
      intro hn
      exact hna ⟨a.args, by cases a; simp_all⟩
    · exact Or.inr ⟨e, ha, hn⟩
  · rintro (⟨hn, hT⟩ | ⟨e, ha, hn⟩)
    · left
      refine ⟨?_, hT⟩
      rintro ⟨k, rfl⟩
      exact hn rfl
    · exact Or.inr ⟨⟨_, ha⟩, e, ha, hn⟩

/-- **soundness of the split, from syntax** -/
theorem split_sound (G : String → Prop) (S : Syn) (P0 : HT.Prog GAtom) (hc : Cond P G S)
    (hP0 : ∀ r, P0 r → HT.Indep (splitData P G S P0).A r) (T : Interp)
    (hT : HT.Stable (HT.Union P0 (instances P G S.head S.body)) T) :
    HT.Stable (splitProg P G S P0) (extend P G S T) := by
  have hw := wf P G S P0 hc hP0
  have h1 : HT.Stable (splitData P G S P0).orig T := (stable_of_models (models_orig P G S P0 hc) T).mp hT
  have h2 := (splitData P G S P0).split_sound hw (glue P G S P0 hc) T h1
  have h3 := (stable_of_models (models_split P G S P0 hc hw) _).mpr h2
  have : HT.ext ((splitData P G S P0).defs hw) T = extend P G S T := by
    funext a; exact propext (ext_eq P G S P0 hw T a)
  rw [← this]; exact h3

/-- **completeness of the split, from syntax**: every stable model of the split program is the extension of a stable
model of the original program -/
theorem split_complete (G : String → Prop) (S : Syn) (P0 : HT.Prog GAtom) (hc : Cond P G S)
    (hP0 : ∀ r, P0 r → HT.Indep (splitData P G S P0).A r) (T' : Interp)
    (hT' : HT.Stable (splitProg P G S P0) T') :
    ∃ T, HT.Stable (HT.Union P0 (instances P G S.head S.body)) T ∧ ∀ a, T' a ↔ extend P G S T a := by
  have hw := wf P G S P0 hc hP0
  have h1 := (stable_of_models (models_split P G S P0 hc hw) T').mp hT'
  obtain ⟨T, hT, hext⟩ := (splitData P G S P0).split_complete hw (glue P G S P0 hc) T' h1
  refine ⟨T, (stable_of_models (models_orig P G S P0 hc) T).mpr hT, ?_⟩
  intro a
  rw [hext a, ext_eq]

/-! ### folding against an auxiliary rule that is already in the program (`duplication`: second and later occurrences) -/

/-- the source of a fold: context, the rule with the literal set still in place, and the auxiliary rule -/
def unfoldedProg (G : String → Prop) (S : Syn) (P0 : HT.Prog GAtom) : HT.Prog GAtom :=
  HT.Union (HT.Union P0 (instances P G S.head S.body)) (instances P G (.lit (auxLit S.auxName S.vs)) S.new)

theorem models_unfoldedProg (G : String → Prop) (S : Syn) (P0 : HT.Prog GAtom) (hc : Cond P G S)
    (hw : (splitData P G S P0).WF) (H T : Interp) :
    HT.Models (unfoldedProg P G S P0) H T ↔
      HT.Models (HT.Union (splitData P G S P0).orig ((splitData P G S P0).defs hw).rules) H T := by
  constructor
  · intro h r hr
    rcases hr with hr | hr
    · exact (models_orig P G S P0 hc H T).mp (fun r' hr' => h r' (Or.inl hr')) r hr
    · obtain ⟨a, ⟨k, rfl⟩, rfl⟩ := hr
      simp only [HT.SplitData.defs, HT.SplitData.dfn, splitData]
      constructor
      · rintro ⟨e, hk, hn⟩
        have := (h _ (Or.inr ⟨e, rfl⟩)).1 hn
        have hk' : k = S.vs.map e := by cases hk; rfl
        rw [hk']; exact (auxHead_sat P G S hc e H T).mp this
      · rintro ⟨e, hk, hn⟩
        have := (h _ (Or.inr ⟨e, rfl⟩)).2 hn
        have hk' : k = S.vs.map e := by cases hk; rfl
        rw [hk']; exact (auxHead_sat P G S hc e T T).mp this
  · intro h r hr
    rcases hr with hr | ⟨e, rfl⟩
    · exact (models_orig P G S P0 hc H T).mpr (fun r' hr' => h r' (Or.inl hr')) r hr
    · have := h _ (Or.inr ⟨⟨S.auxName, S.vs.map e⟩, ⟨_, rfl⟩, rfl⟩)
      simp only [HT.SplitData.defs, HT.SplitData.dfn, splitData] at this
      exact ⟨fun hn => (auxHead_sat P G S hc e H T).mpr (this.1 ⟨e, rfl, hn⟩),
             fun hn => (auxHead_sat P G S hc e T T).mpr (this.2 ⟨e, rfl, hn⟩)⟩

/-- **fold against an existing definition, from syntax**: with the auxiliary rule in the program, the rule with the
literal set and the rule with the auxiliary atom in its place have the same stable models -/
theorem fold_existing (G : String → Prop) (S : Syn) (P0 : HT.Prog GAtom) (hc : Cond P G S)
    (hP0 : ∀ r, P0 r → HT.Indep (splitData P G S P0).A r) (T : Interp) :
    HT.Stable (unfoldedProg P G S P0) T ↔ HT.Stable (splitProg P G S P0) T := by
  have hw := wf P G S P0 hc hP0
  rw [stable_of_models (models_unfoldedProg P G S P0 hc hw) T, stable_of_models (models_split P G S P0 hc hw) T]
  exact (splitData P G S P0).fold_existing hw (glue P G S P0 hc) T

end NgoVerif.Proofs.C16sem
