import NgoVerif.Sem.Head
import NgoVerif.Sem.Bridge
import NgoVerif.Meta.Meta2
/-!
# Deleting the plain rules of a predicate nothing else mentions (`unused`), for typed programs, from syntax

`prg` is a list of typed statements, `n/k` a predicate.  Every statement is either a *defining rule* of `n`
(`n(t̄) :- B.` with `B` not mentioning `n`) or does not mention `n` at all (head, body, conditions, aggregate
elements, objective bodies).  Then, under the standard head semantics (`Sem/Head.lean`) and for every choice of the
arithmetic / comparison / aggregate parameters with persistent aggregates:

* every stable model of the program *without* the defining rules extends — by exactly the `n`-atoms the deleted rules
  derive from it — to a stable model of the whole program (`unused_sound`);
* every stable model of the whole program is such an extension, of its own restriction to the other predicates
  (`unused_complete`);
* the cost tuples of every objective are the same in both (`unused_costs`).

So deleting the rules is invisible on every predicate but `n`: answer sets correspond one-to-one and keep their costs.
-/
namespace NgoVerif.Proofs.C09sem
open NgoVerif NgoVerif.Sem

variable (P : Params)

/-- `n(t̄) :- B.` with `n` not in `B` -/
def defRule (n : String) (k : Nat) : Stm → Bool
  | .rule _ _ (.lit (.pos, .sym (.fn m args false))) b => m == n && args.length == k && bodyAvoids (predSig n k) b
  | _ => false

/-- the statement does not mention predicate name `n` -/
def stmAvoids (n : Sig) : Stm → Bool
  | .rule _ _ h b => headAvoids n h && bodyAvoids n b
  | .minimize _ _ _ _ _ b => bodyAvoids n b
  | .showTerm _ b => bodyAvoids n b
  | _ => true

/-- the side condition of the deletion, decidable on the syntax -/
def Unused (n : String) (k : Nat) (prg : Prog) : Prop :=
  ∀ s ∈ prg, defRule n k s = true ∨ stmAvoids (predSig n k) s = true

/-- the executable form of `Unused` (what the driver evaluates on the programs the real pass removed rules from) -/
def unusedCheck (n : String) (k : Nat) (prg : Prog) : Bool :=
  prg.all fun s => defRule n k s || stmAvoids (predSig n k) s

theorem unusedCheck_sound (n : String) (k : Nat) (prg : Prog) (h : unusedCheck n k prg = true) : Unused n k prg := by
  intro s hs
  simp only [unusedCheck, List.all_eq_true, Bool.or_eq_true] at h
  exact h s hs

def keep (n : String) (k : Nat) (prg : Prog) : Prog := prg.filter fun s => !defRule n k s

/-- what the deleted rules say about the atom `a`, at `(H,T)` -/
def dfn (n : String) (k : Nat) (prg : Prog) (a : GAtom) (H T : Interp) : Prop :=
  ∃ l c m args b, Stm.rule l c (.lit (.pos, .sym (.fn m args false))) b ∈ prg ∧ m = n ∧ args.length = k ∧
    bodyAvoids (predSig n k) b = true ∧
    ∃ e : Env, groundAtom P e (.fn m args false) = some a ∧
      bodySat P (fun v => v ∈ ruleGlobals (stdParams P) (.lit (.pos, .sym (.fn m args false))) b) e H T b

theorem agreeName {n : Sig} {I J : Interp} (h : HT.AgreeOff (named n) I J) : AgreeOffName n I J :=
  fun a hn => h a hn

def defs (n : String) (k : Nat) (prg : Prog) : HT.Defs GAtom where
  A := named (predSig n k)
  dfn := dfn P n k prg
  indep := by
    intro a H T H' T' aH aT
    simp only [dfn]
    constructor
    · rintro ⟨l, c, m, args, b, hm, hn, hk, hav, e, hg, hb⟩
      exact ⟨l, c, m, args, b, hm, hn, hk, hav, e, hg,
        (bodySat_indep P _ _ b hav e H T H' T' (agreeName aH) (agreeName aT)).mp hb⟩
    · rintro ⟨l, c, m, args, b, hm, hn, hk, hav, e, hg, hb⟩
      exact ⟨l, c, m, args, b, hm, hn, hk, hav, e, hg,
        (bodySat_indep P _ _ b hav e H T H' T' (agreeName aH) (agreeName aT)).mpr hb⟩

/-- the extension of an interpretation by the `n/k`-atoms the deleted rules derive from it -/
def extend (n : String) (k : Nat) (prg : Prog) (T : Interp) : Interp :=
  fun a => (¬ named (predSig n k) a ∧ T a) ∨ (named (predSig n k) a ∧ dfn P n k prg a T T)

theorem ext_eq (n : String) (k : Nat) (prg : Prog) (T : Interp) :
    HT.ext (defs P n k prg) T = extend P n k prg T := by
  funext a
  simp only [HT.ext, defs, extend]

theorem defRule_shape {n : String} {k : Nat} {s : Stm} (h : defRule n k s = true) :
    ∃ l c m args b, s = .rule l c (.lit (.pos, .sym (.fn m args false))) b ∧ m = n ∧ args.length = k ∧
      bodyAvoids (predSig n k) b = true := by
  unfold defRule at h
  split at h
  · rename_i l c m args b
    simp only [Bool.and_eq_true, beq_iff_eq] at h
    exact ⟨l, c, m, args, b, rfl, h.1.1, h.1.2, h.2⟩
  · exact absurd h (by simp)

theorem named_of_ground {n : String} {k : Nat} {m : String} {args : List Term} (hmn : m = n) (hk : args.length = k)
    (e : Env) (a : GAtom) (hg : groundAtom P e (.fn m args false) = some a) : named (predSig n k) a := by
  obtain ⟨name, args', ext, ht, hn, hl⟩ := groundAtom_name P e _ a hg
  cases ht
  simp [named, predSig, hn, hl, hmn, hk]

/-- the whole program and (kept statements ∪ definitions) have the same here-and-there models -/
theorem models_split (n : String) (k : Nat) (prg : Prog) (H T : Interp) :
    HT.Models (denote (stdParams P) prg) H T ↔
      HT.Models (HT.Union (denote (stdParams P) (keep n k prg)) (defs P n k prg).rules) H T := by
  constructor
  · intro h r hr
    rcases hr with ⟨s, hs, rfl⟩ | ⟨a, hA, rfl⟩
    · exact h _ ⟨s, (List.mem_filter.mp hs).1, rfl⟩
    · have key : ∀ H' : Interp, (∀ s ∈ prg, stmSat (stdParams P) H' T s) → dfn P n k prg a H' T → H' a := by
        rintro H' hm ⟨l, c, m, args, b, hmem, _, _, _, e, hg, hb⟩
        have := (hm _ hmem e).1 hb
        rw [stdParams_headSat] at this
        exact (stdHeadSat_atom P _ e H' T _ a hg).mp this
      refine ⟨key H fun s hs => h _ ⟨s, hs, rfl⟩, ?_⟩
      rintro ⟨l, c, m, args, b, hmem, _, _, _, e, hg, hb⟩
      have := (h _ ⟨_, hmem, rfl⟩ e).2 hb
      rw [stdParams_headSat] at this
      exact (stdHeadSat_atom P _ e T T _ a hg).mp this
  · rintro h r ⟨s, hs, rfl⟩
    by_cases hd : defRule n k s = true
    · obtain ⟨l, c, m, args, b, rfl, hmn, hk, hav⟩ := defRule_shape hd
      intro e
      constructor
      · intro hb
        rw [stdParams_headSat]
        simp only [stdHeadSat, headLitSat]
        intro a hg
        exact (h _ (Or.inr ⟨a, named_of_ground P hmn hk e a hg, rfl⟩)).1 ⟨l, c, m, args, b, hs, hmn, hk, hav, e, hg, hb⟩
      · intro hb
        rw [stdParams_headSat]
        simp only [stdHeadSat, headLitSat]
        intro a hg
        exact (h _ (Or.inr ⟨a, named_of_ground P hmn hk e a hg, rfl⟩)).2 ⟨l, c, m, args, b, hs, hmn, hk, hav, e, hg, hb⟩
    · exact h _ (Or.inl ⟨s, List.mem_filter.mpr ⟨hs, by simpa using hd⟩, rfl⟩)

/-- a statement that does not mention the predicates in `n` does not depend on their atoms -/
theorem stmSat_indep (n : Sig) (s : Stm) (hav : stmAvoids n s = true) (H T H' T' : Interp)
    (aH : AgreeOffName n H H') (aT : AgreeOffName n T T') :
    stmSat (stdParams P) H T s ↔ stmSat (stdParams P) H' T' s := by
  cases s with
  | rule l c h b =>
    simp only [stmAvoids, Bool.and_eq_true] at hav
    simp only [stmSat]
    have hb := fun e => bodySat_indep P n (fun v => v ∈ ruleGlobals (stdParams P) h b) b hav.2 e H T H' T' aH aT
    have hb2 := fun e => bodySat_indep P n (fun v => v ∈ ruleGlobals (stdParams P) h b) b hav.2 e T T T' T' aT aT
    have hh := fun e => stdHeadSat_indep P n (fun v => v ∈ ruleGlobals (stdParams P) h b) h hav.1 e H T H' T' aH aT
    have hh2 := fun e => stdHeadSat_indep P n (fun v => v ∈ ruleGlobals (stdParams P) h b) h hav.1 e T T T' T' aT aT
    constructor
    · intro hs e
      exact ⟨fun x => (hh e).mp ((hs e).1 ((hb e).mpr x)), fun x => (hh2 e).mp ((hs e).2 ((hb2 e).mpr x))⟩
    · intro hs e
      exact ⟨fun x => (hh e).mpr ((hs e).1 ((hb e).mp x)), fun x => (hh2 e).mpr ((hs e).2 ((hb2 e).mp x))⟩
  | _ => simp only [stmSat]

theorem keep_indep (n : String) (k : Nat) (prg : Prog) (hu : Unused n k prg) :
    ∀ r, denote (stdParams P) (keep n k prg) r → HT.Indep (defs P n k prg).A r := by
  rintro r ⟨s, hs, rfl⟩ H T H' T' aH aT
  obtain ⟨hmem, hnd⟩ := List.mem_filter.mp hs
  have hav : stmAvoids (predSig n k) s = true := by
    rcases hu s hmem with h | h
    · simp [h] at hnd
    · exact h
  exact stmSat_indep P _ s hav H T H' T' (agreeName aH) (agreeName aT)

theorem dfn_pers (hp : AggPersistent P) (n : String) (k : Nat) (prg : Prog) :
    ∀ a H T, HT.Sub H T → (defs P n k prg).dfn a H T → (defs P n k prg).dfn a T T := by
  rintro a H T hs ⟨l, c, m, args, b, hm, hn, hk, hav, e, hg, hb⟩
  exact ⟨l, c, m, args, b, hm, hn, hk, hav, e, hg, bodySat_pers P hp _ e H T hs b hb⟩

/-- **soundness of the deletion**: a stable model of the program without the defining rules of `n/k` extends to a
stable model of the whole program -/
theorem unused_sound (n : String) (k : Nat) (prg : Prog) (hu : Unused n k prg) (T : Interp)
    (hT : Stable (stdParams P) (keep n k prg) T) : Stable (stdParams P) prg (extend P n k prg T) := by
  have h1 := (stable_denote (stdParams P) _ T).mpr hT
  have h2 := HT.def_ext_sound _ (defs P n k prg) (keep_indep P n k prg hu) T h1
  rw [ext_eq] at h2
  exact (stable_denote (stdParams P) prg _).mp ((Sem.stable_of_models (models_split P n k prg) _).mpr h2)

/-- **completeness of the deletion**: every stable model of the whole program is the extension of a stable model of
the program without the defining rules, and agrees with it on every other predicate -/
theorem unused_complete (hp : AggPersistent P) (n : String) (k : Nat) (prg : Prog) (hu : Unused n k prg) (T' : Interp)
    (hT' : Stable (stdParams P) prg T') :
    ∃ T, Stable (stdParams P) (keep n k prg) T ∧ (∀ a, T' a ↔ extend P n k prg T a) ∧
      (∀ a, ¬ named (predSig n k) a → (T a ↔ T' a)) := by
  have h1 := (Sem.stable_of_models (models_split P n k prg) T').mp ((stable_denote (stdParams P) prg T').mpr hT')
  obtain ⟨T, hT, hext⟩ :=
    HT.def_ext_complete _ (defs P n k prg) (keep_indep P n k prg hu) (dfn_pers P hp n k prg) T' h1
  have hno := HT.stable_no_aux (keep_indep P n k prg hu) hT
  refine ⟨T, (stable_denote (stdParams P) _ T).mp hT, ?_, ?_⟩
  · intro a; rw [hext a, ext_eq]
  · intro a hn
    rw [hext a]
    exact HT.agree_ext (defs P n k prg) T hno a hn

/-- **costs**: an objective that does not mention the predicate contributes the same tuples before and after -/
theorem unused_costs (n : Sig) (s : Stm) (hav : stmAvoids n s = true) (T T' : Interp)
    (hag : AgreeOffName n T T') (x : Sym × Sym × List Sym) :
    costTuples (stdParams P) T s x ↔ costTuples (stdParams P) T' s x := by
  cases s with
  | minimize l c w p ts b =>
    obtain ⟨wv, pv, tv⟩ := x
    simp only [stmAvoids] at hav
    simp only [costTuples]
    constructor
    · rintro ⟨e, hb, h⟩; exact ⟨e, (bodySat_indep P n _ b hav e T T T' T' hag hag).mp hb, h⟩
    · rintro ⟨e, hb, h⟩; exact ⟨e, (bodySat_indep P n _ b hav e T T T' T' hag hag).mpr hb, h⟩
  | _ => simp only [costTuples]

/-- the terms a `#show t : B.` statement displays in the answer set `T` -/
def shownTerms (T : Interp) : Stm → Sym → Prop
  | .showTerm t b, x => ∃ e : Env, bodySat P (fun v => v ∈ bodyGlobals b ++ t.vars) e T T b ∧ evalTerm P e t = some x
  | _, _ => False

/-- **display**: a `#show` term statement that does not mention the predicate displays the same terms before and after -/
theorem unused_shown (n : Sig) (s : Stm) (hav : stmAvoids n s = true) (T T' : Interp)
    (hag : AgreeOffName n T T') (x : Sym) : shownTerms P T s x ↔ shownTerms P T' s x := by
  cases s with
  | showTerm t b =>
    simp only [stmAvoids] at hav
    simp only [shownTerms]
    constructor
    · rintro ⟨e, hb, h⟩; exact ⟨e, (bodySat_indep P n _ b hav e T T T' T' hag hag).mp hb, h⟩
    · rintro ⟨e, hb, h⟩; exact ⟨e, (bodySat_indep P n _ b hav e T T T' T' hag hag).mpr hb, h⟩
  | _ => simp only [shownTerms]

end NgoVerif.Proofs.C09sem
