import NgoVerif.Sem.Head
import NgoVerif.Sem.Bridge
import NgoVerif.Sem.GCongr
import NgoVerif.Sem.DecEq
/-!
# Generated domain predicates over-approximate the predicates they stand for — typed programs, from syntax

`dn` maps a predicate to the name of its domain predicate (`p ↦ __dom_p`).  If every rule that can derive an atom of
a mapped predicate - a plain rule `p(t̄) :- B.` or a choice rule with the element `p(t̄) : c̄` - has its *domain rule*
`dom_p(t̄) :- B'.` in the program, where every literal of `B'` is either a literal of `B` (or `c̄`) unchanged or the
domain version `dom_r(s̄)` of a positive literal `r(s̄)` of it, then in EVERY answer set

      p(c̄) ∈ T   ⟹   dom_p(c̄) ∈ T                                   (`dom_overapprox`).

The proof is a minimality argument: the interpretation `H` that keeps of `T` exactly the atoms covered by their domain
atom is a here-and-there model of the program below `T`, so it is `T`.  Nothing is assumed about recursion,
negation or aggregates in `B` beyond persistence; the hypothesis that negated literals and conditions are copied
*unchanged* (not replaced by their domain versions) is exactly what finding D6 violates.
-/
namespace NgoVerif.Proofs.C20dom
open NgoVerif NgoVerif.Sem

variable (P : Params)

/-- predicate ↦ name of its domain predicate -/
abbrev DomMap := String → Nat → Option String

def qsig (dn : DomMap) : Sig := fun n k => (dn n k).isSome

/-- the part of `T` that is covered by the domain atoms in `T` -/
def covered (dn : DomMap) (T : Interp) : Interp :=
  fun a => T a ∧ ∀ d, dn a.name a.args.length = some d → T ⟨d, a.args⟩

theorem covered_sub (dn : DomMap) (T : Interp) : ∀ a, covered dn T a → T a := fun _ h => h.1

theorem covered_agree (dn : DomMap) (T : Interp) : AgreeOffName (qsig dn) (covered dn T) T := by
  intro a hn
  simp only [named, qsig, Bool.not_eq_true, Option.isSome_eq_false_iff, Option.isNone_iff_eq_none] at hn
  constructor
  · exact fun h => h.1
  · intro h
    refine ⟨h, ?_⟩
    intro d hd
    rw [hn] at hd
    cases hd

def posAtom (name : String) (args : List Term) : BLit := .lit (.pos, .sym (.fn name args false))

/-- `l'` is a literal of the domain rule obtained from the literals `B`: unchanged (with the same status of the
variables inside its local scopes), or the domain version of a positive literal -/
def DomLit (dn : DomMap) (G G' : String → Prop) (B : List BLit) (l' : BLit) : Prop :=
  (l' ∈ B ∧ ∀ v ∈ blitScoped l', G v ↔ G' v) ∨
  (∃ r args d, l' = posAtom d args ∧ posAtom r args ∈ B ∧ dn r args.length = some d)

theorem evalTerms_len (e : Env) (args : List Term) (vals : List Sym) (h : evalTerms P e args = some vals) :
    vals.length = args.length := evalTerms_length P e args vals h

/-- a body that holds at `(covered T, T)` makes every literal of its domain version hold at `(T, T)` -/
theorem domLit_sat (hp : AggPersistent P) (dn : DomMap) (G G' : String → Prop) (B : List BLit) (l' : BLit)
    (hl : DomLit dn G G' B l') (e : Env) (T : Interp) (hB : bodySat P G e (covered dn T) T B) :
    blitSat P G' e T T l' := by
  rcases hl with ⟨hmem, hsc⟩ | ⟨r, args, d, rfl, hmem, hd⟩
  · have h1 : bodySat P G e T T B := bodySat_pers P hp G e _ T (covered_sub dn T) B hB
    exact (blitSat_gcongr P G G' T T l' e hsc).mp (h1 l' hmem)
  · have h1 := hB _ hmem
    simp only [posAtom, blitSat, litSat, atomSat, groundAtom, Option.map_eq_some_iff] at h1 ⊢
    obtain ⟨a, ⟨vals, hv, rfl⟩, hcov⟩ := h1
    refine ⟨⟨d, vals⟩, ⟨vals, hv, rfl⟩, ?_⟩
    have := hcov.2 d (by simpa [evalTerms_len P e args vals hv] using hd)
    exact this

/-- the statement-level requirement -/
structure RuleCovered (dn : DomMap) (prg : Prog) (l c : Nat) (h : Head) (B : List BLit) : Prop where
  /-- plain head over a mapped predicate: its domain rule is in the program -/
  plain : ∀ q args d, h = .lit (.pos, .sym (.fn q args false)) → dn q args.length = some d →
    ∃ l' c' B', Stm.rule l' c' (.lit (.pos, .sym (.fn d args false))) B' ∈ prg ∧
      ∀ x ∈ B', DomLit dn (fun v => v ∈ ruleGlobals (stdParams P) h B)
        (fun v => v ∈ ruleGlobals (stdParams P) (.lit (.pos, .sym (.fn d args false))) B') B x
  /-- choice head: every element either does not mention a mapped predicate, or is a positive atom of one whose domain
  rule (body: the rule body and the element's condition) is in the program; element-local variables do not recur in
  the rule body -/
  choice : ∀ lg elems rg, h = .agg lg elems rg → ∀ c ∈ elems,
    atomAvoids (qsig dn) c.1.2 = true ∨
    (∃ q args d l' c' B', c.1 = (.pos, .sym (.fn q args false)) ∧ dn q args.length = some d ∧
      Stm.rule l' c' (.lit (.pos, .sym (.fn d args false))) B' ∈ prg ∧
      (∀ x ∈ B', DomLit dn (fun v => v ∈ ruleGlobals (stdParams P) h B)
        (fun v => v ∈ ruleGlobals (stdParams P) (.lit (.pos, .sym (.fn d args false))) B') (B ++ c.2.map BLit.lit) x) ∧
      (∀ v ∈ (condLitTerms c).flatMap Term.vars, v ∉ ruleGlobals (stdParams P) h B → v ∉ B.flatMap BLit.vars))
  /-- every other head does not mention mapped predicates, or is a plain literal of the parser's shapes -/
  other : (∃ q args, h = .lit (.pos, .sym (.fn q args false))) ∨ (∃ lg elems rg, h = .agg lg elems rg) ∨
    (∃ s a, h = .lit (s, a) ∧ s ≠ .pos ∧ (∃ t, a = .sym t)) ∨
    (∃ s t gs, h = .lit (s, .cmp t gs)) ∨ (∃ s b, h = .lit (s, .bool b)) ∨
    (headAvoids (qsig dn) h = true ∧ ∀ l, h ≠ .lit l)

def Covered (dn : DomMap) (prg : Prog) : Prop :=
  ∀ s ∈ prg, ∀ l c h B, s = Stm.rule l c h B → RuleCovered P dn prg l c h B

/-- double negation is evaluated in the total interpretation only -/
structure DnegT : Prop where
  old : ∀ lg rg X Y, P.oldAggRel .dneg lg rg X Y ↔ P.oldAggRel .dneg lg rg Y Y
  agg : ∀ lg f rg X Y, P.aggRel .dneg lg f rg X Y ↔ P.aggRel .dneg lg f rg Y Y

/-- the covered part of a model is a here-and-there model below it -/
theorem bodySat_append_lits (G : String → Prop) (e : Env) (H T : Interp) (B : List BLit) (c : List Lit) :
    bodySat P G e H T (B ++ c.map BLit.lit) ↔ bodySat P G e H T B ∧ litsSat P G e H T c := by
  induction c with
  | nil => simp [bodySat, litsSat]
  | cons x xs ih =>
    simp only [bodySat, List.map_cons, List.mem_append, List.mem_cons, List.mem_map, litsSat] at ih ⊢
    constructor
    · intro h
      have h1 := ih.mp (fun l hl => h l (hl.elim Or.inl (fun ⟨y, hy, hyl⟩ => Or.inr (Or.inr ⟨y, hy, hyl⟩))))
      exact ⟨h1.1, by simpa [blitSat] using h (.lit x) (Or.inr (Or.inl rfl)), h1.2⟩
    · rintro ⟨hB, hx, hxs⟩ l hl
      rcases hl with hl | rfl | ⟨y, hy, rfl⟩
      · exact hB l hl
      · simpa [blitSat] using hx
      · exact (ih.mpr ⟨hB, hxs⟩) _ (Or.inr ⟨y, hy, rfl⟩)

theorem covered_models (hp : AggPersistent P) (hdn : DnegT P) (dn : DomMap) (prg : Prog) (hc : Covered P dn prg) (T : Interp)
    (hT : Models (stdParams P) prg T T) : Models (stdParams P) prg (covered dn T) T := by
  intro s hs
  cases s with
  | rule l c h B =>
    have hrc := hc _ hs l c h B rfl
    have hTs := hT _ hs
    simp only [stmSat, stdParams_headSat, stdParams_toParams] at hTs ⊢
    intro e
    refine ⟨?_, (hTs e).2⟩
    intro hB
    have hBT : bodySat P _ e T T B := bodySat_pers P hp _ e _ T (covered_sub dn T) B hB
    have hhT := (hTs e).2 hBT
    rcases hrc.other with ⟨q, args, rfl⟩ | ⟨lg, elems, rg, rfl⟩ | ⟨s, a, rfl, hs', t, rfl⟩ | ⟨s, t, gs, rfl⟩ | ⟨s, b, rfl⟩ | ⟨hav, _⟩
    · -- plain positive head
      simp only [stdHeadSat, headLitSat] at hhT ⊢
      intro a ha
      refine ⟨hhT a ha, ?_⟩
      intro d hd
      obtain ⟨name, args', ext, ht, hn, hl⟩ := groundAtom_name P e _ a ha
      cases ht
      rw [hn, hl] at hd
      obtain ⟨l', c', B', hmem, hdom⟩ := hrc.plain q args d rfl hd
      have hB' : bodySat P _ e T T B' := fun x hx => domLit_sat P hp dn _ _ B x (hdom x hx) e T hB
      have := (hT _ hmem)
      simp only [stmSat, stdParams_headSat, stdParams_toParams, stdHeadSat, headLitSat] at this
      have hd' := (this e).2 hB'
      simp only [groundAtom, Option.map_eq_some_iff] at ha
      obtain ⟨vals, hv, rfl⟩ := ha
      exact hd' ⟨d, vals⟩ (by simp [groundAtom, hv])
    · -- choice head
      simp only [stdHeadSat] at hhT ⊢
      refine ⟨?_, (hdn.old _ _ _ _).mpr hhT.2⟩
      intro cl hcl e' hag hcond
      by_cases hT1 : litSat P (fun v => v ∈ ruleGlobals (stdParams P) (Head.agg lg elems rg) B) e' T T cl.1
      · left
        rcases hrc.choice lg elems rg rfl cl hcl with hav | ⟨q, args, d, l', c', B', hlit, hd, hmem, hdom, hloc⟩
        · exact (litSat_indep P (qsig dn) (fun v => v ∈ ruleGlobals (stdParams P) (Head.agg lg elems rg) B) cl.1 hav e' (covered dn T) T T T (covered_agree dn T) (fun _ _ => Iff.rfl)).mpr hT1
        · -- a positive atom of a mapped predicate: its domain rule fires
          rw [hlit] at hT1 ⊢
          simp only [litSat, atomSat] at hT1 ⊢
          obtain ⟨a, ha, hTa⟩ := hT1
          refine ⟨a, ha, hTa, ?_⟩
          intro d' hd'
          obtain ⟨name, args', ext, ht, hn, hl⟩ := groundAtom_name P e' _ a ha
          cases ht
          rw [hn, hl, hd] at hd'
          cases hd'
          -- an environment that is `e'` on the element's variables and `e` elsewhere
          let ev := (condLitTerms cl).flatMap Term.vars
          let e2 : Env := patch ev e' e
          have hBe2 : bodySat P (fun v => v ∈ ruleGlobals (stdParams P) (Head.agg lg elems rg) B) e2 (covered dn T) T B := by
            apply (bodySat_congr P (fun v => v ∈ ruleGlobals (stdParams P) (Head.agg lg elems rg) B) (covered dn T) T B e e2 ?_).mp hB
            intro v hv
            simp only [e2, patch]
            by_cases hm : v ∈ ev
            · simp only [hm, if_true]
              by_cases hg : v ∈ ruleGlobals (stdParams P) (.agg lg elems rg) B
              · exact (hag v hg).symm
              · exact absurd hv (hloc v hm hg)
            · simp only [hm, if_false]
          have hcond2 : litsSat P (fun v => v ∈ ruleGlobals (stdParams P) (Head.agg lg elems rg) B) e2 (covered dn T) T cl.2 :=
            (litsSat_congr P (fun v => v ∈ ruleGlobals (stdParams P) (Head.agg lg elems rg) B) (covered dn T) T cl.2 e' e2 (fun v hv => patch_eq ev e' e v (by
              simp only [ev, condLitTerms, List.flatMap_append, List.mem_append]; exact Or.inr hv))).mp hcond
          have hall : bodySat P (fun v => v ∈ ruleGlobals (stdParams P) (Head.agg lg elems rg) B) e2 (covered dn T) T (B ++ cl.2.map BLit.lit) :=
            (bodySat_append_lits P (fun v => v ∈ ruleGlobals (stdParams P) (Head.agg lg elems rg) B) e2 (covered dn T) T B cl.2).mpr ⟨hBe2, hcond2⟩
          have hB' : bodySat P (fun v => v ∈ ruleGlobals (stdParams P) (Head.lit (Sign.pos, Atom.sym (Term.fn d args false))) B') e2 T T B' :=
            fun x hx => domLit_sat P hp dn _ _ _ x (hdom x hx) e2 T hall
          have := (hT _ hmem)
          simp only [stmSat, stdParams_headSat, stdParams_toParams, stdHeadSat, headLitSat] at this
          have hd2 := (this e2).2 hB'
          simp only [groundAtom, Option.map_eq_some_iff] at ha
          obtain ⟨vals, hv, rfl⟩ := ha
          have hv2 : evalTerms P e2 args = some vals := by
            rw [← evalTerms_congr P e' e2 args (fun v hv' => patch_eq ev e' e v (by
              simp only [ev, condLitTerms, List.flatMap_append, List.mem_append]
              left; rw [hlit]; simpa [litTerms, Atom.terms, Term.vars] using hv'))]
            exact hv
          exact hd2 ⟨d, vals⟩ (by simp [groundAtom, hv2])
      · exact Or.inr hT1
    · -- negated / doubly negated symbolic head literal: evaluated in `T`
      cases s with
      | pos => exact absurd rfl hs'
      | neg => simpa only [stdHeadSat, headLitSat] using hhT
      | dneg => simpa only [stdHeadSat, headLitSat] using hhT
    · cases s <;> simpa only [stdHeadSat, headLitSat, litSat, atomSat] using hhT
    · cases s <;> simpa only [stdHeadSat, headLitSat, litSat, atomSat] using hhT
    · exact (stdHeadSat_indep P (qsig dn) _ h hav e (covered dn T) T T T (covered_agree dn T)
        (fun _ _ => Iff.rfl)).mpr hhT
  | _ => simp only [stmSat]

/-- **domains over-approximate**: in every stable model, an atom of a mapped predicate comes with its domain atom -/
theorem dom_overapprox (hp : AggPersistent P) (hdn : DnegT P) (dn : DomMap) (prg : Prog) (hc : Covered P dn prg) (T : Interp)
    (hT : Stable (stdParams P) prg T) :
    ∀ a d, T a → dn a.name a.args.length = some d → T ⟨d, a.args⟩ := by
  intro a d ha hd
  apply Classical.byContradiction
  intro hnot
  apply hT.2 (covered dn T) (covered_sub dn T) ⟨a, ha, fun hcov => hnot (hcov.2 d hd)⟩
  exact covered_models P hp hdn dn prg hc T hT.1

/-! ## the executable check -/

/-- the map given as an association list `((p, n), dom name)` -/
def mapOf (m : List ((String × Nat) × String)) : DomMap := fun n k => (m.find? fun x => x.1.1 == n && x.1.2 == k).map (·.2)

def iffB (a b : Bool) : Bool := a == b

def domLitCheck (m : List ((String × Nat) × String)) (Gl Gl' : List String) (B : List BLit) (l' : BLit) : Bool :=
  (blitMem l' B && (blitScoped l').all fun v => iffB (Gl.contains v) (Gl'.contains v)) ||
  (match l' with
   | .lit (.pos, .sym (.fn d args false)) =>
     m.any fun x => x.2 == d && x.1.2 == args.length && mapOf m x.1.1 args.length == some d && blitMem (posAtom x.1.1 args) B
   | _ => false)

theorem domLitCheck_sound (m : List ((String × Nat) × String)) (Gl Gl' : List String) (B : List BLit) (l' : BLit)
    (h : domLitCheck m Gl Gl' B l' = true) : DomLit (mapOf m) (fun v => v ∈ Gl) (fun v => v ∈ Gl') B l' := by
  simp only [domLitCheck, Bool.or_eq_true, Bool.and_eq_true, List.all_eq_true] at h
  rcases h with ⟨h1, h2⟩ | h
  · left
    refine ⟨blitMem_mem h1, fun v hv => ?_⟩
    have := h2 v hv
    simp only [iffB, beq_iff_eq] at this
    show v ∈ Gl ↔ v ∈ Gl'
    rw [← List.contains_iff_mem, ← List.contains_iff_mem, this]
  · right
    split at h
    · rename_i d args
      simp only [List.any_eq_true, Bool.and_eq_true, beq_iff_eq] at h
      obtain ⟨x, _, ⟨⟨⟨_, _⟩, h3⟩, h4⟩⟩ := h
      exact ⟨x.1.1, args, d, rfl, blitMem_mem h4, h3⟩
    · cases h

/-- the literal shapes of the fifth alternative and `headAvoids`, decided -/
def headOtherCheck (m : List ((String × Nat) × String)) : Head → Bool
  | .lit (.pos, .sym (.fn _ _ false)) => true
  | .agg _ _ _ => true
  | .lit (.neg, .sym _) => true
  | .lit (.dneg, .sym _) => true
  | .lit (_, .cmp _ _) => true
  | .lit (_, .bool _) => true
  | .lit _ => false
  | h => headAvoids (qsig (mapOf m)) h

theorem headOtherCheck_sound (m : List ((String × Nat) × String)) (h : Head) (hc : headOtherCheck m h = true) :
    (∃ q args, h = .lit (.pos, .sym (.fn q args false))) ∨ (∃ lg elems rg, h = .agg lg elems rg) ∨
    (∃ s a, h = .lit (s, a) ∧ s ≠ .pos ∧ (∃ t, a = .sym t)) ∨
    (∃ s t gs, h = .lit (s, .cmp t gs)) ∨ (∃ s b, h = .lit (s, .bool b)) ∨
    (headAvoids (qsig (mapOf m)) h = true ∧ ∀ l, h ≠ .lit l) := by
  unfold headOtherCheck at hc
  split at hc
  · rename_i q args; exact Or.inl ⟨q, args, rfl⟩
  · rename_i lg es rg; exact Or.inr (Or.inl ⟨lg, es, rg, rfl⟩)
  · rename_i t; exact Or.inr (Or.inr (Or.inl ⟨.neg, _, rfl, by simp, t, rfl⟩))
  · rename_i t; exact Or.inr (Or.inr (Or.inl ⟨.dneg, _, rfl, by simp, t, rfl⟩))
  · rename_i s t gs; exact Or.inr (Or.inr (Or.inr (Or.inl ⟨s, t, gs, rfl⟩)))
  · rename_i s b; exact Or.inr (Or.inr (Or.inr (Or.inr (Or.inl ⟨s, b, rfl⟩))))
  · cases hc
  · rename_i h' hne1 hne2 hne3 hne4 hne5 hne6 hne7
    refine Or.inr (Or.inr (Or.inr (Or.inr (Or.inr ⟨hc, ?_⟩))))
    intro l hl
    subst hl
    exact hne7 l rfl

def globalsOf (h : Head) (B : List BLit) : List String := stdHeadGlobals h ++ bodyGlobals B

/-- the domain rule for the atom `q(args)` derived from the literals `src` (global variables `Gl`) is in the program -/
def hasDomRule (m : List ((String × Nat) × String)) (prg : Prog) (Gl : List String) (src : List BLit) (d : String)
    (args : List Term) : Bool :=
  prg.any fun s =>
    match s with
    | .rule _ _ (.lit (.pos, .sym (.fn d' args' false))) B' =>
      d' == d && termsEqb args' args &&
        B'.all fun x => domLitCheck m Gl (globalsOf (.lit (.pos, .sym (.fn d args false))) B') src x
    | _ => false

theorem hasDomRule_sound (m : List ((String × Nat) × String)) (prg : Prog) (Gl : List String) (src : List BLit) (d : String)
    (args : List Term) (h : hasDomRule m prg Gl src d args = true) :
    ∃ l' c' B', Stm.rule l' c' (.lit (.pos, .sym (.fn d args false))) B' ∈ prg ∧
      ∀ x ∈ B', DomLit (mapOf m) (fun v => v ∈ Gl)
        (fun v => v ∈ globalsOf (.lit (.pos, .sym (.fn d args false))) B') src x := by
  simp only [hasDomRule, List.any_eq_true] at h
  obtain ⟨s, hs, hm⟩ := h
  split at hm
  · rename_i l' c' d' args' B'
    simp only [Bool.and_eq_true, beq_iff_eq, List.all_eq_true] at hm
    obtain ⟨⟨rfl, hargs⟩, hall⟩ := hm
    have := termsEqb_eq _ _ hargs
    subst this
    exact ⟨l', c', B', hs, fun x hx => domLitCheck_sound m _ _ src x (hall x hx)⟩
  · cases hm

def ruleCoveredCheck (m : List ((String × Nat) × String)) (prg : Prog) (h : Head) (B : List BLit) : Bool :=
  headOtherCheck m h &&
  (match h with
   | .lit (.pos, .sym (.fn q args false)) =>
     (match mapOf m q args.length with
      | some d => hasDomRule m prg (globalsOf h B) B d args
      | none => true)
   | .agg _ elems _ =>
     elems.all fun c =>
       atomAvoids (qsig (mapOf m)) c.1.2 ||
       (match c.1 with
        | (.pos, .sym (.fn q args false)) =>
          (match mapOf m q args.length with
           | some d => hasDomRule m prg (globalsOf h B) (B ++ c.2.map BLit.lit) d args &&
               ((condLitTerms c).flatMap Term.vars).all fun v =>
                 (globalsOf h B).contains v || !(B.flatMap BLit.vars).contains v
           | none => false)
        | _ => false)
   | _ => true)

def coveredCheck (m : List ((String × Nat) × String)) (prg : Prog) : Bool :=
  prg.all fun s =>
    match s with
    | .rule _ _ h B => ruleCoveredCheck m prg h B
    | _ => true

theorem globalsOf_eq (h : Head) (B : List BLit) : ruleGlobals (stdParams P) h B = globalsOf h B := rfl

theorem ruleCoveredCheck_sound (m : List ((String × Nat) × String)) (prg : Prog) (l c : Nat) (h : Head) (B : List BLit)
    (hc : ruleCoveredCheck m prg h B = true) : RuleCovered P (mapOf m) prg l c h B := by
  simp only [ruleCoveredCheck, Bool.and_eq_true] at hc
  obtain ⟨ho, hm⟩ := hc
  refine ⟨?_, ?_, headOtherCheck_sound m h ho⟩
  · intro q args d hh hd
    subst hh
    simp only [hd] at hm
    simp only [globalsOf_eq]
    exact hasDomRule_sound m prg _ B d args hm
  · intro lg elems rg hh cl hcl
    subst hh
    simp only [List.all_eq_true, Bool.or_eq_true] at hm
    rcases hm cl hcl with hav | hq
    · exact Or.inl hav
    · right
      split at hq
      · rename_i q args heq
        split at hq
        · rename_i d hd
          simp only [Bool.and_eq_true, List.all_eq_true, Bool.or_eq_true, Bool.not_eq_true', List.contains_iff_mem] at hq
          obtain ⟨l', c', B', hmem, hdom⟩ := hasDomRule_sound m prg _ _ d args hq.1
          refine ⟨q, args, d, l', c', B', heq, hd, hmem, ?_, ?_⟩
          · simpa only [globalsOf_eq] using hdom
          · intro v hv hng hvB
            rcases hq.2 v hv with h1 | h1
            · exact hng (by simpa only [globalsOf_eq] using h1)
            · have : (B.flatMap BLit.vars).contains v = true := List.contains_iff_mem.mpr hvB
              rw [h1] at this; cases this
        · cases hq
      · cases hq

theorem coveredCheck_sound (m : List ((String × Nat) × String)) (prg : Prog) (h : coveredCheck m prg = true) :
    Covered P (mapOf m) prg := by
  intro s hs l c hd B heq
  subst heq
  simp only [coveredCheck, List.all_eq_true] at h
  exact ruleCoveredCheck_sound P m prg l c hd B (h _ hs)

/-- **from the executable check**: in every answer set of a program that passes `coveredCheck`, every atom of a mapped
predicate comes with its domain atom -/
theorem dom_overapprox_of_check (hp : AggPersistent P) (hdn : DnegT P) (m : List ((String × Nat) × String)) (prg : Prog)
    (hc : coveredCheck m prg = true) (T : Interp) (hT : Stable (stdParams P) prg T) :
    ∀ a d, T a → mapOf m a.name a.args.length = some d → T ⟨d, a.args⟩ :=
  dom_overapprox P hp hdn (mapOf m) prg (coveredCheck_sound P m prg hc) T hT

end NgoVerif.Proofs.C20dom
