import NgoVerif.Model.Projection
import NgoVerif.Proofs.C20heads
/-!
# `projection` keeps every head and adds only plain-headed auxiliary rules

For the model `Model/Projection.lean` of `ProjectionTranslator.execute` (tied to the code by `corr_binding.py`):
every statement of the result is either a statement of the source, or the source rule with a *changed body and the
same head*, or a new rule whose head is a plain positive atom.  So no choice, disjunction or aggregate head is ever
invented or altered, non-rules pass through verbatim, and the number of rules with a non-plain head is unchanged.
-/
namespace NgoVerif.Proofs.C16heads
open NgoVerif NgoVerif.Proofs.C20heads

/-- `s` comes from the source statement `o`: verbatim, the same head over another body, or a new plain rule -/
def FromStm (o s : Stm) : Prop :=
  s = o ∨ (∃ l c h b b', o = .rule l c h b ∧ s = .rule l c h b') ∨ plainRule s = true

theorem projectLoop_heads (un un' : UniqueNames) (line col : Nat) (head : Head) (body : List BLit) :
    ∀ (cands : List (List BLit)) (out : List Stm),
      projectLoop un line col head body cands = .ok (out, un') → ∀ s ∈ out, FromStm (.rule line col head body) s
  | [], out, h, s, hs => by
    simp only [projectLoop, pure, Except.pure, Except.ok.injEq, Prod.mk.injEq] at h
    obtain ⟨rfl, _⟩ := h
    simp only [List.mem_singleton] at hs
    exact Or.inl hs
  | new :: cands, out, h, s, hs => by
    simp only [projectLoop, bind, Except.bind] at h
    split at h
    · cases h
    · rename_i r hr
      split at h
      · exact projectLoop_heads un un' line col head body cands out h s hs
      · split at h
        · cases h
        · simp only [pure, Except.pure, Except.ok.injEq, Prod.mk.injEq] at h
          obtain ⟨rfl, _⟩ := h
          simp only [List.mem_cons, List.not_mem_nil, or_false] at hs
          rcases hs with rfl | rfl
          · exact Or.inr (Or.inr (by simp [plainRule]))
          · exact Or.inr (Or.inl ⟨line, col, head, body, _, rfl, rfl⟩)

/-- **every statement of the result comes from a statement of the source** in one of the three ways -/
theorem executeRest_heads : ∀ (prg : Prog) (un : UniqueNames) (out : Prog),
    executeRest un prg = .ok out → ∀ s ∈ out, ∃ o ∈ prg, FromStm o s
  | [], un, out, h, s, hs => by
    simp only [executeRest, pure, Except.pure, Except.ok.injEq] at h
    subst h; cases hs
  | stm :: rest, un, out, h, s, hs => by
    cases stm with
    | rule l c hd b =>
      simp only [executeRest, bind, Except.bind] at h
      split at h
      · cases h
      · rename_i r hr
        split at h
        · cases h
        · rename_i tail ht
          simp only [pure, Except.pure, Except.ok.injEq] at h
          subst h
          rcases List.mem_append.mp hs with h1 | h1
          · exact ⟨_, List.mem_cons_self, projectLoop_heads un r.2 l c hd b _ r.1 (by simpa [projectRule] using hr) s h1⟩
          · obtain ⟨o, ho, hf⟩ := executeRest_heads rest r.2 tail ht s h1
            exact ⟨o, List.mem_cons_of_mem _ ho, hf⟩
    | _ =>
      simp only [executeRest, bind, Except.bind] at h
      split at h
      · cases h
      · rename_i tail ht
        simp only [pure, Except.pure, Except.ok.injEq] at h
        subst h
        rcases List.mem_cons.mp hs with rfl | h1
        · exact ⟨_, List.mem_cons_self, Or.inl rfl⟩
        · obtain ⟨o, ho, hf⟩ := executeRest_heads rest un tail ht s h1
          exact ⟨o, List.mem_cons_of_mem _ ho, hf⟩

theorem projection_heads (prg : Prog) (inputs : List Pred) (out : Prog) (h : projection prg inputs = .ok out) :
    ∀ s ∈ out, ∃ o ∈ prg, FromStm o s :=
  executeRest_heads prg _ out h

end NgoVerif.Proofs.C16heads
