import NgoVerif.Proofs.C08anon
/-!
# `cleanup` in an objective: deleting a weaker copy of a body literal keeps the cost tuples

`:~ …, p(s̄), p(t̄), … . [w@p, t̄']` and the statement without `p(t̄)` contribute the same ground tuples in EVERY total
interpretation (`t̄` is `s̄` with some arguments replaced by distinct variables that occur nowhere else in the statement).
-/
namespace NgoVerif.Proofs.C08anonObj
open NgoVerif NgoVerif.Sem NgoVerif.Proofs.C08anon

variable (P : PParams)

structure ObjAnon where
  line : Nat
  col : Nat
  weight : Term
  prio : Term
  terms : List Term
  body : List BLit          -- the body after the deletion
  pn : String
  sargs : List Term
  targs : List Term
  F : List String

namespace ObjAnon
def pLit (A : ObjAnon) : BLit := .lit (.pos, .sym (.fn A.pn A.sargs false))
def qLit (A : ObjAnon) : BLit := .lit (.pos, .sym (.fn A.pn A.targs false))
def src (A : ObjAnon) : Stm := .minimize A.line A.col A.weight A.prio A.terms (A.qLit :: A.body)
def res (A : ObjAnon) : Stm := .minimize A.line A.col A.weight A.prio A.terms A.body
def tupleVars (A : ObjAnon) : List String := (A.weight :: A.prio :: A.terms).flatMap Term.vars
end ObjAnon

structure Ok (A : ObjAnon) : Prop where
  pmem : A.pLit ∈ A.body
  len : A.targs.length = A.sargs.length
  fresh : ∀ v ∈ A.F, v ∉ A.body.flatMap BLit.vars ∧ v ∉ A.tupleVars
  pos : ∀ p ∈ A.targs.zip A.sargs, p.1 = p.2 ∨ isFresh A.F p.1 = true
  nodup : (A.targs.filter (isFresh A.F)).Nodup

theorem obj_costTuples (A : ObjAnon) (hok : Ok A) (T : Interp) (tup : Sym × Sym × List Sym) :
    costTuples P T A.src tup ↔ costTuples P T A.res tup := by
  obtain ⟨hp, hlen, hfresh, hpos, hnd⟩ := hok
  obtain ⟨wv, pv, tv⟩ := tup
  have hFs : ∀ v ∈ A.F, v ∉ A.sargs.flatMap Term.vars := by
    intro v hvF hmem
    apply (hfresh v hvF).1
    rw [List.mem_flatMap]
    exact ⟨A.pLit, hp, by simpa [ObjAnon.pLit, BLit.vars, BLit.terms, litTerms, Atom.terms, Term.vars] using hmem⟩
  -- the sets of global variables differ on `F` only
  have hG : ∀ v, v ∉ A.F → (v ∈ bodyGlobals (A.qLit :: A.body) ++ A.tupleVars ↔ v ∈ bodyGlobals A.body ++ A.tupleVars) := by
    intro v hvF
    simp only [bodyGlobals, List.flatMap_cons, List.mem_append]
    constructor
    · rintro ((h2 | h3) | h4)
      · left
        have hv : v ∈ A.targs.flatMap Term.vars := by
          simpa [ObjAnon.qLit, blitGlobals, litVars, litTerms, Atom.terms, Term.vars] using h2
        obtain ⟨t, ht, hvt⟩ := List.mem_flatMap.mp hv
        obtain ⟨k, hk, hkt⟩ := List.getElem_of_mem ht
        have hk2 : k < A.sargs.length := by omega
        have hpk := hpos (A.targs[k], A.sargs[k]) (by
          rw [List.mem_iff_getElem]
          exact ⟨k, by simp [List.length_zip]; omega, by simp⟩)
        rcases hpk with heq | hfr
        · simp only at heq
          rw [List.mem_flatMap]
          refine ⟨A.pLit, hp, ?_⟩
          have : v ∈ A.sargs.flatMap Term.vars := by
            rw [List.mem_flatMap]
            exact ⟨A.sargs[k], List.getElem_mem hk2, by rw [← heq, hkt]; exact hvt⟩
          simpa [ObjAnon.pLit, blitGlobals, litVars, litTerms, Atom.terms, Term.vars] using this
        · simp only at hfr
          rw [hkt] at hfr
          cases t with
          | var v' =>
            have : v' = v := (by simpa [Term.vars] using hvt : v = v').symm
            subst this
            exact absurd (by simpa [isFresh] using hfr) hvF
          | sym _ => simp [isFresh] at hfr
          | un _ _ => simp [isFresh] at hfr
          | bin _ _ _ => simp [isFresh] at hfr
          | ival _ _ => simp [isFresh] at hfr
          | fn _ _ _ => simp [isFresh] at hfr
          | pool _ => simp [isFresh] at hfr
      · exact Or.inl h3
      · exact Or.inr h4
    · rintro (h3 | h4)
      · exact Or.inl (Or.inr h3)
      · exact Or.inr h4
  have hGbody : ∀ v ∈ bodyScoped A.body,
      (v ∈ bodyGlobals (A.qLit :: A.body) ++ A.tupleVars ↔ v ∈ bodyGlobals A.body ++ A.tupleVars) :=
    fun v hv => hG v (fun hvF => (hfresh v hvF).1 (scoped_sub_vars A.body v hv))
  simp only [ObjAnon.src, ObjAnon.res, costTuples]
  constructor
  · rintro ⟨e, hb, hw, hpr, hts⟩
    refine ⟨e, ?_, hw, hpr, hts⟩
    exact (bodySat_gcongr P.toParams _ _ T T A.body e hGbody).mp (fun l hl => hb l (List.mem_cons_of_mem _ hl))
  · rintro ⟨e, hb, hw, hpr, hts⟩
    have hpl := hb _ hp
    simp only [ObjAnon.pLit, blitSat, litSat, atomSat, groundAtom, Option.map_eq_some_iff] at hpl
    obtain ⟨a, ⟨vals, hv, rfl⟩, hX⟩ := hpl
    obtain ⟨e', hag, hev⟩ := exists_env P.toParams A.F e A.targs A.sargs vals hlen hv hpos hnd hFs
    have hagB : ∀ v ∈ A.body.flatMap BLit.vars, e' v = e v := fun v hv' => hag v (fun hvF => (hfresh v hvF).1 hv')
    have hagT : ∀ v ∈ A.tupleVars, e' v = e v := fun v hv' => hag v (fun hvF => (hfresh v hvF).2 hv')
    refine ⟨e', ?_, ?_, ?_, ?_⟩
    · intro l hl
      rcases List.mem_cons.mp hl with rfl | hl
      · simp only [ObjAnon.qLit, blitSat, litSat, atomSat, groundAtom, Option.map_eq_some_iff]
        exact ⟨_, ⟨vals, hev, rfl⟩, hX⟩
      · have h1 := (bodySat_gcongr P.toParams _ _ T T A.body e hGbody).mpr hb
        exact ((bodySat_congr P.toParams _ T T A.body e' e hagB).mpr h1) l hl
    · rw [evalTerm_congr P.toParams e' e A.weight (fun v hv' => hagT v (by simp [ObjAnon.tupleVars, hv']))]
      exact hw
    · rw [evalTerm_congr P.toParams e' e A.prio (fun v hv' => hagT v (by simp [ObjAnon.tupleVars, hv']))]
      exact hpr
    · rw [evalTerms_congr P.toParams e' e A.terms (fun v hv' => hagT v (by
        simp only [ObjAnon.tupleVars, List.flatMap_cons, List.mem_append]; exact Or.inr (Or.inr hv')))]
      exact hts

/-- the order (and multiplicity) of the body literals of an objective is immaterial -/
theorem costTuples_same_body (l c l' c' : Nat) (w p : Term) (ts : List Term) (b b' : List BLit) (hb : ∀ x, x ∈ b ↔ x ∈ b')
    (T : Interp) (tup : Sym × Sym × List Sym) :
    costTuples P T (.minimize l c w p ts b) tup ↔ costTuples P T (.minimize l' c' w p ts b') tup := by
  obtain ⟨wv, pv, tv⟩ := tup
  have hG : (fun v => v ∈ bodyGlobals b ++ (w :: p :: ts).flatMap Term.vars) =
      (fun v => v ∈ bodyGlobals b' ++ (w :: p :: ts).flatMap Term.vars) := by
    funext v
    apply propext
    simp only [bodyGlobals, List.mem_append, List.mem_flatMap]
    constructor
    · rintro (⟨x, hx, hv⟩ | h2)
      · exact Or.inl ⟨x, (hb x).mp hx, hv⟩
      · exact Or.inr h2
    · rintro (⟨x, hx, hv⟩ | h2)
      · exact Or.inl ⟨x, (hb x).mpr hx, hv⟩
      · exact Or.inr h2
  simp only [costTuples, hG]
  constructor
  · rintro ⟨e, hbody, h1, h2, h3⟩
    exact ⟨e, fun x hx => hbody x ((hb x).mpr hx), h1, h2, h3⟩
  · rintro ⟨e, hbody, h1, h2, h3⟩
    exact ⟨e, fun x hx => hbody x ((hb x).mp hx), h1, h2, h3⟩

def objCheck (A : ObjAnon) : Bool :=
  blitMem A.pLit A.body && A.targs.length == A.sargs.length &&
  A.F.all (fun v => !(A.body.flatMap BLit.vars).contains v && !A.tupleVars.contains v) &&
  (A.targs.zip A.sargs).all (fun p => termEqb p.1 p.2 || isFresh A.F p.1) && decide (freshNames A.F A.targs).Nodup

theorem objCheck_sound (A : ObjAnon) (h : objCheck A = true) : Ok A := by
  simp only [objCheck, Bool.and_eq_true, beq_iff_eq] at h
  obtain ⟨⟨⟨⟨h1, h2⟩, h3⟩, h4⟩, h5⟩ := h
  refine ⟨blitMem_mem h1, h2, ?_, ?_, nodup_fresh _ _ (by simpa using h5)⟩
  · intro v hv
    have := (List.all_eq_true.mp h3) v hv
    simp only [Bool.and_eq_true, Bool.not_eq_true'] at this
    refine ⟨fun hm => ?_, fun hm => ?_⟩
    · have h' := List.contains_iff_mem.mpr hm
      rw [this.1] at h'
      cases h'
    · have h' := List.contains_iff_mem.mpr hm
      rw [this.2] at h'
      cases h'
  · intro p hp
    have := (List.all_eq_true.mp h4) p hp
    simp only [Bool.or_eq_true] at this
    rcases this with h | h
    · exact Or.inl (termEqb_eq _ _ h)
    · exact Or.inr h

/-- **end to end**: the objective contributes the same cost tuples in every total interpretation -/
theorem obj_costs_of_check (A : ObjAnon) (h : objCheck A = true) (T : Interp) (tup : Sym × Sym × List Sym) :
    costTuples P T A.src tup ↔ costTuples P T A.res tup :=
  obj_costTuples P A (objCheck_sound A h) T tup

end NgoVerif.Proofs.C08anonObj
