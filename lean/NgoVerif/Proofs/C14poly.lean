import NgoVerif.Model.MathSimpPoly
import Mathlib.Tactic.Ring
/-!
# `math`: the polynomial normal form of the model is exact over the integers

`Model/MathSimpPoly.lean` mirrors `sympy.expand`: every comparison the pass looks at becomes an integer polynomial in
normal form (`Poly`), and what sympy returns is read back through `Tree.toPoly?`.  Here: the value of a polynomial
under EVERY integer assignment of its symbols, and the proof that addition, negation, subtraction, multiplication,
powers, constants, symbols, renaming-free reading of a sympy tree all commute with it.  Nothing is assumed about the
normal form (sortedness, non-zero coefficients): the identities hold for every list.
-/
namespace NgoVerif.MathSimp

abbrev Asg := String → Int

def evalMono (ρ : Asg) : Mono → Int
  | [] => 1
  | (n, k) :: rest => ρ n ^ k * evalMono ρ rest

def evalPoly (ρ : Asg) : Poly → Int
  | [] => 0
  | (m, c) :: rest => c * evalMono ρ m + evalPoly ρ rest

theorem evalMono_mul (ρ : Asg) (a b : Mono) : evalMono ρ (Mono.mul a b) = evalMono ρ a * evalMono ρ b := by
  fun_induction Mono.mul a b with
  | case1 b => simp [evalMono]
  | case2 a h => simp [evalMono]
  | case3 x i as y j bs hxy ih =>
    have : x = y := by simpa using hxy
    subst this
    simp only [evalMono, ih, pow_add]
    ring
  | case4 x i as y j bs hxy hlt ih =>
    simp only [evalMono, ih]
    ring
  | case5 x i as y j bs hxy hlt ih =>
    simp only [evalMono, ih]
    ring

theorem evalPoly_addTerm (ρ : Asg) (m : Mono) (c : Int) (p : Poly) :
    evalPoly ρ (addTerm m c p) = c * evalMono ρ m + evalPoly ρ p := by
  induction p with
  | nil =>
    simp only [addTerm]
    split
    · rename_i h
      have : c = 0 := by simpa using h
      simp [evalPoly, this]
    · simp [evalPoly]
  | cons t rest ih =>
    obtain ⟨m', c'⟩ := t
    simp only [addTerm]
    split
    · rename_i hm
      have hm' : m = m' := by simpa using hm
      subst hm'
      split
      · rename_i hz
        have hz' : c + c' = 0 := by simpa using hz
        simp only [evalPoly]
        have : c * evalMono ρ m + (c' * evalMono ρ m + evalPoly ρ rest) = (c + c') * evalMono ρ m + evalPoly ρ rest := by ring
        rw [this, hz']
        ring
      · simp only [evalPoly]
        ring
    · split
      · split
        · rename_i hz
          have hz' : c = 0 := by simpa using hz
          simp [evalPoly, hz']
        · simp only [evalPoly]
      · simp only [evalPoly, ih]
        ring

theorem evalPoly_foldl_addTerm (ρ : Asg) (f : Mono × Int → Mono × Int) (q : Poly) (acc : Poly) :
    evalPoly ρ (q.foldl (fun acc (t : Mono × Int) => addTerm (f t).1 (f t).2 acc) acc) =
      evalPoly ρ acc + evalPoly ρ (q.map f) := by
  induction q generalizing acc with
  | nil => simp [evalPoly]
  | cons t rest ih =>
    simp only [List.foldl_cons, List.map_cons, ih, evalPoly_addTerm]
    generalize f t = ft
    obtain ⟨m, c⟩ := ft
    simp only [evalPoly]
    ring

theorem evalPoly_add (ρ : Asg) (p q : Poly) : evalPoly ρ (p.add q) = evalPoly ρ p + evalPoly ρ q := by
  have := evalPoly_foldl_addTerm ρ id q p
  simpa [Poly.add] using this

theorem evalPoly_neg (ρ : Asg) (p : Poly) : evalPoly ρ p.neg = - evalPoly ρ p := by
  induction p with
  | nil => simp [Poly.neg, evalPoly]
  | cons t rest ih =>
    obtain ⟨m, c⟩ := t
    simp only [Poly.neg, List.map_cons, evalPoly] at ih ⊢
    rw [ih]
    ring

theorem evalPoly_sub (ρ : Asg) (p q : Poly) : evalPoly ρ (p.sub q) = evalPoly ρ p - evalPoly ρ q := by
  simp only [Poly.sub, evalPoly_add, evalPoly_neg]
  ring

theorem evalPoly_map_scale (ρ : Asg) (m : Mono) (c : Int) (q : Poly) :
    evalPoly ρ (q.map fun u => (Mono.mul m u.1, c * u.2)) = c * evalMono ρ m * evalPoly ρ q := by
  induction q with
  | nil => simp [evalPoly]
  | cons u rest ih =>
    simp only [List.map_cons, evalPoly, ih, evalMono_mul]
    ring

theorem evalPoly_mul_aux (ρ : Asg) (p q acc : Poly) :
    evalPoly ρ (p.foldl (fun acc (t : Mono × Int) =>
      q.foldl (fun acc2 (u : Mono × Int) => addTerm (Mono.mul t.1 u.1) (t.2 * u.2) acc2) acc) acc) =
      evalPoly ρ acc + evalPoly ρ p * evalPoly ρ q := by
  induction p generalizing acc with
  | nil => simp [evalPoly]
  | cons t rest ih =>
    simp only [List.foldl_cons, ih]
    have := evalPoly_foldl_addTerm ρ (fun u => (Mono.mul t.1 u.1, t.2 * u.2)) q acc
    simp only at this
    rw [this, evalPoly_map_scale]
    obtain ⟨m, c⟩ := t
    simp only [evalPoly]
    ring

theorem evalPoly_mul (ρ : Asg) (p q : Poly) : evalPoly ρ (p.mul q) = evalPoly ρ p * evalPoly ρ q := by
  have := evalPoly_mul_aux ρ p q []
  simpa [Poly.mul, evalPoly] using this

theorem evalPoly_const (ρ : Asg) (n : Int) : evalPoly ρ (Poly.const n) = n := by
  simp only [Poly.const]
  split
  · rename_i h
    have : n = 0 := by simpa using h
    simp [evalPoly, this]
  · simp [evalPoly, evalMono]

theorem evalPoly_sym (ρ : Asg) (s : String) : evalPoly ρ (Poly.sym s) = ρ s := by
  simp [Poly.sym, evalPoly, evalMono]

theorem evalPoly_pow (ρ : Asg) (p : Poly) (n : Nat) : evalPoly ρ (p.pow n) = evalPoly ρ p ^ n := by
  induction n with
  | zero => simp [Poly.pow, evalPoly_const]
  | succ k ih => simp only [Poly.pow, evalPoly_mul, ih, pow_succ]

/-- the value of a polynomial without symbols is what `const?` reads off -/
theorem evalPoly_const? (ρ : Asg) (p : Poly) (c : Int) (h : p.const? = some c) : evalPoly ρ p = c := by
  unfold Poly.const? at h
  split at h
  · cases h; simp [evalPoly]
  · cases h; simp [evalPoly, evalMono]
  · cases h

/-! ## sympy expression trees: the integer value of a (polynomial) tree, and `toPoly?` is exact -/

mutual
/-- the integer a tree denotes under `ρ`: defined for integers, symbols, sums, products and powers with a literal
non-negative exponent (rationals, other sympy classes and symbolic exponents have no integer reading) -/
def Tree.eval? (ρ : Asg) : Tree → Option Int
  | .int n => some n
  | .rat _ _ => none
  | .sym s => some (ρ s)
  | .add args => Tree.sumEval? ρ args
  | .mul args => Tree.prodEval? ρ args
  | .pow b e _ =>
    match e with
    | .int n => if n < 0 then none else (Tree.eval? ρ b).map fun x => x ^ n.toNat
    | _ => none
  | .other _ _ => none
def Tree.sumEval? (ρ : Asg) : List Tree → Option Int
  | [] => some 0
  | t :: ts => do
    let a ← Tree.eval? ρ t
    let b ← Tree.sumEval? ρ ts
    pure (a + b)
def Tree.prodEval? (ρ : Asg) : List Tree → Option Int
  | [] => some 1
  | t :: ts => do
    let a ← Tree.eval? ρ t
    let b ← Tree.prodEval? ρ ts
    pure (a * b)
end

mutual
theorem Tree.toPoly?_exact (ρ : Asg) : ∀ (t : Tree) (p : Poly), t.toPoly? = some p → Tree.eval? ρ t = some (evalPoly ρ p)
  | .int n, p, h => by
    simp only [Tree.toPoly?, Option.some.injEq] at h
    subst h
    simp [Tree.eval?, evalPoly_const]
  | .rat _ _, p, h => by simp [Tree.toPoly?] at h
  | .sym s, p, h => by
    simp only [Tree.toPoly?, Option.some.injEq] at h
    subst h
    simp [Tree.eval?, evalPoly_sym]
  | .add args, p, h => by
    simp only [Tree.toPoly?] at h
    simp only [Tree.eval?]
    exact Tree.sumPoly?_exact ρ args p h
  | .mul args, p, h => by
    simp only [Tree.toPoly?] at h
    simp only [Tree.eval?]
    exact Tree.prodPoly?_exact ρ args p h
  | .pow b e pos, p, h => by
    cases e with
    | int n =>
      simp only [Tree.toPoly?] at h
      split at h
      · cases h
      · rename_i hn
        simp only [Option.map_eq_some_iff] at h
        obtain ⟨q, hq, rfl⟩ := h
        have ih := Tree.toPoly?_exact ρ b q hq
        have hn0 : ¬ n < 0 := by
          intro hlt
          apply hn
          simp [hlt]
        simp only [Tree.eval?, hn0, if_false, ih, Option.map_some, evalPoly_pow]
    | rat _ _ => simp [Tree.toPoly?] at h
    | sym _ => simp [Tree.toPoly?] at h
    | add _ => simp [Tree.toPoly?] at h
    | mul _ => simp [Tree.toPoly?] at h
    | pow _ _ _ => simp [Tree.toPoly?] at h
    | other _ _ => simp [Tree.toPoly?] at h
  | .other _ _, p, h => by simp [Tree.toPoly?] at h
theorem Tree.sumPoly?_exact (ρ : Asg) : ∀ (ts : List Tree) (p : Poly), Tree.sumPoly? ts = some p →
    Tree.sumEval? ρ ts = some (evalPoly ρ p)
  | [], p, h => by
    simp only [Tree.sumPoly?, Option.some.injEq] at h
    subst h
    simp [Tree.sumEval?, evalPoly]
  | t :: ts, p, h => by
    cases hq : t.toPoly? with
    | none => simp [Tree.sumPoly?, hq] at h
    | some q =>
      cases hr : Tree.sumPoly? ts with
      | none => simp [Tree.sumPoly?, hq, hr] at h
      | some r =>
        simp only [Tree.sumPoly?, hq, hr, Option.bind_eq_bind, Option.bind_some, Option.pure_def, Option.some.injEq] at h
        subst h
        simp [Tree.sumEval?, Tree.toPoly?_exact ρ t q hq, Tree.sumPoly?_exact ρ ts r hr, evalPoly_add]
theorem Tree.prodPoly?_exact (ρ : Asg) : ∀ (ts : List Tree) (p : Poly), Tree.prodPoly? ts = some p →
    Tree.prodEval? ρ ts = some (evalPoly ρ p)
  | [], p, h => by
    simp only [Tree.prodPoly?, Option.some.injEq] at h
    subst h
    simp [Tree.prodEval?, evalPoly_const]
  | t :: ts, p, h => by
    cases hq : t.toPoly? with
    | none => simp [Tree.prodPoly?, hq] at h
    | some q =>
      cases hr : Tree.prodPoly? ts with
      | none => simp [Tree.prodPoly?, hq, hr] at h
      | some r =>
        simp only [Tree.prodPoly?, hq, hr, Option.bind_eq_bind, Option.bind_some, Option.pure_def, Option.some.injEq] at h
        subst h
        simp [Tree.prodEval?, Tree.toPoly?_exact ρ t q hq, Tree.prodPoly?_exact ρ ts r hr, evalPoly_mul]
end


end NgoVerif.MathSimp
