import NgoVerif.Proofs.C08anonCond
import NgoVerif.Proofs.C10stm
/-!
# `cleanup`: a weaker copy deleted inside a condition — statement level, from an executable check

`Proofs/C08anonCond.lean` lifted to rules: the body literal at one position is a conditional literal or a body aggregate,
one of its conditions loses the weaker copy.  The executable check receives the variables that occur in the rule outside
of the shortened condition; the fresh variables are in none of them, hence not global.
-/
namespace NgoVerif.Proofs.C08anonStm
open NgoVerif NgoVerif.Sem NgoVerif.Proofs.C08anon NgoVerif.Proofs.C08anonCond

variable (P : Params)

theorem blitGlobals_sub (b : BLit) : ∀ v ∈ blitGlobals b, v ∈ b.vars := by
  intro v hv
  cases b with
  | lit l =>
    obtain ⟨s, a⟩ := l
    cases a with
    | bagg ln cl lg f es rg =>
      simp only [blitGlobals] at hv
      simp only [BLit.vars, BLit.terms, litTerms, Atom.terms, List.flatMap_append, List.mem_append] at hv ⊢
      rcases hv with h | h
      · exact Or.inl (Or.inl h)
      · exact Or.inr h
    | agg lg es rg =>
      simp only [blitGlobals] at hv
      simp only [BLit.vars, BLit.terms, litTerms, Atom.terms, List.flatMap_append, List.mem_append] at hv ⊢
      rcases hv with h | h
      · exact Or.inl (Or.inl h)
      · exact Or.inr h
    | sym t => simpa [blitGlobals, litVars, BLit.vars, BLit.terms] using hv
    | cmp t gs => simpa [blitGlobals, litVars, BLit.vars, BLit.terms] using hv
    | bool b => simpa [blitGlobals, litVars, BLit.vars, BLit.terms] using hv
    | theory t => simpa [blitGlobals, litVars, BLit.vars, BLit.terms] using hv
  | clit c => simp [blitGlobals] at hv

theorem headGlobals_sub (h : Head) : ∀ v ∈ stdHeadGlobals h, v ∈ h.vars := by
  intro v hv
  cases h with
  | lit l => simpa [stdHeadGlobals, litVars, Head.vars, Head.terms] using hv
  | agg lg es rg =>
    simp only [stdHeadGlobals, List.flatMap_append, List.mem_append] at hv
    simp only [Head.vars, Head.terms, List.flatMap_append, List.mem_append]
    rcases hv with h | h
    · exact Or.inl (Or.inl h)
    · exact Or.inr h
  | hagg lg f es rg =>
    simp only [stdHeadGlobals, List.flatMap_append, List.mem_append] at hv
    simp only [Head.vars, Head.terms, List.flatMap_append, List.mem_append]
    rcases hv with h | h
    · exact Or.inl (Or.inl h)
    · exact Or.inr h
  | disj es => simp [stdHeadGlobals] at hv
  | theory t => simp [stdHeadGlobals] at hv

/-- what the rule's global variables can be drawn from: the head, the other body literals, and the variables `own` that
the rewritten literal itself contributes (its guards) -/
theorem ruleGlobals_sub (h : Head) (pre post : List BLit) (b' : BLit) (own : List String)
    (hown : ∀ v ∈ blitGlobals b', v ∈ own) :
    ∀ v, v ∈ ruleGlobals (stdParams P) h (pre ++ b' :: post) → v ∈ h.vars ++ (pre ++ post).flatMap BLit.vars ++ own := by
  intro v hv
  have hv' : v ∈ stdHeadGlobals h ++ bodyGlobals (pre ++ b' :: post) := hv
  simp only [bodyGlobals, List.flatMap_append, List.flatMap_cons, List.mem_append, List.mem_flatMap] at hv' ⊢
  rcases hv' with h1 | ⟨x, hx, hvx⟩ | h3 | ⟨x, hx, hvx⟩
  · exact Or.inl (Or.inl (headGlobals_sub h v h1))
  · exact Or.inl (Or.inr (Or.inl ⟨x, hx, blitGlobals_sub x v hvx⟩))
  · exact Or.inr (hown v h3)
  · exact Or.inl (Or.inr (Or.inr ⟨x, hx, blitGlobals_sub x v hvx⟩))

def sameLitList (a b : List Lit) : Bool := a.all (fun x => b.any (fun y => litEqb x y)) && b.all (fun x => a.any (fun y => litEqb x y))

theorem sameLitList_sound (a b : List Lit) (h : sameLitList a b = true) : ∀ x, x ∈ a ↔ x ∈ b := by
  simp only [sameLitList, Bool.and_eq_true, List.all_eq_true, List.any_eq_true] at h
  intro x
  constructor
  · intro hx
    obtain ⟨y, hy, he⟩ := h.1 x hx
    rw [litEqb_eq _ _ he]; exact hy
  · intro hx
    obtain ⟨y, hy, he⟩ := h.2 x hx
    rw [litEqb_eq _ _ he]; exact hy

/-! ## conditional literal -/

def outsideClit (h : Head) (pre post : List BLit) (hd : Lit) : List String :=
  h.vars ++ (pre ++ post).flatMap BLit.vars ++ litVars hd

/-- **a weaker copy deleted from the condition of a conditional literal of the body** -/
theorem clit_stmSat (A : CondAnon) (l c : Nat) (h : Head) (pre post : List BLit) (hd : Lit) (cfull : List Lit)
    (hsame : sameLitList cfull (A.qLit :: A.cond) = true) (hc : condCheck A (outsideClit h pre post hd) = true) (H T : Interp) :
    stmSat (stdParams P) H T (.rule l c h (pre ++ .clit (hd, cfull) :: post)) ↔
      stmSat (stdParams P) H T (.rule l c h (pre ++ .clit (hd, A.cond) :: post)) := by
  apply rule_replace_blit P l c h pre post (.clit (hd, cfull)) (.clit (hd, A.cond)) rfl
  intro e X T'
  simp only [blitSat]
  have hsub := ruleGlobals_sub P h pre post (.clit (hd, A.cond)) (litVars hd) (by simp [blitGlobals])
  have hok : OkC A (fun v => v ∈ ruleGlobals (stdParams P) h (pre ++ .clit (hd, A.cond) :: post)) (litVars hd) :=
    condCheck_sound A (outsideClit h pre post hd) _ (litVars hd) (fun v hv => hsub v hv)
      (fun v hv => by simp only [outsideClit, List.mem_append]; exact Or.inr hv) hc
  exact condLit_iff P A _ hd hok cfull (sameLitList_sound _ _ hsame) e X T'

/-! ## element of a body aggregate -/

def outsideBagg (h : Head) (pre post : List BLit) (lg rg : Option Guard) (epre epost : List BAggElem) (ts : List Term) :
    List String :=
  h.vars ++ (pre ++ post).flatMap BLit.vars ++
    ((optGuardTerms lg ++ optGuardTerms rg).flatMap Term.vars ++ (bElemsTerms (epre ++ epost)).flatMap Term.vars ++ ts.flatMap Term.vars)

/-- **a weaker copy deleted from the condition of an element of a body aggregate** -/
theorem bagg_stmSat (A : CondAnon) (l c : Nat) (h : Head) (pre post : List BLit) (s : Sign) (ln cl : Nat) (lg rg : Option Guard)
    (f : AggFun) (epre epost : List BAggElem) (ts : List Term) (cfull : List Lit)
    (hsame : sameLitList cfull (A.qLit :: A.cond) = true)
    (hc : condCheck A (outsideBagg h pre post lg rg epre epost ts) = true) (H T : Interp) :
    stmSat (stdParams P) H T (.rule l c h (pre ++ .lit (s, .bagg ln cl lg f (epre ++ (ts, cfull) :: epost) rg) :: post)) ↔
      stmSat (stdParams P) H T (.rule l c h (pre ++ .lit (s, .bagg ln cl lg f (epre ++ (ts, A.cond) :: epost) rg) :: post)) := by
  apply rule_replace_blit P l c h pre post _ _ (by simp [blitGlobals])
  intro e X T'
  simp only [blitSat]
  have hsub := ruleGlobals_sub P h pre post (.lit (s, .bagg ln cl lg f (epre ++ (ts, A.cond) :: epost) rg))
    ((optGuardTerms lg ++ optGuardTerms rg).flatMap Term.vars) (by intro v hv; simpa [blitGlobals] using hv)
  have hok : OkC A (fun v => v ∈ ruleGlobals (stdParams P) h (pre ++ .lit (s, .bagg ln cl lg f (epre ++ (ts, A.cond) :: epost) rg) :: post))
      (ts.flatMap Term.vars) := by
    refine condCheck_sound A (outsideBagg h pre post lg rg epre epost ts) _ (ts.flatMap Term.vars) ?_ ?_ hc
    · intro v hv
      have := hsub v hv
      simp only [outsideBagg, List.mem_append] at this ⊢
      rcases this with (h1 | h2) | h3
      · exact Or.inl (Or.inl h1)
      · exact Or.inl (Or.inr h2)
      · exact Or.inr (Or.inl (Or.inl (by simpa [List.mem_append] using h3)))
    · intro v hv
      simp only [outsideBagg, List.mem_append]
      exact Or.inr (Or.inr hv)
  exact baggLit_iff P A _ ts hok cfull (sameLitList_sound _ _ hsame) s ln cl lg rg f epre epost e X T'

end NgoVerif.Proofs.C08anonStm
