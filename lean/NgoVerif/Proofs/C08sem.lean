import NgoVerif.Sem.Denote
import NgoVerif.Model.Cleanup
/-!
# The boolean part of `cleanup` (`remove_boolean` as modelled in `Model/Cleanup.lean`) against the HT denotation:
`#true` literals are dropped, elements / conditional literals whose condition contains `#false` are dropped, and a
statement is dropped only if its body can never hold — for every environment, HT pair and semantic parameters.
-/
namespace NgoVerif.Proofs.C08sem
open NgoVerif NgoVerif.Sem NgoVerif.Cleanup

variable (P : Params)

theorem litTrue_sat (G : String → Prop) (e : Env) (H T : Interp) :
    ∀ l : Lit, litTrue l = true → litSat P G e H T l
  | (.pos, .bool b), h => by simpa [litTrue, litSat, atomSat] using h
  | (.dneg, .bool b), h => by simpa [litTrue, litSat, atomSat] using h
  | (.neg, .bool b), h => by simpa [litTrue, litSat, atomSat] using h
  | (_, .sym _), h => by simp [litTrue] at h
  | (_, .cmp _ _), h => by simp [litTrue] at h
  | (_, .bagg ..), h => by simp [litTrue] at h
  | (_, .agg ..), h => by simp [litTrue] at h
  | (_, .theory _), h => by simp [litTrue] at h

theorem litFalse_unsat (G : String → Prop) (e : Env) (H T : Interp) :
    ∀ l : Lit, litFalse l = true → ¬ litSat P G e H T l
  | (.pos, .bool b), h => by simpa [litFalse, litSat, atomSat] using h
  | (.dneg, .bool b), h => by simpa [litFalse, litSat, atomSat] using h
  | (.neg, .bool b), h => by simpa [litFalse, litSat, atomSat] using h
  | (_, .sym _), h => by simp [litFalse] at h
  | (_, .cmp _ _), h => by simp [litFalse] at h
  | (_, .bagg ..), h => by simp [litFalse] at h
  | (_, .agg ..), h => by simp [litFalse] at h
  | (_, .theory _), h => by simp [litFalse] at h

theorem removeTrueLits_sat (G : String → Prop) (e : Env) (H T : Interp) :
    ∀ c : List Lit, litsSat P G e H T (removeTrueLits c) ↔ litsSat P G e H T c
  | [] => by simp [removeTrueLits]
  | l :: ls => by
    have ih := removeTrueLits_sat G e H T ls
    unfold removeTrueLits at ih ⊢
    by_cases ht : litTrue l = true
    · simp only [List.filter_cons, ht, Bool.not_true, Bool.false_eq_true, if_false, litsSat, ih]
      exact ⟨fun h => ⟨litTrue_sat P G e H T l ht, h⟩, fun h => h.2⟩
    · simp only [List.filter_cons, ht, Bool.not_false, if_true, litsSat, ih]

theorem containsFalseLits_unsat (G : String → Prop) (e : Env) (H T : Interp) :
    ∀ c : List Lit, containsFalseLits c = true → ¬ litsSat P G e H T c
  | [], h => by simp [containsFalseLits] at h
  | l :: ls, h => by
    simp only [containsFalseLits, List.any_cons, Bool.or_eq_true] at h
    intro hs
    simp only [litsSat] at hs
    rcases h with h | h
    · exact litFalse_unsat P G e H T l h hs.1
    · exact containsFalseLits_unsat G e H T ls (by simpa [containsFalseLits] using h) hs.2

/-- element filtering of `cleanup_boolean_aggregates` keeps the contributed tuple set -/
theorem bTuples_clean (G : String → Prop) (e : Env) (H T : Interp) :
    ∀ (es : List (List Term × List Lit)) (tup : List Sym),
      bTuples P G e H T (es.filterMap fun (ts, cond) =>
          let cond' := removeTrueLits cond
          if containsFalseLits cond' then none else some (ts, cond')) tup ↔ bTuples P G e H T es tup
  | [], tup => by simp [bTuples]
  | (ts, c) :: es, tup => by
    have ih := bTuples_clean G e H T es tup
    simp only [List.filterMap_cons]
    by_cases hf : containsFalseLits (removeTrueLits c) = true
    · simp only [hf, if_true, bTuples, ih]
      constructor
      · exact Or.inr
      · rintro (⟨e', _, _, hc⟩ | h)
        · exact absurd ((removeTrueLits_sat P G e' H T c).mpr hc) (containsFalseLits_unsat P G e' H T _ hf)
        · exact h
    · simp only [hf, Bool.false_eq_true, if_false, bTuples, ih]
      constructor
      · rintro (⟨e', ha, ht, hc⟩ | h)
        · exact Or.inl ⟨e', ha, ht, (removeTrueLits_sat P G e' H T c).mp hc⟩
        · exact Or.inr h
      · rintro (⟨e', ha, ht, hc⟩ | h)
        · exact Or.inl ⟨e', ha, ht, (removeTrueLits_sat P G e' H T c).mpr hc⟩
        · exact Or.inr h

theorem cleanupBooleanAggregates_sat (G : String → Prop) (e : Env) (H T : Interp) (b : List BLit) :
    bodySat P G e H T (cleanupBooleanAggregates b) ↔ bodySat P G e H T b := by
  unfold cleanupBooleanAggregates bodySat
  simp only [List.mem_map]
  constructor
  · intro h l hl
    have := h _ ⟨l, hl, rfl⟩
    cases l with
    | clit c => exact this
    | lit l =>
      obtain ⟨s, a⟩ := l
      cases a with
      | bagg ln cl lg f es rg =>
        simp only [blitSat, litSat, atomSat] at this ⊢
        have h1 : bTuples P G e H H (es.filterMap fun (ts, cond) =>
            let cond' := removeTrueLits cond
            if containsFalseLits cond' then none else some (ts, cond')) = bTuples P G e H H es := by
          funext tup; exact propext (bTuples_clean P G e H H es tup)
        have h2 : bTuples P G e T T (es.filterMap fun (ts, cond) =>
            let cond' := removeTrueLits cond
            if containsFalseLits cond' then none else some (ts, cond')) = bTuples P G e T T es := by
          funext tup; exact propext (bTuples_clean P G e T T es tup)
        rw [h1, h2] at this; exact this
      | _ => exact this
  · rintro h _ ⟨l, hl, rfl⟩
    have := h l hl
    cases l with
    | clit c => exact this
    | lit l =>
      obtain ⟨s, a⟩ := l
      cases a with
      | bagg ln cl lg f es rg =>
        simp only [blitSat, litSat, atomSat] at this ⊢
        have h1 : bTuples P G e H H (es.filterMap fun (ts, cond) =>
            let cond' := removeTrueLits cond
            if containsFalseLits cond' then none else some (ts, cond')) = bTuples P G e H H es := by
          funext tup; exact propext (bTuples_clean P G e H H es tup)
        have h2 : bTuples P G e T T (es.filterMap fun (ts, cond) =>
            let cond' := removeTrueLits cond
            if containsFalseLits cond' then none else some (ts, cond')) = bTuples P G e T T es := by
          funext tup; exact propext (bTuples_clean P G e T T es tup)
        rw [h1, h2]; exact this
      | _ => exact this

theorem cleanupBooleanConditionals_sat (G : String → Prop) (e : Env) (H T : Interp) :
    ∀ b : List BLit, bodySat P G e H T (cleanupBooleanConditionals b) ↔ bodySat P G e H T b
  | [] => by simp [cleanupBooleanConditionals]
  | .lit l :: bs => by
    have ih := cleanupBooleanConditionals_sat G e H T bs
    unfold cleanupBooleanConditionals at ih ⊢
    simp only [List.filterMap_cons, bodySat, List.mem_cons, forall_eq_or_imp] at ih ⊢
    rw [ih]
  | .clit (l, c) :: bs => by
    have ih := cleanupBooleanConditionals_sat G e H T bs
    unfold cleanupBooleanConditionals at ih ⊢
    simp only [List.filterMap_cons]
    by_cases hf : containsFalseLits (removeTrueLits c) = true
    · simp only [hf, if_true]
      simp only [bodySat, List.mem_cons, forall_eq_or_imp] at ih ⊢
      rw [ih]
      refine ⟨fun h => ⟨?_, h⟩, fun h => h.2⟩
      intro e' _
      have hno : ∀ W W', ¬ litsSat P G e' W W' c := fun W W' hc =>
        containsFalseLits_unsat P G e' W W' _ hf ((removeTrueLits_sat P G e' W W' c).mpr hc)
      exact ⟨fun hc => absurd hc (hno H T), fun hc => absurd hc (hno T T)⟩
    · simp only [hf, Bool.false_eq_true, if_false]
      simp only [bodySat, List.mem_cons, forall_eq_or_imp] at ih ⊢
      rw [ih]
      simp only [blitSat, condLitSat, removeTrueLits_sat]

theorem blitTrue_sat (G : String → Prop) (e : Env) (H T : Interp) :
    ∀ l : BLit, blitTrue l = true → blitSat P G e H T l
  | .lit l, h => litTrue_sat P G e H T l (by simpa [blitTrue] using h)
  | .clit (l, []), h => by
    intro e' _
    have ht : litTrue l = true := by simpa [blitTrue] using h
    exact ⟨fun _ => litTrue_sat P G e' H T l ht, fun _ => litTrue_sat P G e' T T l ht⟩
  | .clit (l, _ :: _), h => by simp [blitTrue] at h

theorem blitFalse_unsat (G : String → Prop) (e : Env) (H T : Interp) :
    ∀ l : BLit, blitFalse l = true → ¬ blitSat P G e H T l
  | .lit l, h => litFalse_unsat P G e H T l (by simpa [blitFalse] using h)
  | .clit (l, []), h => by
    intro hs
    have hf : litFalse l = true := by simpa [blitFalse] using h
    have := (hs e (fun _ _ => rfl)).1 (by simp [litsSat])
    exact litFalse_unsat P G e H T l hf this
  | .clit (l, _ :: _), h => by simp [blitFalse] at h

theorem removeTrueBLits_sat (G : String → Prop) (e : Env) (H T : Interp) (b : List BLit) :
    bodySat P G e H T (removeTrueBLits b) ↔ bodySat P G e H T b := by
  unfold removeTrueBLits bodySat
  constructor
  · intro h l hl
    by_cases ht : blitTrue l = true
    · exact blitTrue_sat P G e H T l ht
    · exact h l (List.mem_filter.mpr ⟨hl, by simpa using ht⟩)
  · intro h l hl; exact h l (List.mem_filter.mp hl).1

theorem containsFalseBLits_unsat (G : String → Prop) (e : Env) (H T : Interp) (b : List BLit)
    (h : containsFalseBLits b = true) : ¬ bodySat P G e H T b := by
  unfold containsFalseBLits at h
  obtain ⟨l, hl, hf⟩ := List.any_eq_true.mp h
  exact fun hs => blitFalse_unsat P G e H T l hf (hs l hl)

/-- **`remove_boolean` on a body**: the cleaned body has the same denotation, and a body is discarded (statement
dropped) only if it can never hold -/
theorem removeBooleanBody_sound (G : String → Prop) (e : Env) (H T : Interp) (b : List BLit) :
    match removeBooleanBody b with
    | some b' => (bodySat P G e H T b' ↔ bodySat P G e H T b)
    | none => ¬ bodySat P G e H T b := by
  unfold removeBooleanBody
  simp only
  by_cases h : containsFalseBLits (removeTrueBLits (cleanupBooleanConditionals (cleanupBooleanAggregates b))) = true
  · simp only [h, if_true]
    intro hb
    have h1 := (cleanupBooleanAggregates_sat P G e H T b).mpr hb
    have h2 := (cleanupBooleanConditionals_sat P G e H T _).mpr h1
    have h3 := (removeTrueBLits_sat P G e H T _).mpr h2
    exact containsFalseBLits_unsat P G e H T _ h h3
  · simp only [h, Bool.false_eq_true, if_false]
    rw [removeTrueBLits_sat, cleanupBooleanConditionals_sat, cleanupBooleanAggregates_sat]

end NgoVerif.Proofs.C08sem
