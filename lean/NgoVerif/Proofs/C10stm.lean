import NgoVerif.Proofs.C16stm
import NgoVerif.Proofs.C11check
import NgoVerif.Sem.RenameStm
/-!
# `duplication`: factoring a literal set that occurs in several rules — for typed programs, from an executable check

The pass emits ONE auxiliary rule over canonical variable names, `aux(V̄) :- S.`, and replaces in every rule that
contains a renamed copy `σ S` of the set that copy by `aux(σ V̄)`.  For one place of use this is

* the rule split of `projection` (`Proofs/C16stm.lean`) when the auxiliary rule is new (`factor_first_sound`,
  `factor_first_complete`: answer sets correspond one-to-one, the source atoms are untouched), and
* a fold against the definition that is already there for every further place (`factor_next`: the SAME stable models),

once the canonical auxiliary rule is identified with its renamed copy (`Sem/RenameStm.lean`: a rule with a variable-atom
head means the same after a bijective renaming of its variables).  All under the standard head semantics, each
statement under its own global variables, for every parameter choice with persistent aggregates.
-/
namespace NgoVerif.Proofs.C10stm
open NgoVerif NgoVerif.Sem NgoVerif.Proofs.C16sem NgoVerif.Proofs.C16stm

variable (P : Params)

/-- one place of use: the rule `head :- body.`, the canonical auxiliary rule `aux(V̄) :- Sb.` and the renaming -/
structure Use where
  line : Nat
  col : Nat
  head : Head
  body : List BLit
  rest : List BLit
  auxName : String
  V : List String
  Sb : List BLit
  σ : String → String
  la : Nat
  ca : Nat

namespace Use
def split (u : Use) : Split :=
  { line := u.line, col := u.col, head := u.head, body := u.body, new := renameBody u.σ u.Sb, rest := u.rest,
    vs := u.V.map u.σ, auxName := u.auxName }
/-- the auxiliary rule as the pass emits it -/
def canon (u : Use) : Stm := .rule u.la u.ca (varAtomHead u.auxName u.V) u.Sb
end Use

theorem auxRule_eq (u : Use) : u.split.auxRule = .rule 1 1 (varAtomHead u.auxName (u.V.map u.σ)) (renameBody u.σ u.Sb) := rfl

/-- the canonical auxiliary rule and its renamed copy have the same here-and-there models -/
theorem canon_iff_auxRule (u : Use) (hinv : ∀ v, u.σ (u.σ v) = v) (H T : Interp) :
    stmSat (stdParams P) H T u.canon ↔ stmSat (stdParams P) H T u.split.auxRule := by
  rw [auxRule_eq]
  exact auxRule_rename P u.σ hinv u.la u.ca 1 1 u.auxName u.V u.Sb H T

theorem models_swap (a a' : Stm) (h : ∀ H T, stmSat (stdParams P) H T a ↔ stmSat (stdParams P) H T a') (pre post : Prog) :
    StrongEq (stdParams P) (pre ++ a :: post) (pre ++ a' :: post) := by
  intro H T
  simp only [Models, List.mem_append, List.mem_cons]
  constructor
  · intro hm s hs
    rcases hs with hs | rfl | hs
    · exact hm s (Or.inl hs)
    · exact (h H T).mp (hm _ (Or.inr (Or.inl rfl)))
    · exact hm s (Or.inr (Or.inr hs))
  · intro hm s hs
    rcases hs with hs | rfl | hs
    · exact hm s (Or.inl hs)
    · exact (h H T).mpr (hm _ (Or.inr (Or.inl rfl)))
    · exact hm s (Or.inr (Or.inr hs))

/-- **a further place of use**: with the canonical auxiliary rule in the program, the rule containing the copy of the
literal set and the rule with the auxiliary atom in its place give the same stable models -/
theorem factor_next (hp : AggPersistent P) (u : Use) (hinv : ∀ v, u.σ (u.σ v) = v) (hok : Ok u.split) (pre post : Prog)
    (hctx : CtxOk u.split pre post) (T : Interp) :
    Stable (stdParams P) (pre ++ u.canon :: u.split.orig :: post) T ↔
      Stable (stdParams P) (pre ++ u.canon :: u.split.updRule :: post) T := by
  rw [(models_swap P u.canon u.split.auxRule (canon_iff_auxRule P u hinv) pre (u.split.orig :: post)).stable,
    (models_swap P u.canon u.split.auxRule (canon_iff_auxRule P u hinv) pre (u.split.updRule :: post)).stable]
  exact fold_existing_prog P hp u.split hok pre post hctx T

/-- **the first place of use, soundness**: every stable model of the source extends to one of the program with the
canonical auxiliary rule and the rewritten rule -/
theorem factor_first_sound (hp : AggPersistent P) (u : Use) (hinv : ∀ v, u.σ (u.σ v) = v) (hok : Ok u.split)
    (pre post : Prog) (hctx : CtxOk u.split pre post) (T : Interp)
    (hT : Stable (stdParams P) (pre ++ u.split.orig :: post) T) :
    Stable (stdParams P) (pre ++ u.canon :: u.split.updRule :: post)
      (extend (stdParams P) (fun v => v ∈ u.split.G0) u.split.syn T) := by
  rw [(models_swap P u.canon u.split.auxRule (canon_iff_auxRule P u hinv) pre (u.split.updRule :: post)).stable]
  exact split_sound_prog P hp u.split hok pre post hctx T hT

/-- **the first place of use, completeness** -/
theorem factor_first_complete (hp : AggPersistent P) (u : Use) (hinv : ∀ v, u.σ (u.σ v) = v) (hok : Ok u.split)
    (pre post : Prog) (hctx : CtxOk u.split pre post) (T' : Interp)
    (hT' : Stable (stdParams P) (pre ++ u.canon :: u.split.updRule :: post) T') :
    ∃ T, Stable (stdParams P) (pre ++ u.split.orig :: post) T ∧
      ∀ a, T' a ↔ extend (stdParams P) (fun v => v ∈ u.split.G0) u.split.syn T a := by
  rw [(models_swap P u.canon u.split.auxRule (canon_iff_auxRule P u hinv) pre (u.split.updRule :: post)).stable] at hT'
  exact split_complete_prog P hp u.split hok pre post hctx T' hT'

/-! ## the executable check -/

/-- the renaming determined by the canonical head variables and the arguments of the auxiliary atom at the place of use -/
def useOf (line col : Nat) (head : Head) (body rest : List BLit) (auxName : String) (V args : List String) (Sb : List BLit)
    (la ca : Nat) : Use :=
  { line := line, col := col, head := head, body := body, rest := rest, auxName := auxName, V := V, Sb := Sb,
    σ := C11check.swaps (V.zip args), la := la, ca := ca }

def dupCheck (u : Use) (pairs : List (String × String)) (pre post : Prog) : Bool :=
  C11check.involOk pairs && splitCheck u.split && ctxCheck u.split pre post

theorem dupCheck_sound (line col : Nat) (head : Head) (body rest : List BLit) (auxName : String) (V args : List String)
    (Sb : List BLit) (la ca : Nat) (pre post : Prog)
    (h : dupCheck (useOf line col head body rest auxName V args Sb la ca) (V.zip args) pre post = true) :
    (∀ v, (useOf line col head body rest auxName V args Sb la ca).σ ((useOf line col head body rest auxName V args Sb la ca).σ v) = v) ∧
      Ok (useOf line col head body rest auxName V args Sb la ca).split ∧
      CtxOk (useOf line col head body rest auxName V args Sb la ca).split pre post := by
  simp only [dupCheck, Bool.and_eq_true] at h
  exact ⟨C11check.swaps_inv _ h.1.1, splitCheck_sound _ h.1.2, ctxCheck_sound _ pre post h.2⟩

end NgoVerif.Proofs.C10stm
