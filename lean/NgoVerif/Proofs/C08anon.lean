import NgoVerif.Sem.Head
import NgoVerif.Sem.DecEq
/-!
# `cleanup`: deleting a weaker copy of a body literal — a strong equivalence, for every program and every head

`h :- …, p(s̄), p(t̄), … .`  becomes  `h :- …, p(s̄), … .`  when `p(t̄)` is `p(s̄)` with some arguments replaced by variables
that occur nowhere else in the rule (what `p(X), p(_)` is once the anonymous variables are renamed apart): whatever
`p(s̄)` matches, `p(t̄)` matches too.  The two rules have the same here-and-there models under the standard head semantics,
so the rewrite is a strong equivalence in ANY program (no fragment, aggregates and conditional literals allowed everywhere).
-/
namespace NgoVerif.Proofs.C08anon
open NgoVerif NgoVerif.Sem

variable (P : Params)

structure Anon where
  line : Nat
  col : Nat
  head : Head
  body : List BLit          -- the body after the deletion
  pn : String
  sargs : List Term
  targs : List Term
  F : List String           -- the variables of `p(t̄)` that occur nowhere else

namespace Anon
def pLit (A : Anon) : BLit := .lit (.pos, .sym (.fn A.pn A.sargs false))
def qLit (A : Anon) : BLit := .lit (.pos, .sym (.fn A.pn A.targs false))
def src (A : Anon) : Stm := .rule A.line A.col A.head (A.qLit :: A.body)
def res (A : Anon) : Stm := .rule A.line A.col A.head A.body
end Anon

def isFresh (F : List String) : Term → Bool
  | .var v => F.contains v
  | _ => false

structure Ok (A : Anon) : Prop where
  pmem : A.pLit ∈ A.body
  len : A.targs.length = A.sargs.length
  fresh : ∀ v ∈ A.F, v ∉ A.body.flatMap BLit.vars ∧ v ∉ A.head.vars
  pos : ∀ p ∈ A.targs.zip A.sargs, p.1 = p.2 ∨ isFresh A.F p.1 = true
  nodup : (A.targs.filter (isFresh A.F)).Nodup

def upd (e : Env) (v : String) (x : Sym) : Env := fun w => if w = v then x else e w

theorem evalTerm_upd (e : Env) (v : String) (x : Sym) (t : Term) (h : v ∉ t.vars) :
    evalTerm P (upd e v x) t = evalTerm P e t := by
  apply evalTerm_congr
  intro w hw
  simp only [upd]
  split
  · rename_i hwv; subst hwv; exact absurd hw h
  · rfl

theorem evalTerms_upd (e : Env) (v : String) (x : Sym) (ts : List Term) (h : v ∉ ts.flatMap Term.vars) :
    evalTerms P (upd e v x) ts = evalTerms P e ts := by
  apply evalTerms_congr
  intro w hw
  simp only [upd]
  split
  · rename_i hwv; subst hwv; exact absurd hw h
  · rfl

theorem evalTerms_cons_some (e : Env) (t : Term) (ts : List Term) (vs : List Sym) (h : evalTerms P e (t :: ts) = some vs) :
    ∃ x xs, vs = x :: xs ∧ evalTerm P e t = some x ∧ evalTerms P e ts = some xs := by
  simp only [evalTerms] at h
  split at h
  · rename_i x xs hx hxs
    cases h
    exact ⟨x, xs, rfl, hx, hxs⟩
  · cases h

/-- an environment that differs from `e` on `F` only and gives `t̄` the values `s̄` has under `e` -/
theorem exists_env (F : List String) (e : Env) : ∀ (ts ss : List Term) (vals : List Sym), ts.length = ss.length →
    evalTerms P e ss = some vals → (∀ p ∈ ts.zip ss, p.1 = p.2 ∨ isFresh F p.1 = true) →
    (ts.filter (isFresh F)).Nodup → (∀ v ∈ F, v ∉ ss.flatMap Term.vars) →
    ∃ e' : Env, (∀ v, v ∉ F → e' v = e v) ∧ evalTerms P e' ts = some vals
  | [], [], vals, _, hv, _, _, _ => ⟨e, fun _ _ => rfl, by simpa [evalTerms] using hv⟩
  | [], _ :: _, _, hl, _, _, _, _ => by simp at hl
  | _ :: _, [], _, hl, _, _, _, _ => by simp at hl
  | t :: ts, s :: ss, vals, hl, hv, hpos, hnd, hF => by
    obtain ⟨x, xs, rfl, hx, hxs⟩ := evalTerms_cons_some P e s ss vals hv
    have hpos' : ∀ p ∈ ts.zip ss, p.1 = p.2 ∨ isFresh F p.1 = true :=
      fun p hp => hpos p (by simp only [List.zip_cons_cons, List.mem_cons]; exact Or.inr hp)
    have hF' : ∀ v ∈ F, v ∉ ss.flatMap Term.vars := by
      intro v hv' hmem
      exact hF v hv' (by simp only [List.flatMap_cons, List.mem_append]; exact Or.inr hmem)
    have hFs : ∀ v ∈ F, v ∉ s.vars := by
      intro v hv' hmem
      exact hF v hv' (by simp only [List.flatMap_cons, List.mem_append]; exact Or.inl hmem)
    by_cases hfr : isFresh F t = true
    · -- a fresh variable: set it to the value of `s`
      have hnd' : (ts.filter (isFresh F)).Nodup ∧ t ∉ ts.filter (isFresh F) := by
        simp only [List.filter_cons, hfr, if_true, List.nodup_cons] at hnd
        exact ⟨hnd.2, hnd.1⟩
      obtain ⟨e'', hag, hev⟩ := exists_env F e ts ss xs (by simpa using hl) hxs hpos' hnd'.1 hF'
      cases t with
      | var v =>
        have hvF : v ∈ F := by simpa [isFresh] using hfr
        refine ⟨upd e'' v x, ?_, ?_⟩
        · intro w hw
          simp only [upd]
          split
          · rename_i hwv; subst hwv; exact absurd hvF hw
          · exact hag w hw
        · have hnot : v ∉ ts.flatMap Term.vars := by
            intro hmem
            obtain ⟨t', ht', hvt'⟩ := List.mem_flatMap.mp hmem
            -- `t'` is a later argument that mentions `v`: it is either equal to its `s` (no fresh variable) or fresh itself
            obtain ⟨k, hk, hkt⟩ := List.getElem_of_mem ht'
            have hk2 : k < ss.length := by
              have : ts.length = ss.length := by simpa using hl
              omega
            have hp := hpos' (ts[k], ss[k]) (by
              rw [List.mem_iff_getElem]
              exact ⟨k, by simp [List.length_zip]; omega, by simp⟩)
            rcases hp with heq | hfr'
            · simp only at heq
              have : v ∈ ss.flatMap Term.vars := by
                rw [List.mem_flatMap]
                exact ⟨ss[k], List.getElem_mem hk2, by rw [← heq, hkt]; exact hvt'⟩
              exact hF' v hvF this
            · simp only at hfr'
              rw [hkt] at hfr'
              cases t' with
              | var v' =>
                have : v' = v := (by simpa [Term.vars] using hvt' : v = v').symm
                subst this
                exact hnd'.2 (List.mem_filter.mpr ⟨ht', hfr'⟩)
              | sym _ => simp [isFresh] at hfr'
              | un _ _ => simp [isFresh] at hfr'
              | bin _ _ _ => simp [isFresh] at hfr'
              | ival _ _ => simp [isFresh] at hfr'
              | fn _ _ _ => simp [isFresh] at hfr'
              | pool _ => simp [isFresh] at hfr'
          simp only [evalTerms, evalTerm, upd, if_true, evalTerms_upd P e'' v x ts hnot, hev]
      | sym _ => simp [isFresh] at hfr
      | un _ _ => simp [isFresh] at hfr
      | bin _ _ _ => simp [isFresh] at hfr
      | ival _ _ => simp [isFresh] at hfr
      | fn _ _ _ => simp [isFresh] at hfr
      | pool _ => simp [isFresh] at hfr
    · -- the same term as `s`
      have hts : t = s := by
        rcases hpos (t, s) (by simp) with h | h
        · exact h
        · exact absurd h hfr
      have hnd' : (ts.filter (isFresh F)).Nodup := by
        have hfr' : isFresh F t = false := by simpa using hfr
        simpa [List.filter_cons, hfr'] using hnd
      obtain ⟨e'', hag, hev⟩ := exists_env F e ts ss xs (by simpa using hl) hxs hpos' hnd' hF'
      refine ⟨e'', hag, ?_⟩
      have : evalTerm P e'' t = evalTerm P e s := by
        rw [hts]
        apply evalTerm_congr
        intro w hw
        apply hag w
        intro hwF
        exact hFs w hwF hw
      simp only [evalTerms, this, hx, hev]

theorem scoped_sub_vars (b : List BLit) : ∀ v ∈ bodyScoped b, v ∈ b.flatMap BLit.vars := by
  intro v hv
  simp only [bodyScoped, List.mem_flatMap] at hv ⊢
  obtain ⟨l, hl, hvl⟩ := hv
  refine ⟨l, hl, ?_⟩
  cases l with
  | lit la =>
    obtain ⟨s, a⟩ := la
    simp only [blitScoped] at hvl
    simpa [BLit.vars, BLit.terms, litTerms] using atomScoped_sub a v hvl
  | clit c => simpa [blitScoped, BLit.vars, BLit.terms] using hvl

/-- **the two rules have the same here-and-there models** -/
theorem anon_stmSat (A : Anon) (hok : Ok A) (H T : Interp) :
    stmSat (stdParams P) H T A.src ↔ stmSat (stdParams P) H T A.res := by
  obtain ⟨hp, hlen, hfresh, hpos, hnd⟩ := hok
  -- the global variables of the two rules differ on `F` only
  have hG : ∀ v, v ∉ A.F → (v ∈ ruleGlobals (stdParams P) A.head (A.qLit :: A.body) ↔ v ∈ ruleGlobals (stdParams P) A.head A.body) := by
    intro v hvF
    show v ∈ stdHeadGlobals A.head ++ bodyGlobals (A.qLit :: A.body) ↔ v ∈ stdHeadGlobals A.head ++ bodyGlobals A.body
    simp only [bodyGlobals, List.flatMap_cons, List.mem_append]
    constructor
    · rintro (h1 | h2 | h3)
      · exact Or.inl h1
      · right
        -- a variable of `t̄` outside `F` is a variable of the corresponding `s`, which `p(s̄)` in the body carries
        have hv : v ∈ A.targs.flatMap Term.vars := by
          simpa [Anon.qLit, blitGlobals, litVars, litTerms, Atom.terms, Term.vars] using h2
        obtain ⟨t, ht, hvt⟩ := List.mem_flatMap.mp hv
        obtain ⟨k, hk, hkt⟩ := List.getElem_of_mem ht
        have hk2 : k < A.sargs.length := by omega
        have hpk := hpos (A.targs[k], A.sargs[k]) (by
          rw [List.mem_iff_getElem]
          exact ⟨k, by simp [List.length_zip]; omega, by simp⟩)
        rcases hpk with heq | hfr
        · simp only at heq
          rw [List.mem_flatMap]
          refine ⟨A.pLit, hp, ?_⟩
          have : v ∈ A.sargs.flatMap Term.vars := by
            rw [List.mem_flatMap]
            exact ⟨A.sargs[k], List.getElem_mem hk2, by rw [← heq, hkt]; exact hvt⟩
          simpa [Anon.pLit, blitGlobals, litVars, litTerms, Atom.terms, Term.vars] using this
        · simp only at hfr
          rw [hkt] at hfr
          cases t with
          | var v' =>
            have : v' = v := (by simpa [Term.vars] using hvt : v = v').symm
            subst this
            exact absurd (by simpa [isFresh] using hfr) hvF
          | sym _ => simp [isFresh] at hfr
          | un _ _ => simp [isFresh] at hfr
          | bin _ _ _ => simp [isFresh] at hfr
          | ival _ _ => simp [isFresh] at hfr
          | fn _ _ _ => simp [isFresh] at hfr
          | pool _ => simp [isFresh] at hfr
      · exact Or.inr h3
    · rintro (h1 | h3)
      · exact Or.inl h1
      · exact Or.inr (Or.inr h3)
  have hGbody : ∀ v ∈ bodyScoped A.body, (v ∈ ruleGlobals (stdParams P) A.head (A.qLit :: A.body) ↔ v ∈ ruleGlobals (stdParams P) A.head A.body) :=
    fun v hv => hG v (fun hvF => (hfresh v hvF).1 (scoped_sub_vars A.body v hv))
  have hGhead : ∀ v ∈ A.head.vars, (v ∈ ruleGlobals (stdParams P) A.head (A.qLit :: A.body) ↔ v ∈ ruleGlobals (stdParams P) A.head A.body) :=
    fun v hv => hG v (fun hvF => (hfresh v hvF).2 hv)
  have hFs : ∀ v ∈ A.F, v ∉ A.sargs.flatMap Term.vars := by
    intro v hvF hmem
    apply (hfresh v hvF).1
    rw [List.mem_flatMap]
    exact ⟨A.pLit, hp, by simpa [Anon.pLit, BLit.vars, BLit.terms, litTerms, Atom.terms, Term.vars] using hmem⟩
  simp only [Anon.src, Anon.res, stmSat, stdParams_headSat, stdParams_toParams]
  -- one half (`X = H` or `X = T`) of the two directions
  have fwd : ∀ (X : Interp) (e : Env),
      (∀ e, bodySat P (fun v => v ∈ ruleGlobals (stdParams P) A.head (A.qLit :: A.body)) e X T (A.qLit :: A.body) →
        stdHeadSat P (fun v => v ∈ ruleGlobals (stdParams P) A.head (A.qLit :: A.body)) e X T A.head) →
      bodySat P (fun v => v ∈ ruleGlobals (stdParams P) A.head A.body) e X T A.body →
      stdHeadSat P (fun v => v ∈ ruleGlobals (stdParams P) A.head A.body) e X T A.head := by
    intro X e hsrc hb
    have hpl := hb _ hp
    simp only [Anon.pLit, blitSat, litSat, atomSat, groundAtom, Option.map_eq_some_iff] at hpl
    obtain ⟨a, ⟨vals, hv, rfl⟩, hX⟩ := hpl
    obtain ⟨e', hag, hev⟩ := exists_env P A.F e A.targs A.sargs vals hlen hv hpos hnd hFs
    have hagB : ∀ v ∈ A.body.flatMap BLit.vars, e' v = e v := fun v hv' => hag v (fun hvF => (hfresh v hvF).1 hv')
    have hagH : ∀ v ∈ A.head.vars, e' v = e v := fun v hv' => hag v (fun hvF => (hfresh v hvF).2 hv')
    have hb' : bodySat P (fun v => v ∈ ruleGlobals (stdParams P) A.head (A.qLit :: A.body)) e' X T (A.qLit :: A.body) := by
      intro l hl
      rcases List.mem_cons.mp hl with rfl | hl
      · simp only [Anon.qLit, blitSat, litSat, atomSat, groundAtom, Option.map_eq_some_iff]
        exact ⟨_, ⟨vals, hev, rfl⟩, hX⟩
      · have h1 := (bodySat_gcongr P _ _ X T A.body e hGbody).mpr hb
        exact ((bodySat_congr P _ X T A.body e' e hagB).mpr h1) l hl
    have hh := hsrc e' hb'
    exact (stdHeadSat_gcongr P _ _ X T A.head e hGhead).mp ((stdHeadSat_congr P _ X T A.head e' e hagH).mp hh)
  have bwd : ∀ (X : Interp) (e : Env),
      (bodySat P (fun v => v ∈ ruleGlobals (stdParams P) A.head A.body) e X T A.body →
        stdHeadSat P (fun v => v ∈ ruleGlobals (stdParams P) A.head A.body) e X T A.head) →
      bodySat P (fun v => v ∈ ruleGlobals (stdParams P) A.head (A.qLit :: A.body)) e X T (A.qLit :: A.body) →
      stdHeadSat P (fun v => v ∈ ruleGlobals (stdParams P) A.head (A.qLit :: A.body)) e X T A.head := by
    intro X e hres hb
    have hb' : bodySat P (fun v => v ∈ ruleGlobals (stdParams P) A.head A.body) e X T A.body :=
      (bodySat_gcongr P _ _ X T A.body e hGbody).mp (fun l hl => hb l (List.mem_cons_of_mem _ hl))
    exact (stdHeadSat_gcongr P _ _ X T A.head e hGhead).mpr (hres hb')
  constructor
  · intro h e
    exact ⟨fwd H e (fun e' => (h e').1), fwd T e (fun e' => (h e').2)⟩
  · intro h e
    exact ⟨bwd H e (h e).1, bwd T e (h e).2⟩

/-! ## the executable check -/

def fresh? (A : Anon) : Bool :=
  A.F.all fun v => !(A.body.flatMap BLit.vars).contains v && !A.head.vars.contains v

/-- the fresh variables among the arguments, as names -/
def freshNames (F : List String) : List Term → List String
  | [] => []
  | .var v :: ts => if F.contains v then v :: freshNames F ts else freshNames F ts
  | _ :: ts => freshNames F ts

theorem filter_fresh (F : List String) : ∀ ts : List Term, ts.filter (isFresh F) = (freshNames F ts).map Term.var
  | [] => rfl
  | t :: ts => by
    cases t with
    | var v =>
      simp only [List.filter_cons, isFresh, freshNames, filter_fresh F ts]
      split <;> simp
    | sym _ => simp [List.filter_cons, isFresh, freshNames, filter_fresh F ts]
    | un _ _ => simp [List.filter_cons, isFresh, freshNames, filter_fresh F ts]
    | bin _ _ _ => simp [List.filter_cons, isFresh, freshNames, filter_fresh F ts]
    | ival _ _ => simp [List.filter_cons, isFresh, freshNames, filter_fresh F ts]
    | fn _ _ _ => simp [List.filter_cons, isFresh, freshNames, filter_fresh F ts]
    | pool _ => simp [List.filter_cons, isFresh, freshNames, filter_fresh F ts]

theorem nodup_map_var : ∀ ns : List String, ns.Nodup → (ns.map Term.var).Nodup
  | [], _ => List.nodup_nil
  | n :: ns, h => by
    rw [List.nodup_cons] at h
    simp only [List.map_cons, List.nodup_cons, List.mem_map, not_exists, not_and]
    exact ⟨fun x hx hxe => by cases hxe; exact h.1 hx, nodup_map_var ns h.2⟩

theorem nodup_fresh (F : List String) (ts : List Term) (h : (freshNames F ts).Nodup) : (ts.filter (isFresh F)).Nodup := by
  rw [filter_fresh]
  exact nodup_map_var _ h

def anonCheck (A : Anon) : Bool :=
  blitMem A.pLit A.body && A.targs.length == A.sargs.length && fresh? A &&
  (A.targs.zip A.sargs).all (fun p => termEqb p.1 p.2 || isFresh A.F p.1) && decide (freshNames A.F A.targs).Nodup

theorem anonCheck_sound (A : Anon) (h : anonCheck A = true) : Ok A := by
  simp only [anonCheck, Bool.and_eq_true, beq_iff_eq] at h
  obtain ⟨⟨⟨⟨h1, h2⟩, h3⟩, h4⟩, h5⟩ := h
  refine ⟨blitMem_mem h1, h2, ?_, ?_, nodup_fresh _ _ (by simpa using h5)⟩
  · intro v hv
    simp only [fresh?, List.all_eq_true, Bool.and_eq_true, Bool.not_eq_true'] at h3
    have := h3 v hv
    refine ⟨fun hm => ?_, fun hm => ?_⟩
    · have h' := List.contains_iff_mem.mpr hm
      rw [this.1] at h'
      cases h'
    · have h' := List.contains_iff_mem.mpr hm
      rw [this.2] at h'
      cases h'
  · intro p hp
    have := (List.all_eq_true.mp h4) p hp
    simp only [Bool.or_eq_true] at this
    rcases this with h | h
    · exact Or.inl (termEqb_eq _ _ h)
    · exact Or.inr h

/-- **end to end**: in any program, replacing the rule keeps the here-and-there models (a strong equivalence) -/
theorem anon_strongEq (A : Anon) (h : anonCheck A = true) (pre post : Prog) :
    StrongEq (stdParams P) (pre ++ A.src :: post) (pre ++ A.res :: post) := by
  intro H T
  have hs := anon_stmSat P A (anonCheck_sound A h) H T
  simp only [Models, List.mem_append, List.mem_cons]
  constructor
  · intro hm s hs'
    rcases hs' with hs' | rfl | hs'
    · exact hm s (Or.inl hs')
    · exact hs.mp (hm _ (Or.inr (Or.inl rfl)))
    · exact hm s (Or.inr (Or.inr hs'))
  · intro hm s hs'
    rcases hs' with hs' | rfl | hs'
    · exact hm s (Or.inl hs')
    · exact hs.mpr (hm _ (Or.inr (Or.inl rfl)))
    · exact hm s (Or.inr (Or.inr hs'))

end NgoVerif.Proofs.C08anon
