import NgoVerif.Model.MinMax
/-!
# `TranslationMap.translate_parameters`: where an argument of the old atom ends up

`_create_replacement` puts the chain variable into the argument list of the chain predicate at the position
`mapping[idx]` (`idx` = the result's position in the old atom).  The lemmas show that this is the position that holds the
old atom's result argument after `translate_parameters` (the last writer of a position wins, as in the Python loop).
-/
namespace NgoVerif.Proofs.C12pos
open NgoVerif NgoVerif.MinMax

theorem setAt_same (ret : List (Option Term)) (i : Nat) (v : Term) :
    (translateParameters.setAt ret i v)[i]? = some (some v) := by
  induction i generalizing ret with
  | zero => cases ret <;> simp [translateParameters.setAt]
  | succ n ih => cases ret <;> simp [translateParameters.setAt, ih]

theorem setAt_other (ret : List (Option Term)) (i j : Nat) (v : Term) (h : j ≠ i) :
    ((translateParameters.setAt ret i v)[j]?).join = (ret[j]?).join := by
  induction i generalizing ret j with
  | zero =>
    cases ret with
    | nil => cases j with
      | zero => exact absurd rfl h
      | succ j => simp [translateParameters.setAt]
    | cons x xs => cases j with
      | zero => exact absurd rfl h
      | succ j => simp [translateParameters.setAt]
  | succ n ih =>
    cases ret with
    | nil => cases j with
      | zero => simp [translateParameters.setAt]
      | succ j =>
        have := ih [] j (by omega)
        simpa [translateParameters.setAt] using this
    | cons x xs => cases j with
      | zero => simp [translateParameters.setAt]
      | succ j =>
        have := ih xs j (by omega)
        simpa [translateParameters.setAt] using this

theorem go_untouched (arguments : List Term) (ms : List (Option Nat)) (args : List Term) (ret out : List (Option Term)) (j : Nat)
    (h : translateParameters.go arguments ms args ret = .ok out) (hj : ∀ m ∈ ms, m ≠ some j) :
    (out[j]?).join = (ret[j]?).join := by
  induction ms generalizing args ret with
  | nil => simp only [translateParameters.go, Except.ok.injEq] at h; rw [← h]
  | cons m ms ih =>
    cases m with
    | none =>
      simp only [translateParameters.go] at h
      exact ih _ _ h (fun m hm => hj m (List.mem_cons_of_mem _ hm))
    | some i =>
      simp only [translateParameters.go] at h
      split at h
      · simp at h
      · cases args with
        | nil => simp at h
        | cons a as =>
          simp only at h
          have hne : j ≠ i := fun e => hj (some i) (List.mem_cons_self) (by rw [e])
          rw [ih _ _ h (fun m hm => hj m (List.mem_cons_of_mem _ hm)), setAt_other _ _ _ _ hne]

theorem go_position (arguments : List Term) (ms : List (Option Nat)) (args : List Term) (ret out : List (Option Term)) (k j : Nat)
    (h : translateParameters.go arguments ms args ret = .ok out) (hk : ms[k]? = some (some j))
    (hlast : ∀ k', k < k' → ms[k']? ≠ some (some j)) :
    (out[j]?).join = args[k]? := by
  induction ms generalizing args ret k with
  | nil => simp at hk
  | cons m ms ih =>
    cases k with
    | zero =>
      simp only [List.getElem?_cons_zero, Option.some.injEq] at hk
      subst hk
      simp only [translateParameters.go] at h
      split at h
      · simp at h
      · cases args with
        | nil => simp at h
        | cons a as =>
          simp only at h
          have hun : ∀ m ∈ ms, m ≠ some j := by
            intro m hm e
            obtain ⟨n, hn, hget⟩ := List.getElem_of_mem hm
            have := hlast (n + 1) (by omega)
            simp only [List.getElem?_cons_succ] at this
            exact this (by rw [List.getElem?_eq_getElem hn, hget, e])
          rw [go_untouched _ _ _ _ _ j h hun, setAt_same]
          simp
    | succ k =>
      simp only [List.getElem?_cons_succ] at hk
      have hlast' : ∀ k', k < k' → ms[k']? ≠ some (some j) := by
        intro k' hk'
        have := hlast (k' + 1) (by omega)
        simpa using this
      cases m with
      | none =>
        simp only [translateParameters.go] at h
        rw [ih _ _ _ h hk hlast']
        cases args <;> simp
      | some i =>
        simp only [translateParameters.go] at h
        split at h
        · simp at h
        · cases args with
          | nil => simp at h
          | cons a as =>
            simp only at h
            rw [ih _ _ _ h hk hlast']
            simp

end NgoVerif.Proofs.C12pos
