import NgoVerif.Proofs.C11sem
import NgoVerif.Sem.Head
import NgoVerif.Sem.DecEq
/-!
# An executable check that implies the side condition of `C11sem.neq_to_lt_strongEq`

`symCheck ps X Y h b` is what the driver evaluates (`DriverSem.lean`, op `sem_sym_cond`) on every rule in which the
real `symmetry` pass replaced `X != Y` by `X < Y`; `symCheck_sound` shows that the answer `true` gives
`Symmetric (stdParams P) (swaps ps) X Y h b` for every parameter choice `P` whose `!=` is `<` or `>`.  So for the
observed rewrites the chain *executable check ⇒ hypothesis ⇒ strong equivalence* is closed inside Lean.
-/
namespace NgoVerif.Proofs.C11check
open NgoVerif NgoVerif.Sem NgoVerif.Proofs.C11sem

def members (ps : List (String × String)) : List String := ps.flatMap fun p => [p.1, p.2]

/-- the map that exchanges the two members of the first pair containing `v` -/
def swaps (ps : List (String × String)) : String → String := fun v =>
  match ps.find? (fun p => p.1 == v || p.2 == v) with
  | some p => if p.1 == v then p.2 else p.1
  | none => v

theorem swaps_fix (ps : List (String × String)) (v : String) (h : v ∉ members ps) : swaps ps v = v := by
  unfold swaps
  have : ps.find? (fun p => p.1 == v || p.2 == v) = none := by
    rw [List.find?_eq_none]
    intro p hp hq
    apply h
    simp only [members, List.mem_flatMap]
    refine ⟨p, hp, ?_⟩
    simp only [Bool.or_eq_true, beq_iff_eq] at hq
    rcases hq with hq | hq <;> simp [hq]
  rw [this]

def involOk (ps : List (String × String)) : Bool :=
  (members ps).all fun v => swaps ps (swaps ps v) == v

theorem swaps_inv (ps : List (String × String)) (h : involOk ps = true) : ∀ v, swaps ps (swaps ps v) = v := by
  intro v
  by_cases hv : v ∈ members ps
  · simp only [involOk, List.all_eq_true, beq_iff_eq] at h
    exact h v hv
  · rw [swaps_fix ps v hv, swaps_fix ps v hv]

def flipNe : BLit → Option BLit
  | .lit (.pos, .cmp (.var U) [⟨.ne, .var V⟩]) => some (cmpBLit V .ne U)
  | _ => none

theorem flipNe_spec {r f : BLit} (h : flipNe r = some f) : ∃ U V, r = cmpBLit U .ne V ∧ f = cmpBLit V .ne U := by
  unfold flipNe at h
  split at h
  · rename_i U V
    simp only [Option.some.injEq] at h
    exact ⟨U, V, rfl, h.symm⟩
  · cases h

/-- the decidable form of `Symmetric.body` -/
def symBody (σ : String → String) (b : List BLit) : Bool :=
  b.all fun l =>
    blitMem (renameBLit σ l) b ||
      (match flipNe (renameBLit σ l) with
       | some f => blitMem f b
       | none => false)

theorem symBody_sound (σ : String → String) (b : List BLit) (h : symBody σ b = true) :
    ∀ l ∈ b, renameBLit σ l ∈ b ∨ ∃ U V, renameBLit σ l = cmpBLit U .ne V ∧ cmpBLit V .ne U ∈ b := by
  intro l hl
  simp only [symBody, List.all_eq_true, Bool.or_eq_true] at h
  rcases h l hl with h1 | h1
  · exact Or.inl (blitMem_mem h1)
  · right
    split at h1
    · rename_i f hf
      obtain ⟨U, V, hr, rfl⟩ := flipNe_spec hf
      exact ⟨U, V, hr, blitMem_mem h1⟩
    · cases h1

def globalsList (X Y : String) (h : Head) (b : List BLit) : List String :=
  stdHeadGlobals h ++ bodyGlobals (b ++ [cmpBLit X .ne Y])

def symGlobals (σ : String → String) (X Y : String) (h : Head) (b : List BLit) : Bool :=
  (globalsList X Y h b).all fun v => (globalsList X Y h b).contains (σ v)

theorem ruleGlobals_std (P : Params) (X Y : String) (h : Head) (b : List BLit) :
    ruleGlobals (stdParams P) h (b ++ [cmpBLit X .ne Y]) = globalsList X Y h b := rfl

theorem symGlobals_sound (σ : String → String) (hinv : ∀ v, σ (σ v) = v) (X Y : String) (h : Head) (b : List BLit)
    (hc : symGlobals σ X Y h b = true) : ∀ v, v ∈ globalsList X Y h b ↔ σ v ∈ globalsList X Y h b := by
  simp only [symGlobals, List.all_eq_true, List.contains_iff_mem] at hc
  intro v
  constructor
  · exact hc v
  · intro hv
    have := hc (σ v) hv
    rwa [hinv] at this

def symHead (σ : String → String) (h : Head) : Bool := h.vars.all fun v => σ v == v

theorem symHead_sound (P : Params) (σ : String → String) (h : Head) (hc : symHead σ h = true)
    (G : String → Prop) (e : Env) (H T : Interp) :
    (stdParams P).headSat G (fun v => e (σ v)) H T h ↔ (stdParams P).headSat G e H T h := by
  rw [stdParams_headSat]
  apply stdHeadSat_congr
  intro v hv
  simp only [symHead, List.all_eq_true, beq_iff_eq] at hc
  simp [hc v hv]

/-- **the executable check** -/
def symCheck (ps : List (String × String)) (X Y : String) (h : Head) (b : List BLit) : Bool :=
  involOk ps && swaps ps X == Y && symBody (swaps ps) b && symGlobals (swaps ps) X Y h b && symHead (swaps ps) h

/-- **`symCheck = true` gives the hypothesis of the theorem**, for every parameter choice with a total order -/
theorem symCheck_sound (P : Params) (htotal : ∀ x y, P.rel .ne x y ↔ (P.rel .lt x y ∨ P.rel .lt y x))
    (ps : List (String × String)) (X Y : String) (h : Head) (b : List BLit) (hc : symCheck ps X Y h b = true) :
    Symmetric (stdParams P) (swaps ps) X Y h b := by
  simp only [symCheck, Bool.and_eq_true, beq_iff_eq] at hc
  obtain ⟨⟨⟨⟨h1, h2⟩, h3⟩, h4⟩, h5⟩ := hc
  have hinv := swaps_inv ps h1
  exact {
    inv := hinv
    sx := h2
    body := symBody_sound _ b h3
    globals := by
      intro v
      rw [ruleGlobals_std]
      exact symGlobals_sound _ hinv X Y h b h4 v
    head := fun e H T => symHead_sound P _ h h5 _ e H T
    total := htotal }

/-- … hence the rewrite is a strong equivalence -/
theorem symCheck_strongEq (P : Params) (htotal : ∀ x y, P.rel .ne x y ↔ (P.rel .lt x y ∨ P.rel .lt y x))
    (ps : List (String × String)) (pre post : Prog) (l c : Nat) (X Y : String) (h : Head) (b : List BLit)
    (hc : symCheck ps X Y h b = true) :
    StrongEq (stdParams P) (pre ++ .rule l c h (b ++ [cmpBLit X .ne Y]) :: post)
      (pre ++ .rule l c h (b ++ [cmpBLit X .lt Y]) :: post) :=
  neq_to_lt_strongEq (stdParams P) (swaps ps) pre post l c X Y h b (symCheck_sound P htotal ps X Y h b hc)

end NgoVerif.Proofs.C11check
