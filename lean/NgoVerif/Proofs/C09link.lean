import NgoVerif.Proofs.C09sem
import NgoVerif.Model.Unused
/-!
# From the decision of the model of `unused.py` to the side condition of `Proofs/C09sem`

`removable (analyzeUsage prg inputs outputs) added r = true` (what `remove_unused` of `Model/Unused.lean` tests, tied to
the Python by `corr_unused.py`) implies `C09sem.Unused n k prg` for the predicate `n/k` of the head of `r`: the usage
scan saw no `Function` node `n/k` in any body, condition, aggregate element, negated head literal, disjunction,
choice or head-aggregate element, objective body or `#external` body - so every statement either is a defining rule
of `n/k` or does not mention it.  Together with `unused_sound` / `unused_complete` / `unused_costs` this is the
end-to-end statement for the rule-removal step of the pass: syntax decision ⇒ one-to-one correspondence of answer sets
and equal costs.
-/
namespace NgoVerif.Proofs.C09link
open NgoVerif NgoVerif.Sem NgoVerif.Unused NgoVerif.Proofs.C09sem

/-- no event mentions `p` -/
def EvFree (p : Pred) (evs : List Event) : Prop := ∀ e ∈ evs, e.1 ≠ p

theorem evFree_of_isUsed {ev : List Event} {p : Pred} (h : isUsed ev p = false) : EvFree p ev := by
  intro e he heq
  have : isUsed ev p = true := by
    unfold isUsed; rw [List.any_eq_true]; exact ⟨e, he, by simp [heq]⟩
  rw [h] at this; cases this

theorem EvFree.append_left {p : Pred} {a b : List Event} (h : EvFree p (a ++ b)) : EvFree p a :=
  fun e he => h e (List.mem_append_left _ he)
theorem EvFree.append_right {p : Pred} {a b : List Event} (h : EvFree p (a ++ b)) : EvFree p b :=
  fun e he => h e (List.mem_append_right _ he)
theorem EvFree.of_flatMap {α : Type} {p : Pred} {l : List α} {f : α → List Event} (h : EvFree p (l.flatMap f))
    {x : α} (hx : x ∈ l) : EvFree p (f x) :=
  fun e he => h e (List.mem_flatMap.mpr ⟨x, hx, he⟩)

/-- the top-level function terms of a term list are not `p` -/
def NoP (p : Pred) (ts : List Term) : Prop :=
  ∀ t ∈ ts, ∀ name args ext, t = Term.fn name args ext → (⟨name, args.length⟩ : Pred) ≠ p

theorem noP_of_events {p : Pred} {ts : List Term}
    (h : EvFree p ((ts.flatMap (Term.collect Term.isFn)).flatMap fnEvent)) : NoP p ts := by
  intro t ht name args ext heq
  subst heq
  apply h (⟨name, args.length⟩, nonAnonPositions 0 args)
  apply List.mem_flatMap.mpr
  refine ⟨.fn name args ext, List.mem_flatMap.mpr ⟨_, ht, ?_⟩, by simp [fnEvent]⟩
  simp [Term.collect, Term.isFn]

theorem NoP.append_left {p : Pred} {a b : List Term} (h : NoP p (a ++ b)) : NoP p a :=
  fun t ht => h t (List.mem_append_left _ ht)
theorem NoP.append_right {p : Pred} {a b : List Term} (h : NoP p (a ++ b)) : NoP p b :=
  fun t ht => h t (List.mem_append_right _ ht)

theorem sig_false {p : Pred} {name : String} {k : Nat} (h : (⟨name, k⟩ : Pred) ≠ p) :
    predSig p.name p.arity name k = false := by
  cases hs : predSig p.name p.arity name k with
  | false => rfl
  | true =>
    simp only [predSig, Bool.and_eq_true, beq_iff_eq] at hs
    exact absurd (by cases p; simp_all) h

mutual
theorem atomAvoids_of_noP (p : Pred) : ∀ (a : Atom), NoP p a.terms → atomAvoids (predSig p.name p.arity) a = true
  | .sym t, h => by
    cases t with
    | fn name args ext =>
      simp only [atomAvoids, Bool.not_eq_true']
      exact sig_false (h _ (by simp [Atom.terms]) name args ext rfl)
    | _ => simp [atomAvoids]
  | .cmp _ _, _ => by simp [atomAvoids]
  | .bool _, _ => by simp [atomAvoids]
  | .theory _, _ => by simp [atomAvoids]
  | .bagg _ _ lg f es rg, h => by
    simp only [atomAvoids]
    simp only [Atom.terms] at h
    exact bElemsAvoid_of_noP p es h.append_left.append_right
  | .agg lg es rg, h => by
    simp only [atomAvoids]
    simp only [Atom.terms] at h
    exact cElemsAvoid_of_noP p es h.append_left.append_right
theorem litsAvoid_of_noP (p : Pred) : ∀ (ls : List (Sign × Atom)), NoP p (litsTerms ls) →
    litsAvoid (predSig p.name p.arity) ls = true
  | [], _ => by simp [litsAvoid]
  | (s, a) :: ls, h => by
    simp only [litsTerms, litTerms] at h
    simp only [litsAvoid, Bool.and_eq_true]
    exact ⟨atomAvoids_of_noP p a h.append_left, litsAvoid_of_noP p ls h.append_right⟩
theorem bElemsAvoid_of_noP (p : Pred) : ∀ (es : List (List Term × List (Sign × Atom))), NoP p (bElemsTerms es) →
    bElemsAvoid (predSig p.name p.arity) es = true
  | [], _ => by simp [bElemsAvoid]
  | (ts, c) :: es, h => by
    simp only [bElemsTerms] at h
    simp only [bElemsAvoid, Bool.and_eq_true]
    exact ⟨litsAvoid_of_noP p c h.append_left.append_right, bElemsAvoid_of_noP p es h.append_right⟩
theorem cElemsAvoid_of_noP (p : Pred) : ∀ (es : List ((Sign × Atom) × List (Sign × Atom))), NoP p (cElemsTerms es) →
    cElemsAvoid (predSig p.name p.arity) es = true
  | [], _ => by simp [cElemsAvoid]
  | ((s, a), c) :: es, h => by
    simp only [cElemsTerms, litTerms] at h
    simp only [cElemsAvoid, Bool.and_eq_true]
    exact ⟨⟨atomAvoids_of_noP p a h.append_left.append_left, litsAvoid_of_noP p c h.append_left.append_right⟩,
      cElemsAvoid_of_noP p es h.append_right⟩
end

theorem litAvoids_of_events (p : Pred) (l : Lit) (h : EvFree p (litEvents l)) :
    atomAvoids (predSig p.name p.arity) l.2 = true := by
  obtain ⟨s, a⟩ := l
  exact atomAvoids_of_noP p a (noP_of_events (by simpa [litEvents, litCollect, litTerms] using h))

theorem litsAvoid_of_events (p : Pred) : ∀ (c : List Lit), EvFree p (condEvents c) →
    litsAvoid (predSig p.name p.arity) c = true
  | [], _ => by simp [litsAvoid]
  | l :: ls, h => by
    simp only [condEvents, List.flatMap_cons] at h
    obtain ⟨s, a⟩ := l
    simp only [litsAvoid, Bool.and_eq_true]
    exact ⟨litAvoids_of_events p (s, a) h.append_left, litsAvoid_of_events p ls (by simpa [condEvents] using h.append_right)⟩

theorem blitAvoids_of_events (p : Pred) (b : BLit) (h : EvFree p (blitEvents b)) :
    blitAvoids (predSig p.name p.arity) b = true := by
  have hn : NoP p b.terms := noP_of_events (by simpa [blitEvents, BLit.collect] using h)
  cases b with
  | lit l =>
    obtain ⟨s, a⟩ := l
    simp only [blitAvoids]
    exact atomAvoids_of_noP p a (by simpa [BLit.terms, litTerms] using hn)
  | clit c =>
    obtain ⟨⟨s, a⟩, cond⟩ := c
    simp only [BLit.terms, condLitTerms, litTerms] at hn
    simp only [blitAvoids, Bool.and_eq_true]
    exact ⟨atomAvoids_of_noP p a hn.append_left, litsAvoid_of_noP p cond hn.append_right⟩

theorem bodyAvoids_of_events (p : Pred) (b : List BLit) (h : EvFree p (bodyEvents b)) :
    bodyAvoids (predSig p.name p.arity) b = true := by
  simp only [bodyAvoids, List.all_eq_true]
  intro l hl
  exact blitAvoids_of_events p l (h.of_flatMap hl)

/-- the shape of head literals the parser produces: a symbolic atom that is not an external function call, a
comparison or a boolean constant -/
def headLitOk : Head → Bool
  | .lit (_, .sym (.fn _ _ ext)) => !ext
  | .lit (_, .sym _) => true
  | .lit (_, .cmp _ _) => true
  | .lit (_, .bool _) => true
  | .lit _ => false
  | _ => true

def stmOk : Stm → Bool
  | .rule _ _ h _ => headLitOk h
  | _ => true

theorem condLitAvoids_of_events (p : Pred) (c : CondLit) (h1 : EvFree p (condEvents c.2)) (h2 : EvFree p (litEvents c.1)) :
    condLitAvoids (predSig p.name p.arity) c = true := by
  simp only [condLitAvoids, Bool.and_eq_true]
  exact ⟨litAvoids_of_events p c.1 h2, litsAvoid_of_events p c.2 h1⟩

/-- **the usage scan decides the side condition**: a statement none of whose events mentions `p` is a defining rule of
`p` or does not mention `p` at all -/
theorem stm_cases (p : Pred) (s : Stm) (hok : stmOk s = true) (h : EvFree p (stmEvents s)) :
    defRule p.name p.arity s = true ∨ stmAvoids (predSig p.name p.arity) s = true := by
  cases s with
  | rule l c hd b =>
    simp only [stmEvents] at h
    have hb := bodyAvoids_of_events p b h.append_left
    have hh := h.append_right
    cases hd with
    | lit lt =>
      obtain ⟨s, a⟩ := lt
      cases s with
      | pos =>
        cases a with
        | sym t =>
          cases t with
          | fn name args ext =>
            cases ext with
            | true => simp [stmOk, headLitOk] at hok
            | false =>
              by_cases hp : (⟨name, args.length⟩ : Pred) = p
              · left
                have : name = p.name ∧ args.length = p.arity := by cases p; simp_all
                simp [defRule, this.1, this.2, hb]
              · right
                simp [stmAvoids, headAvoids, atomAvoids, sig_false hp, hb]
          | _ => right; simp [stmAvoids, headAvoids, atomAvoids, hb]
        | cmp _ _ => right; simp [stmAvoids, headAvoids, atomAvoids, hb]
        | bool _ => right; simp [stmAvoids, headAvoids, atomAvoids, hb]
        | _ => simp [stmOk, headLitOk] at hok
      | neg =>
        right
        simp only [stmAvoids, headAvoids, Bool.and_eq_true]
        exact ⟨litAvoids_of_events p (.neg, a) (by simpa [headEvents] using hh), hb⟩
      | dneg =>
        right
        simp only [stmAvoids, headAvoids, Bool.and_eq_true]
        exact ⟨litAvoids_of_events p (.dneg, a) (by simpa [headEvents] using hh), hb⟩
    | disj es =>
      right
      simp only [stmAvoids, headAvoids, Bool.and_eq_true, List.all_eq_true]
      simp only [headEvents] at hh
      exact ⟨fun c hc => condLitAvoids_of_events p c (hh.append_left.of_flatMap hc) (hh.append_right.of_flatMap hc), hb⟩
    | agg lg es rg =>
      right
      simp only [stmAvoids, headAvoids, Bool.and_eq_true, List.all_eq_true]
      simp only [headEvents] at hh
      exact ⟨fun c hc => condLitAvoids_of_events p c (hh.append_left.of_flatMap hc) (hh.append_right.of_flatMap hc), hb⟩
    | hagg lg f es rg =>
      right
      simp only [stmAvoids, headAvoids, Bool.and_eq_true, List.all_eq_true]
      simp only [headEvents] at hh
      refine ⟨fun x hx => ?_, hb⟩
      have := hh.of_flatMap hx
      exact condLitAvoids_of_events p x.2 this.append_left this.append_right
    | theory t => right; simp [stmAvoids, headAvoids, hb]
  | minimize l c w pr ts b =>
    right
    simp only [stmEvents] at h
    simpa [stmAvoids] using bodyAvoids_of_events p b h
  | showTerm t b =>
    right
    simp only [stmEvents] at h
    simpa [stmAvoids] using bodyAvoids_of_events p b h
  | _ => right; simp [stmAvoids]

/-- **decision ⇒ side condition.**  If the model of `remove_unused` finds the rule `n(args) :- B.` removable, then the
program satisfies the hypothesis of `unused_sound` / `unused_complete` for `n/|args|`. -/
theorem removable_unused (prg : Prog) (inputs outputs added : List Pred) (hok : ∀ s ∈ prg, stmOk s = true)
    (l c : Nat) (name : String) (args : List Term) (ext : Bool) (b : List BLit)
    (hrem : removable (analyzeUsage prg inputs outputs) added (.rule l c (.lit (.pos, .sym (.fn name args ext))) b) = true) :
    C09sem.Unused name args.length prg := by
  simp only [removable, Bool.not_eq_true', Bool.or_eq_false_iff] at hrem
  have hfree := evFree_of_isUsed hrem.1
  intro s hs
  have : EvFree ⟨name, args.length⟩ (stmEvents s) :=
    (hfree.append_left).of_flatMap hs
  exact stm_cases ⟨name, args.length⟩ s (hok s hs) this

end NgoVerif.Proofs.C09link
