import NgoVerif.Sem.Head
import NgoVerif.Sem.DecEq
/-!
# `cleanup`: deleting a positive body literal that another body literal implies — for typed programs

`h :- …, p(s̄), q(t̄), … .`  becomes  `h :- …, p(s̄), … .`  when every rule that can derive an atom of `p` carries, in its
body (or, for a choice element, in its condition), the positive literal of `q` that the deleted one is an instance of.
Setting: programs whose rules have plain heads (a literal: atom, negated atom, comparison, `#false`; or a choice
`lg { a : c̄ ; … } rg` whose elements are positive atoms under plain conditions) and plain bodies (symbolic literals of any
sign, comparisons, boolean constants) - the fragment in which satisfaction of a body is monotone in the `here' world;
standard head semantics, every parameter choice whose double negation is evaluated in the total interpretation (the
bounds of a choice).  The argument is the one of `Meta/M6.lean`, for rule FAMILIES (all instances of the
rewritten rule at once):

* `⇒`  a stable model `T` supports each of its atoms (`supported`): the instance that derives `p(s̄e)` has a true body,
  which contains `q(…)`, so `T` satisfies the shortened rule; a model of the shortened program is a model of the source.
* `⇐`  if `H ⊂ T` were a model of the source, the least model below `T` would be a strictly smaller model of the
  shortened program: were `q(t̄e)` missing from it, deleting `p(s̄e)` would give a yet smaller model (`remove_atom_model`).
-/
namespace NgoVerif.Proofs.C08impl
open NgoVerif NgoVerif.Sem

variable (P : Params)

/-! ## the fragment -/

def plainBLit : BLit → Bool
  | .lit (_, .sym _) => true
  | .lit (_, .cmp _ _) => true
  | .lit (_, .bool _) => true
  | _ => false

def plainBody (b : List BLit) : Bool := b.all plainBLit

def plainHead : Head → Bool
  | .lit (_, .sym _) => true
  | .lit (_, .cmp _ _) => true
  | .lit (_, .bool _) => true
  | _ => false

def okStm : Stm → Bool
  | .rule _ _ h b => plainHead h && plainBody b
  | _ => true

theorem blitSat_mono (l : BLit) (hl : plainBLit l = true) (G G' : String → Prop) (e : Env) (H₁ H₂ T : Interp)
    (h12 : Sub H₁ H₂) : blitSat P G e H₁ T l → blitSat P G' e H₂ T l := by
  match l, hl with
  | .lit (.pos, .sym t), _ =>
    simp only [blitSat, litSat, atomSat]
    rintro ⟨a, ha, hH⟩
    exact ⟨a, ha, h12 a hH⟩
  | .lit (.neg, .sym t), _ => simp only [blitSat, litSat, atomSat]; exact id
  | .lit (.dneg, .sym t), _ => simp only [blitSat, litSat, atomSat]; exact id
  | .lit (.pos, .cmp t gs), _ => simp only [blitSat, litSat, atomSat]; exact id
  | .lit (.neg, .cmp t gs), _ => simp only [blitSat, litSat, atomSat]; exact id
  | .lit (.dneg, .cmp t gs), _ => simp only [blitSat, litSat, atomSat]; exact id
  | .lit (.pos, .bool b), _ => simp only [blitSat, litSat, atomSat]; exact id
  | .lit (.neg, .bool b), _ => simp only [blitSat, litSat, atomSat]; exact id
  | .lit (.dneg, .bool b), _ => simp only [blitSat, litSat, atomSat]; exact id

theorem bodySat_mono (b : List BLit) (hb : plainBody b = true) (G G' : String → Prop) (e : Env) (H₁ H₂ T : Interp)
    (h12 : Sub H₁ H₂) : bodySat P G e H₁ T b → bodySat P G' e H₂ T b := by
  intro h l hl
  simp only [plainBody, List.all_eq_true] at hb
  exact blitSat_mono P l (hb l hl) G G' e H₁ H₂ T h12 (h l hl)

theorem bodySat_G (b : List BLit) (hb : plainBody b = true) (G G' : String → Prop) (e : Env) (H T : Interp) :
    bodySat P G e H T b ↔ bodySat P G' e H T b :=
  ⟨bodySat_mono P b hb G G' e H H T (fun _ h => h), bodySat_mono P b hb G' G e H H T (fun _ h => h)⟩

/-- a plain head is either a positive atom (satisfied iff its ground atom, when defined, is in `H`) or does not look at `H` -/
theorem head_cases (h : Head) (hh : plainHead h = true) :
    (∃ t, h = .lit (.pos, .sym t)) ∨
      (∀ (G G' : String → Prop) (e : Env) (H H' T : Interp), stdHeadSat P G e H T h → stdHeadSat P G' e H' T h) := by
  match h, hh with
  | .lit (.pos, .sym t), _ => exact Or.inl ⟨t, rfl⟩
  | .lit (.neg, .sym t), _ => right; intro G G' e H H' T; simp only [stdHeadSat, headLitSat]; exact id
  | .lit (.dneg, .sym t), _ => right; intro G G' e H H' T; simp only [stdHeadSat, headLitSat]; exact id
  | .lit (.pos, .cmp t gs), _ => right; intro G G' e H H' T; simp only [stdHeadSat, headLitSat, litSat, atomSat]; exact id
  | .lit (.neg, .cmp t gs), _ => right; intro G G' e H H' T; simp only [stdHeadSat, headLitSat, litSat, atomSat]; exact id
  | .lit (.dneg, .cmp t gs), _ => right; intro G G' e H H' T; simp only [stdHeadSat, headLitSat, litSat, atomSat]; exact id
  | .lit (.pos, .bool b), _ => right; intro G G' e H H' T; simp only [stdHeadSat, headLitSat, litSat, atomSat]; exact id
  | .lit (.neg, .bool b), _ => right; intro G G' e H H' T; simp only [stdHeadSat, headLitSat, litSat, atomSat]; exact id
  | .lit (.dneg, .bool b), _ => right; intro G G' e H H' T; simp only [stdHeadSat, headLitSat, litSat, atomSat]; exact id

theorem atomHead_sat (G : String → Prop) (e : Env) (H T : Interp) (t : Term) :
    stdHeadSat P G e H T (.lit (.pos, .sym t)) ↔ ∀ a, groundAtom P e t = some a → H a := by
  simp only [stdHeadSat, headLitSat]

/-! ## deleting an atom no rule can derive below -/

def Ok (prg : Prog) : Prop := ∀ s ∈ prg, okStm s = true

theorem ok_rule {prg : Prog} (hok : Ok prg) {l c : Nat} {h : Head} {b : List BLit} (hs : Stm.rule l c h b ∈ prg) :
    plainHead h = true ∧ plainBody b = true := by
  have := hok _ hs
  simpa [okStm, Bool.and_eq_true] using this

theorem remove_atom_model (prg : Prog) (hok : Ok prg) {H T : Interp} (hM : Models (stdParams P) prg H T) (a : GAtom)
    (hblock : ∀ l c t b, Stm.rule l c (.lit (.pos, .sym t)) b ∈ prg → ∀ e, groundAtom P e t = some a →
      ¬ bodySat P (fun _ => True) e H T b) :
    Models (stdParams P) prg (fun x => H x ∧ x ≠ a) T := by
  intro s hs
  cases s with
  | rule l c h b =>
    obtain ⟨hh, hb⟩ := ok_rule hok hs
    have hsat := hM _ hs
    simp only [stmSat, stdParams_headSat, stdParams_toParams] at hsat ⊢
    intro e
    refine ⟨?_, (hsat e).2⟩
    intro hbody
    have hbody' := bodySat_mono P b hb _ (fun v => v ∈ ruleGlobals (stdParams P) h b) e (fun x => H x ∧ x ≠ a) H T
      (fun _ hx => hx.1) hbody
    have hhead := (hsat e).1 hbody'
    rcases head_cases P h hh with ⟨t, rfl⟩ | hconst
    · rw [atomHead_sat] at hhead ⊢
      intro a' ha'
      refine ⟨hhead a' ha', ?_⟩
      rintro rfl
      exact hblock l c t b hs e ha' ((bodySat_G P b hb _ _ e H T).mp hbody')
    · exact hconst _ _ e H _ T hhead
  | _ => simp only [stmSat]

/-- **supportedness**: every atom of a stable model is derived by a rule instance whose body holds in it -/
theorem supported (prg : Prog) (hok : Ok prg) {T : Interp} (hS : Stable (stdParams P) prg T) (a : GAtom) (ha : T a) :
    ∃ l c t b, Stm.rule l c (.lit (.pos, .sym t)) b ∈ prg ∧ ∃ e, groundAtom P e t = some a ∧
      bodySat P (fun _ => True) e T T b := by
  apply Classical.byContradiction
  intro hno
  have hblock : ∀ l c t b, Stm.rule l c (.lit (.pos, .sym t)) b ∈ prg → ∀ e, groundAtom P e t = some a →
      ¬ bodySat P (fun _ => True) e T T b :=
    fun l c t b hs e hg hb => hno ⟨l, c, t, b, hs, e, hg, hb⟩
  exact hS.2 _ (fun _ hx => hx.1) ⟨a, ha, fun hx => hx.2 rfl⟩ (remove_atom_model P prg hok hS.1 a hblock)

/-! ## the least model below `T` -/

def least (prg : Prog) (T : Interp) : Interp := fun a => ∀ H, Sub H T → Models (stdParams P) prg H T → H a

theorem least_sub (prg : Prog) {T : Interp} (hT : Models (stdParams P) prg T T) : Sub (least P prg T) T :=
  fun a h => h T (fun _ x => x) hT

theorem least_le (prg : Prog) {H T : Interp} (hHT : Sub H T) (hM : Models (stdParams P) prg H T) : Sub (least P prg T) H :=
  fun a h => h H hHT hM

theorem least_model (prg : Prog) (hok : Ok prg) {T : Interp} (hT : Models (stdParams P) prg T T) :
    Models (stdParams P) prg (least P prg T) T := by
  intro s hs
  cases s with
  | rule l c h b =>
    obtain ⟨hh, hb⟩ := ok_rule hok hs
    have hsatT := hT _ hs
    simp only [stmSat, stdParams_headSat, stdParams_toParams] at hsatT ⊢
    intro e
    refine ⟨?_, (hsatT e).2⟩
    intro hbody
    have key : ∀ H, Sub H T → Models (stdParams P) prg H T →
        stdHeadSat P (fun v => v ∈ ruleGlobals (stdParams P) h b) e H T h := by
      intro H hHT hM
      have hsat := hM _ hs
      simp only [stmSat, stdParams_headSat, stdParams_toParams] at hsat
      exact (hsat e).1 (bodySat_mono P b hb _ (fun v => v ∈ ruleGlobals (stdParams P) h b) e _ H T (least_le P prg hHT hM) hbody)
    rcases head_cases P h hh with ⟨t, rfl⟩ | hconst
    · rw [atomHead_sat]
      intro a ha H hHT hM
      have := key H hHT hM
      rw [atomHead_sat] at this
      exact this a ha
    · exact hconst _ _ e T _ T (key T (fun _ x => x) hT)
  | _ => simp only [stmSat]

/-! ## the rewrite -/

/-- the rewritten rule and what is deleted from it -/
structure Rewrite where
  pre : Prog
  post : Prog
  line : Nat
  col : Nat
  head : Head
  body : List BLit          -- the body after the deletion
  pn : String
  pargs : List Term
  qn : String
  qargs : List Term

namespace Rewrite
def pLit (R : Rewrite) : BLit := .lit (.pos, .sym (.fn R.pn R.pargs false))
def qLit (R : Rewrite) : BLit := .lit (.pos, .sym (.fn R.qn R.qargs false))
def src (R : Rewrite) : Prog := R.pre ++ .rule R.line R.col R.head (R.qLit :: R.body) :: R.post
def res (R : Rewrite) : Prog := R.pre ++ .rule R.line R.col R.head R.body :: R.post
theorem src_mem (R : Rewrite) : Stm.rule R.line R.col R.head (R.qLit :: R.body) ∈ R.src := by simp [src]
theorem res_mem (R : Rewrite) : Stm.rule R.line R.col R.head R.body ∈ R.res := by simp [res]
end Rewrite

/-- the semantic side condition: whenever a rule of the source derives the ground atom `p(s̄e)` with a body that holds
at `(H,T)`, the ground atom `q(t̄e)` is in `H` -/
def Implied (R : Rewrite) : Prop :=
  R.pLit ∈ R.body ∧
  ∀ l c t b, Stm.rule l c (.lit (.pos, .sym t)) b ∈ R.src → ∀ e e' vals, evalTerms P e R.pargs = some vals →
    groundAtom P e' t = some ⟨R.pn, vals⟩ → ∀ H T, bodySat P (fun _ => True) e' H T b →
      ∃ qvals, evalTerms P e R.qargs = some qvals ∧ H ⟨R.qn, qvals⟩

theorem res_models_src (R : Rewrite) (hok : Ok R.src) (H T : Interp) (hM : Models (stdParams P) R.res H T) :
    Models (stdParams P) R.src H T := by
  intro s hs
  simp only [Rewrite.src, List.mem_append, List.mem_cons] at hs
  rcases hs with hs | rfl | hs
  · exact hM s (by simp only [Rewrite.res, List.mem_append, List.mem_cons]; exact Or.inl hs)
  · have hr := hM (.rule R.line R.col R.head R.body) R.res_mem
    have hokr : plainHead R.head = true ∧ plainBody (R.qLit :: R.body) = true :=
      ok_rule hok R.src_mem
    have hb' : plainBody R.body = true := by
      have := hokr.2
      simp only [plainBody, List.all_cons, Bool.and_eq_true] at this ⊢
      exact this.2
    simp only [stmSat, stdParams_headSat, stdParams_toParams] at hr ⊢
    intro e
    have weaken : ∀ X, bodySat P (fun v => v ∈ ruleGlobals (stdParams P) R.head (R.qLit :: R.body)) e X T (R.qLit :: R.body) →
        bodySat P (fun v => v ∈ ruleGlobals (stdParams P) R.head R.body) e X T R.body := by
      intro X hx
      exact (bodySat_G P R.body hb' _ _ e X T).mp (fun l hl => hx l (List.mem_cons_of_mem _ hl))
    have hheadG : ∀ X, stdHeadSat P (fun v => v ∈ ruleGlobals (stdParams P) R.head R.body) e X T R.head →
        stdHeadSat P (fun v => v ∈ ruleGlobals (stdParams P) R.head (R.qLit :: R.body)) e X T R.head := by
      intro X hx
      rcases head_cases P R.head hokr.1 with ⟨t, ht⟩ | hconst
      · rw [ht] at hx ⊢
        rw [atomHead_sat] at hx ⊢
        exact hx
      · exact hconst _ _ e X X T hx
    refine ⟨fun hb => hheadG H ((hr e).1 (weaken H hb)), fun hb => ?_⟩
    have := (hr e).2 ((bodySat_G P R.body hb' _ _ e T T).mp (fun l hl => hb l (List.mem_cons_of_mem _ hl)))
    rcases head_cases P R.head hokr.1 with ⟨t, ht⟩ | hconst
    · rw [ht] at this ⊢
      rw [atomHead_sat] at this ⊢
      exact this
    · exact hconst _ _ e T T T this
  · exact hM s (by simp only [Rewrite.res, List.mem_append, List.mem_cons]; exact Or.inr (Or.inr hs))

theorem ok_res (R : Rewrite) (hok : Ok R.src) : Ok R.res := by
  intro s hs
  simp only [Rewrite.res, List.mem_append, List.mem_cons] at hs
  rcases hs with hs | rfl | hs
  · exact hok s (by simp only [Rewrite.src, List.mem_append, List.mem_cons]; exact Or.inl hs)
  · have := hok (.rule R.line R.col R.head (R.qLit :: R.body)) R.src_mem
    simp only [okStm, plainBody, List.all_cons, Bool.and_eq_true] at this ⊢
    exact ⟨this.1, this.2.2⟩
  · exact hok s (by simp only [Rewrite.src, List.mem_append, List.mem_cons]; exact Or.inr (Or.inr hs))

/-- one half of the satisfaction of the shortened rule at `e`: from the same half of the source rule, when the deleted
literal holds whenever the shortened body does -/
theorem rule_part (R : Rewrite) (hok : Ok R.src) (e : Env) (X T : Interp)
    (hsrc : bodySat P (fun v => v ∈ ruleGlobals (stdParams P) R.head (R.qLit :: R.body)) e X T (R.qLit :: R.body) →
      stdHeadSat P (fun v => v ∈ ruleGlobals (stdParams P) R.head (R.qLit :: R.body)) e X T R.head)
    (hq : bodySat P (fun _ => True) e X T R.body → blitSat P (fun _ => True) e X T R.qLit) :
    bodySat P (fun v => v ∈ ruleGlobals (stdParams P) R.head R.body) e X T R.body →
      stdHeadSat P (fun v => v ∈ ruleGlobals (stdParams P) R.head R.body) e X T R.head := by
  have hokr : plainHead R.head = true ∧ plainBody (R.qLit :: R.body) = true :=
    ok_rule hok R.src_mem
  have hb' : plainBody R.body = true := by
    have := hokr.2
    simp only [plainBody, List.all_cons, Bool.and_eq_true] at this ⊢
    exact this.2
  intro hy
  have h1 := (bodySat_G P R.body hb' _ (fun _ => True) e X T).mp hy
  have hfull : bodySat P (fun v => v ∈ ruleGlobals (stdParams P) R.head (R.qLit :: R.body)) e X T (R.qLit :: R.body) := by
    apply (bodySat_G P (R.qLit :: R.body) hokr.2 (fun _ => True) _ e X T).mp
    intro l hl
    rcases List.mem_cons.mp hl with rfl | hl
    · exact hq h1
    · exact h1 l hl
  have hx := hsrc hfull
  rcases head_cases P R.head hokr.1 with ⟨t, ht⟩ | hconst
  · rw [ht] at hx ⊢
    rw [atomHead_sat] at hx ⊢
    exact hx
  · exact hconst _ _ e X X T hx

theorem pLit_sat (R : Rewrite) (e : Env) (X T : Interp) (hp : R.pLit ∈ R.body)
    (hb : bodySat P (fun _ => True) e X T R.body) : ∃ vals, evalTerms P e R.pargs = some vals ∧ X ⟨R.pn, vals⟩ := by
  have := hb _ hp
  simp only [Rewrite.pLit, blitSat, litSat, atomSat, groundAtom, Option.map_eq_some_iff] at this
  obtain ⟨a, ⟨vals, hv, rfl⟩, hX⟩ := this
  exact ⟨vals, hv, hX⟩

theorem qLit_sat (R : Rewrite) (e : Env) (X T : Interp) (qvals : List Sym) (hv : evalTerms P e R.qargs = some qvals)
    (hX : X ⟨R.qn, qvals⟩) : blitSat P (fun _ => True) e X T R.qLit := by
  simp only [Rewrite.qLit, blitSat, litSat, atomSat, groundAtom, Option.map_eq_some_iff]
  exact ⟨_, ⟨qvals, hv, rfl⟩, hX⟩

/-- **deleting the implied literal keeps the stable models** -/
theorem remove_implied (R : Rewrite) (hok : Ok R.src) (himp : Implied P R) (T : Interp) :
    Stable (stdParams P) R.src T ↔ Stable (stdParams P) R.res T := by
  obtain ⟨hp, himp⟩ := himp
  have others : ∀ (X : Interp), Models (stdParams P) R.src X T → ∀ s, s ∈ R.pre ∨ s ∈ R.post → stmSat (stdParams P) X T s := by
    intro X hM s hs
    apply hM s
    simp only [Rewrite.src, List.mem_append, List.mem_cons]
    rcases hs with hs | hs
    · exact Or.inl hs
    · exact Or.inr (Or.inr hs)
  constructor
  · intro hS
    refine ⟨?_, fun H hHT hne hM => hS.2 H hHT hne (res_models_src P R hok H T hM)⟩
    have hqT : ∀ e, bodySat P (fun _ => True) e T T R.body → blitSat P (fun _ => True) e T T R.qLit := by
      intro e hb
      obtain ⟨vals, hv, hT⟩ := pLit_sat P R e T T hp hb
      obtain ⟨l, c, t, b, hs, e', hg, hbody⟩ := supported P R.src hok hS _ hT
      obtain ⟨qvals, hqv, hq⟩ := himp l c t b hs e e' vals hv hg T T hbody
      exact qLit_sat P R e T T qvals hqv hq
    intro s hs
    simp only [Rewrite.res, List.mem_append, List.mem_cons] at hs
    rcases hs with hs | rfl | hs
    · exact others T hS.1 s (Or.inl hs)
    · have hr := hS.1 (.rule R.line R.col R.head (R.qLit :: R.body)) R.src_mem
      simp only [stmSat, stdParams_headSat, stdParams_toParams] at hr ⊢
      intro e
      exact ⟨rule_part P R hok e T T (hr e).1 (hqT e), rule_part P R hok e T T (hr e).2 (hqT e)⟩
    · exact others T hS.1 s (Or.inr hs)
  · intro hS
    have hMT : Models (stdParams P) R.src T T := res_models_src P R hok T T hS.1
    refine ⟨hMT, ?_⟩
    intro H hHT hne hM
    have hL := least_model P R.src hok hMT
    have hLH : Sub (least P R.src T) H := least_le P R.src hHT hM
    have hLT : Sub (least P R.src T) T := least_sub P R.src hMT
    obtain ⟨c, hc, hnc⟩ := hne
    refine hS.2 (least P R.src T) hLT ⟨c, hc, fun h => hnc (hLH c h)⟩ ?_
    have hqL : ∀ e, bodySat P (fun _ => True) e (least P R.src T) T R.body →
        blitSat P (fun _ => True) e (least P R.src T) T R.qLit := by
      intro e hb
      obtain ⟨vals, hv, hLp⟩ := pLit_sat P R e _ T hp hb
      apply Classical.byContradiction
      intro hnq
      have hblock : ∀ l c t b, Stm.rule l c (.lit (.pos, .sym t)) b ∈ R.src → ∀ e', groundAtom P e' t = some ⟨R.pn, vals⟩ →
          ¬ bodySat P (fun _ => True) e' (least P R.src T) T b := by
        intro l c t b hs e' hg hbody
        obtain ⟨qvals, hqv, hq⟩ := himp l c t b hs e e' vals hv hg _ T hbody
        exact hnq (qLit_sat P R e _ T qvals hqv hq)
      have hM1 := remove_atom_model P R.src hok hL ⟨R.pn, vals⟩ hblock
      have := hLp (fun x => least P R.src T x ∧ x ≠ ⟨R.pn, vals⟩) (fun a h => hLT a h.1) hM1
      exact this.2 rfl
    intro s hs
    simp only [Rewrite.res, List.mem_append, List.mem_cons] at hs
    rcases hs with hs | rfl | hs
    · exact others _ hL s (Or.inl hs)
    · have hr := hL (.rule R.line R.col R.head (R.qLit :: R.body)) R.src_mem
      have hrT := hS.1 (.rule R.line R.col R.head R.body) R.res_mem
      simp only [stmSat, stdParams_headSat, stdParams_toParams] at hr hrT ⊢
      intro e
      exact ⟨rule_part P R hok e _ T (hr e).1 (hqL e), (hrT e).2⟩
    · exact others _ hL s (Or.inr hs)

end NgoVerif.Proofs.C08impl

/-! ## the executable check -/
namespace NgoVerif.Proofs.C08impl
open NgoVerif NgoVerif.Sem
variable (P : Params)

theorem evalTerms_cons_some (e : Env) (t : Term) (ts : List Term) (vs : List Sym) (h : evalTerms P e (t :: ts) = some vs) :
    ∃ x xs, vs = x :: xs ∧ evalTerm P e t = some x ∧ evalTerms P e ts = some xs := by
  simp only [evalTerms] at h
  split at h
  · rename_i x xs hx hxs
    cases h
    exact ⟨x, xs, rfl, hx, hxs⟩
  · cases h

theorem evalTerms_cons_mk (e : Env) (t : Term) (ts : List Term) (x : Sym) (xs : List Sym) (hx : evalTerm P e t = some x)
    (hxs : evalTerms P e ts = some xs) : evalTerms P e (t :: ts) = some (x :: xs) := by
  simp only [evalTerms, hx, hxs]

/-- two term lists with the same values (under two environments) have position-wise the same values -/
theorem evalTerms_zip (e e' : Env) : ∀ (as bs : List Term) (vs : List Sym), evalTerms P e' as = some vs →
    evalTerms P e bs = some vs → ∀ p ∈ as.zip bs, evalTerm P e' p.1 = evalTerm P e p.2
  | [], _, _, _, _, p, hp => by simp at hp
  | _ :: _, [], _, _, _, p, hp => by simp at hp
  | a :: as, b :: bs, vs, ha, hb, p, hp => by
    obtain ⟨x, xs, rfl, hx, hxs⟩ := evalTerms_cons_some P e' a as vs ha
    obtain ⟨y, ys, hy, hy1, hys⟩ := evalTerms_cons_some P e b bs _ hb
    cases hy
    simp only [List.zip_cons_cons, List.mem_cons] at hp
    rcases hp with rfl | hp
    · simp only [hx, hy1]
    · exact evalTerms_zip e e' as bs xs hxs hys p hp

/-- an argument of the body literal of `q` in a rule deriving `p`: a variable that the head carries at a position where
the using rule's `p`-literal carries the deleted literal's argument, or the same constant -/
def posArgOk (hargs pargs : List Term) (w q : Term) : Bool :=
  match w with
  | .var v => (hargs.zip pargs).any fun x => termEqb x.1 (.var v) && termEqb x.2 q
  | .sym c => termEqb q (.sym c)
  | _ => false

theorem posArgOk_sound (e e' : Env) (hargs pargs : List Term) (vals : List Sym) (hh : evalTerms P e' hargs = some vals)
    (hp : evalTerms P e pargs = some vals) (w q : Term) (h : posArgOk hargs pargs w q = true) :
    evalTerm P e q = evalTerm P e' w := by
  cases w with
  | var v =>
    simp only [posArgOk, List.any_eq_true, Bool.and_eq_true] at h
    obtain ⟨x, hx, h1, h2⟩ := h
    have e1 := termEqb_eq _ _ h1
    have e2 := termEqb_eq _ _ h2
    have := evalTerms_zip P e e' hargs pargs vals hh hp x hx
    rw [e1, e2] at this
    exact this.symm
  | sym c =>
    simp only [posArgOk] at h
    have := termEqb_eq _ _ h
    subst this
    simp only [evalTerm]
  | un _ _ => simp [posArgOk] at h
  | bin _ _ _ => simp [posArgOk] at h
  | ival _ _ => simp [posArgOk] at h
  | fn _ _ _ => simp [posArgOk] at h
  | pool _ => simp [posArgOk] at h

theorem argsOk_sound (e e' : Env) (hargs pargs : List Term) (vals : List Sym) (hh : evalTerms P e' hargs = some vals)
    (hp : evalTerms P e pargs = some vals) : ∀ (wargs qargs : List Term) (wvals : List Sym),
    wargs.length = qargs.length → ((wargs.zip qargs).all fun x => posArgOk hargs pargs x.1 x.2) = true →
    evalTerms P e' wargs = some wvals → evalTerms P e qargs = some wvals
  | [], [], wvals, _, _, hw => by simpa [evalTerms] using hw
  | [], _ :: _, _, hl, _, _ => by simp at hl
  | _ :: _, [], _, hl, _, _ => by simp at hl
  | w :: ws, q :: qs, wvals, hl, hall, hw => by
    obtain ⟨x, xs, rfl, hx, hxs⟩ := evalTerms_cons_some P e' w ws wvals hw
    simp only [List.zip_cons_cons, List.all_cons, Bool.and_eq_true] at hall
    have h1 := posArgOk_sound P e e' hargs pargs vals hh hp w q hall.1
    have h2 := argsOk_sound e e' hargs pargs vals hh hp ws qs xs (by simpa using hl) hall.2 hxs
    exact evalTerms_cons_mk P e q qs x xs (h1.trans hx) h2

/-- every rule that can derive an atom of `pn/|pargs|` carries a positive `qn`-literal whose arguments are tied to the head -/
def ruleImplies (pn : String) (pargs : List Term) (qn : String) (qargs : List Term) : Stm → Bool
  | .rule _ _ (.lit (.pos, .sym (.fn n hargs false))) b =>
    if n == pn && hargs.length == pargs.length then
      b.any fun l =>
        match l with
        | .lit (.pos, .sym (.fn qn' wargs false)) =>
          qn' == qn && wargs.length == qargs.length && (wargs.zip qargs).all fun x => posArgOk hargs pargs x.1 x.2
        | _ => false
    else true
  | _ => true

def impliedCheck (R : Rewrite) : Bool :=
  R.src.all okStm && blitMem R.pLit R.body && R.src.all (ruleImplies R.pn R.pargs R.qn R.qargs)

theorem impliedCheck_sound (R : Rewrite) (h : impliedCheck R = true) : Ok R.src ∧ Implied P R := by
  simp only [impliedCheck, Bool.and_eq_true, List.all_eq_true] at h
  obtain ⟨⟨hok, hp⟩, himp⟩ := h
  refine ⟨hok, blitMem_mem hp, ?_⟩
  intro l c t b hs e e' vals hv hg H T hbody
  have hri := himp _ hs
  cases t with
  | fn n hargs ext =>
    cases ext with
    | false =>
      simp only [groundAtom, Option.map_eq_some_iff] at hg
      obtain ⟨hvals, hhv, heq⟩ := hg
      have hn : n = R.pn := by
        have := congrArg GAtom.name heq
        simpa using this
      have hvs : hvals = vals := by
        have := congrArg GAtom.args heq
        simpa using this
      subst hvs
      have hlen : hargs.length = R.pargs.length := by
        rw [← evalTerms_length P e' hargs hvals hhv, ← evalTerms_length P e R.pargs hvals hv]
      simp only [ruleImplies, hn, hlen, beq_self_eq_true, Bool.and_self, if_true, List.any_eq_true] at hri
      obtain ⟨ql, hql, hcond⟩ := hri
      split at hcond
      · rename_i qn' wargs
        simp only [Bool.and_eq_true, beq_iff_eq] at hcond
        obtain ⟨⟨hqn, hwl⟩, hall⟩ := hcond
        subst hqn
        have hsat := hbody _ hql
        simp only [blitSat, litSat, atomSat, groundAtom, Option.map_eq_some_iff] at hsat
        obtain ⟨a, ⟨wvals, hwv, rfl⟩, hHa⟩ := hsat
        exact ⟨wvals, argsOk_sound P e e' hargs R.pargs hvals hhv hv wargs R.qargs wvals hwl hall hwv, hHa⟩
      · cases hcond
    | true => simp [groundAtom] at hg
  | var _ => simp [groundAtom] at hg
  | sym _ => simp [groundAtom] at hg
  | un _ _ => simp [groundAtom] at hg
  | bin _ _ _ => simp [groundAtom] at hg
  | ival _ _ => simp [groundAtom] at hg
  | pool _ => simp [groundAtom] at hg

/-- the body before the deletion has the literals of `q :: body after` (in any order) -/
def sameLits (a b : List BLit) : Bool := a.all (fun x => blitMem x b) && b.all (fun x => blitMem x a)

theorem sameLits_sound (a b : List BLit) (h : sameLits a b = true) : ∀ x, x ∈ a ↔ x ∈ b := by
  simp only [sameLits, Bool.and_eq_true, List.all_eq_true] at h
  exact fun x => ⟨fun hx => blitMem_mem (h.1 x hx), fun hx => blitMem_mem (h.2 x hx)⟩

/-- **end to end**: a rewrite that passes the executable check keeps the stable models -/
theorem remove_implied_of_check (R : Rewrite) (h : impliedCheck R = true) (T : Interp) :
    Stable (stdParams P) R.src T ↔ Stable (stdParams P) R.res T :=
  remove_implied P R (impliedCheck_sound P R h).1 (impliedCheck_sound P R h).2 T

end NgoVerif.Proofs.C08impl
