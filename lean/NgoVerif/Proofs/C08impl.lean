import NgoVerif.Sem.Head
import NgoVerif.Sem.DecEq
/-!
# `cleanup`: deleting a positive body literal that another body literal implies — for typed programs

`h :- …, p(s̄), q(t̄), … .`  becomes  `h :- …, p(s̄), … .`  when every rule that can derive an atom of `p` carries, in its
body (or, for a choice element, in its condition), the positive literal of `q` that the deleted one is an instance of.
Setting: programs whose rules have plain heads (a literal: atom, negated atom, comparison, `#false`; or a choice
`lg { a : c̄ ; … } rg` whose elements are positive atoms under plain conditions) and plain bodies (symbolic literals of any
sign, comparisons, boolean constants) - the fragment in which satisfaction of a body is monotone in the `here' world;
standard head semantics, every parameter choice whose double negation is evaluated in the total interpretation (the
bounds of a choice).  The argument is the one of `Meta/M6.lean`, for rule FAMILIES (all instances of the
rewritten rule at once):

* `⇒`  a stable model `T` supports each of its atoms (`supported`): the instance that derives `p(s̄e)` has a true body,
  which contains `q(…)`, so `T` satisfies the shortened rule; a model of the shortened program is a model of the source.
* `⇐`  if `H ⊂ T` were a model of the source, the least model below `T` would be a strictly smaller model of the
  shortened program: were `q(t̄e)` missing from it, deleting `p(s̄e)` would give a yet smaller model (`remove_atom_model`).
-/
namespace NgoVerif.Proofs.C08impl
open NgoVerif NgoVerif.Sem

variable (P : Params)

/-! ## the fragment -/

def plainLit : Lit → Bool
  | (_, .sym _) => true
  | (_, .cmp _ _) => true
  | (_, .bool _) => true
  | _ => false

def plainBLit : BLit → Bool
  | .lit l => plainLit l
  | _ => false

def plainBody (b : List BLit) : Bool := b.all plainBLit

/-- a choice element: a positive atom under a plain condition -/
def plainElem (c : CondLit) : Bool :=
  (match c.1 with
   | (.pos, .sym _) => true
   | _ => false) && c.2.all plainLit

def plainHead : Head → Bool
  | .lit l => plainLit l
  | .agg _ elems _ => elems.all plainElem
  | _ => false

def okStm : Stm → Bool
  | .rule _ _ h b => plainHead h && plainBody b
  | _ => true

/-- double negation (the bounds of a choice) is evaluated in the total interpretation only -/
def DnegOld : Prop := ∀ lg rg X Y, P.oldAggRel .dneg lg rg X Y ↔ P.oldAggRel .dneg lg rg Y Y

theorem litSat_mono (l : Lit) (hl : plainLit l = true) (G G' : String → Prop) (e : Env) (H₁ H₂ T : Interp)
    (h12 : Sub H₁ H₂) : litSat P G e H₁ T l → litSat P G' e H₂ T l := by
  match l, hl with
  | (.pos, .sym t), _ =>
    simp only [litSat, atomSat]
    rintro ⟨a, ha, hH⟩
    exact ⟨a, ha, h12 a hH⟩
  | (.neg, .sym t), _ => simp only [litSat, atomSat]; exact id
  | (.dneg, .sym t), _ => simp only [litSat, atomSat]; exact id
  | (.pos, .cmp t gs), _ => simp only [litSat, atomSat]; exact id
  | (.neg, .cmp t gs), _ => simp only [litSat, atomSat]; exact id
  | (.dneg, .cmp t gs), _ => simp only [litSat, atomSat]; exact id
  | (.pos, .bool b), _ => simp only [litSat, atomSat]; exact id
  | (.neg, .bool b), _ => simp only [litSat, atomSat]; exact id
  | (.dneg, .bool b), _ => simp only [litSat, atomSat]; exact id

theorem litsSat_mono (G G' : String → Prop) (e : Env) (H₁ H₂ T : Interp) (h12 : Sub H₁ H₂) :
    ∀ (c : List Lit), c.all plainLit = true → litsSat P G e H₁ T c → litsSat P G' e H₂ T c
  | [], _, _ => by simp only [litsSat]
  | l :: ls, hc, h => by
    simp only [List.all_cons, Bool.and_eq_true] at hc
    simp only [litsSat] at h ⊢
    exact ⟨litSat_mono P l hc.1 G G' e H₁ H₂ T h12 h.1, litsSat_mono G G' e H₁ H₂ T h12 ls hc.2 h.2⟩

theorem blitSat_mono (l : BLit) (hl : plainBLit l = true) (G G' : String → Prop) (e : Env) (H₁ H₂ T : Interp)
    (h12 : Sub H₁ H₂) : blitSat P G e H₁ T l → blitSat P G' e H₂ T l := by
  cases l with
  | lit l => simp only [blitSat]; exact litSat_mono P l hl G G' e H₁ H₂ T h12
  | clit c => simp [plainBLit] at hl

theorem bodySat_mono (b : List BLit) (hb : plainBody b = true) (G G' : String → Prop) (e : Env) (H₁ H₂ T : Interp)
    (h12 : Sub H₁ H₂) : bodySat P G e H₁ T b → bodySat P G' e H₂ T b := by
  intro h l hl
  simp only [plainBody, List.all_eq_true] at hb
  exact blitSat_mono P l (hb l hl) G G' e H₁ H₂ T h12 (h l hl)

theorem bodySat_G (b : List BLit) (hb : plainBody b = true) (G G' : String → Prop) (e : Env) (H T : Interp) :
    bodySat P G e H T b ↔ bodySat P G' e H T b :=
  ⟨bodySat_mono P b hb G G' e H H T (fun _ h => h), bodySat_mono P b hb G' G e H H T (fun _ h => h)⟩

theorem atomHead_sat (G : String → Prop) (e : Env) (H T : Interp) (t : Term) :
    stdHeadSat P G e H T (.lit (.pos, .sym t)) ↔ ∀ a, groundAtom P e t = some a → H a := by
  simp only [stdHeadSat, headLitSat]

theorem choiceHead_sat (hdn : DnegOld P) (G : String → Prop) (e : Env) (H T : Interp) (lg rg : Option Guard) (elems : List CondLit) :
    stdHeadSat P G e H T (.agg lg elems rg) ↔
      choiceOk P G e H T elems ∧
        P.oldAggRel .dneg (guardVal P e lg) (guardVal P e rg) (cCount P G e T T elems) (cCount P G e T T elems) := by
  simp only [stdHeadSat]
  rw [hdn (guardVal P e lg) (guardVal P e rg) (cCount P G e H H elems) (cCount P G e T T elems)]

/-- a plain head is a positive atom, a choice, or does not look at `H` (and not at the set of global variables) -/
theorem head_cases (h : Head) (hh : plainHead h = true) :
    (∃ t, h = .lit (.pos, .sym t)) ∨ (∃ lg elems rg, h = .agg lg elems rg ∧ elems.all plainElem = true) ∨
      (∀ (G G' : String → Prop) (e : Env) (H H' T : Interp), stdHeadSat P G e H T h → stdHeadSat P G' e H' T h) := by
  match h, hh with
  | .lit (.pos, .sym t), _ => exact Or.inl ⟨t, rfl⟩
  | .agg lg elems rg, hh => exact Or.inr (Or.inl ⟨lg, elems, rg, rfl, by simpa [plainHead] using hh⟩)
  | .lit (.neg, .sym t), _ => right; right; intro G G' e H H' T; simp only [stdHeadSat, headLitSat]; exact id
  | .lit (.dneg, .sym t), _ => right; right; intro G G' e H H' T; simp only [stdHeadSat, headLitSat]; exact id
  | .lit (.pos, .cmp t gs), _ => right; right; intro G G' e H H' T; simp only [stdHeadSat, headLitSat, litSat, atomSat]; exact id
  | .lit (.neg, .cmp t gs), _ => right; right; intro G G' e H H' T; simp only [stdHeadSat, headLitSat, litSat, atomSat]; exact id
  | .lit (.dneg, .cmp t gs), _ => right; right; intro G G' e H H' T; simp only [stdHeadSat, headLitSat, litSat, atomSat]; exact id
  | .lit (.pos, .bool b), _ => right; right; intro G G' e H H' T; simp only [stdHeadSat, headLitSat, litSat, atomSat]; exact id
  | .lit (.neg, .bool b), _ => right; right; intro G G' e H H' T; simp only [stdHeadSat, headLitSat, litSat, atomSat]; exact id
  | .lit (.dneg, .bool b), _ => right; right; intro G G' e H H' T; simp only [stdHeadSat, headLitSat, litSat, atomSat]; exact id

theorem elem_shape (c : CondLit) (hc : plainElem c = true) : (∃ t, c.1 = (.pos, .sym t)) ∧ c.2.all plainLit = true := by
  simp only [plainElem, Bool.and_eq_true] at hc
  refine ⟨?_, hc.2⟩
  obtain ⟨⟨s, a⟩, cond⟩ := c
  cases s <;> cases a <;> simp_all

/-! ## derivations, and deleting an atom no rule can derive below -/

def Ok (prg : Prog) : Prop := ∀ s ∈ prg, okStm s = true

theorem ok_rule {prg : Prog} (hok : Ok prg) {l c : Nat} {h : Head} {b : List BLit} (hs : Stm.rule l c h b ∈ prg) :
    plainHead h = true ∧ plainBody b = true := by
  have := hok _ hs
  simpa [okStm, Bool.and_eq_true] using this

/-- some rule instance of `prg` derives the ground atom `a` at `(H,T)`: a plain rule with head atom `a` whose body
holds, or a choice element with atom `a` whose condition and rule body hold -/
def Derives (prg : Prog) (a : GAtom) (H T : Interp) : Prop :=
  (∃ l c t b e, Stm.rule l c (.lit (.pos, .sym t)) b ∈ prg ∧ groundAtom P e t = some a ∧
      bodySat P (fun _ => True) e H T b) ∨
  (∃ l c lg elems rg b cl t e e', Stm.rule l c (.agg lg elems rg) b ∈ prg ∧ cl ∈ elems ∧ cl.1 = (.pos, .sym t) ∧
      Agree (fun v => v ∈ ruleGlobals (stdParams P) (.agg lg elems rg) b) e e' ∧ groundAtom P e' t = some a ∧
      bodySat P (fun _ => True) e H T b ∧ litsSat P (fun _ => True) e' H T cl.2)

theorem remove_atom_model (hdn : DnegOld P) (prg : Prog) (hok : Ok prg) {H T : Interp} (hM : Models (stdParams P) prg H T)
    (a : GAtom) (hblock : ¬ Derives P prg a H T) :
    Models (stdParams P) prg (fun x => H x ∧ x ≠ a) T := by
  intro s hs
  cases s with
  | rule l c h b =>
    obtain ⟨hh, hb⟩ := ok_rule hok hs
    have hsat := hM _ hs
    simp only [stmSat, stdParams_headSat, stdParams_toParams] at hsat ⊢
    intro e
    refine ⟨?_, (hsat e).2⟩
    intro hbody
    have hbody' := bodySat_mono P b hb _ (fun v => v ∈ ruleGlobals (stdParams P) h b) e (fun x => H x ∧ x ≠ a) H T
      (fun _ hx => hx.1) hbody
    have hhead := (hsat e).1 hbody'
    rcases head_cases P h hh with ⟨t, rfl⟩ | ⟨lg, elems, rg, rfl, hel⟩ | hconst
    · rw [atomHead_sat] at hhead ⊢
      intro a' ha'
      refine ⟨hhead a' ha', ?_⟩
      rintro rfl
      exact hblock (Or.inl ⟨l, c, t, b, e, hs, ha', (bodySat_G P b hb _ _ e H T).mp hbody'⟩)
    · rw [choiceHead_sat P hdn] at hhead ⊢
      refine ⟨?_, hhead.2⟩
      intro cl hcl e' hag hcond
      obtain ⟨⟨t, ht⟩, hplain⟩ := elem_shape cl (List.all_eq_true.mp hel cl hcl)
      have hcond' := litsSat_mono P _ (fun v => v ∈ ruleGlobals (stdParams P) (.agg lg elems rg) b) e' (fun x => H x ∧ x ≠ a) H T
        (fun _ hx => hx.1) cl.2 hplain hcond
      rcases hhead.1 cl hcl e' hag hcond' with hl | hr
      · rw [ht] at hl ⊢
        simp only [litSat, atomSat] at hl ⊢
        obtain ⟨a', ha', hHa'⟩ := hl
        left
        refine ⟨a', ha', hHa', ?_⟩
        rintro rfl
        exact hblock (Or.inr ⟨l, c, lg, elems, rg, b, cl, t, e, e', hs, hcl, ht, hag, ha',
          (bodySat_G P b hb _ _ e H T).mp hbody', litsSat_mono P _ _ e' H H T (fun _ x => x) cl.2 hplain hcond'⟩)
      · exact Or.inr hr
    · exact hconst _ _ e H _ T hhead
  | _ => simp only [stmSat]

/-- **supportedness**: every atom of a stable model is derived by a rule instance whose body holds in it -/
theorem supported (hdn : DnegOld P) (prg : Prog) (hok : Ok prg) {T : Interp} (hS : Stable (stdParams P) prg T) (a : GAtom)
    (ha : T a) : Derives P prg a T T := by
  apply Classical.byContradiction
  intro hno
  exact hS.2 _ (fun _ hx => hx.1) ⟨a, ha, fun hx => hx.2 rfl⟩ (remove_atom_model P hdn prg hok hS.1 a hno)

/-! ## the least model below `T` -/

def least (prg : Prog) (T : Interp) : Interp := fun a => ∀ H, Sub H T → Models (stdParams P) prg H T → H a

theorem least_sub (prg : Prog) {T : Interp} (hT : Models (stdParams P) prg T T) : Sub (least P prg T) T :=
  fun a h => h T (fun _ x => x) hT

theorem least_le (prg : Prog) {H T : Interp} (hHT : Sub H T) (hM : Models (stdParams P) prg H T) : Sub (least P prg T) H :=
  fun a h => h H hHT hM

theorem least_model (hdn : DnegOld P) (prg : Prog) (hok : Ok prg) {T : Interp} (hT : Models (stdParams P) prg T T) :
    Models (stdParams P) prg (least P prg T) T := by
  intro s hs
  cases s with
  | rule l c h b =>
    obtain ⟨hh, hb⟩ := ok_rule hok hs
    have hsatT := hT _ hs
    simp only [stmSat, stdParams_headSat, stdParams_toParams] at hsatT ⊢
    intro e
    refine ⟨?_, (hsatT e).2⟩
    intro hbody
    have key : ∀ H, Sub H T → Models (stdParams P) prg H T →
        stdHeadSat P (fun v => v ∈ ruleGlobals (stdParams P) h b) e H T h := by
      intro H hHT hM
      have hsat := hM _ hs
      simp only [stmSat, stdParams_headSat, stdParams_toParams] at hsat
      exact (hsat e).1 (bodySat_mono P b hb _ (fun v => v ∈ ruleGlobals (stdParams P) h b) e _ H T (least_le P prg hHT hM) hbody)
    rcases head_cases P h hh with ⟨t, rfl⟩ | ⟨lg, elems, rg, rfl, hel⟩ | hconst
    · rw [atomHead_sat]
      intro a ha H hHT hM
      have := key H hHT hM
      rw [atomHead_sat] at this
      exact this a ha
    · have keyT := key T (fun _ x => x) hT
      rw [choiceHead_sat P hdn] at keyT ⊢
      refine ⟨?_, keyT.2⟩
      intro cl hcl e' hag hcond
      obtain ⟨⟨t, ht⟩, hplain⟩ := elem_shape cl (List.all_eq_true.mp hel cl hcl)
      by_cases hT' : litSat P (fun v => v ∈ ruleGlobals (stdParams P) (.agg lg elems rg) b) e' T T cl.1
      · left
        rw [ht] at hT' ⊢
        simp only [litSat, atomSat] at hT' ⊢
        obtain ⟨a, ha, _⟩ := hT'
        refine ⟨a, ha, ?_⟩
        intro H hHT hM
        have hk := key H hHT hM
        rw [choiceHead_sat P hdn] at hk
        have hc' := litsSat_mono P _ (fun v => v ∈ ruleGlobals (stdParams P) (.agg lg elems rg) b) e' _ H T
          (least_le P prg hHT hM) cl.2 hplain hcond
        rcases hk.1 cl hcl e' hag hc' with hl | hr
        · rw [ht] at hl
          simp only [litSat, atomSat] at hl
          obtain ⟨a', ha', hHa'⟩ := hl
          rw [ha] at ha'
          cases ha'
          exact hHa'
        · rw [ht] at hr
          simp only [litSat, atomSat] at hr
          exact absurd ⟨a, ha, by assumption⟩ hr
      · exact Or.inr hT'
    · exact hconst _ _ e T _ T (key T (fun _ x => x) hT)
  | _ => simp only [stmSat]

/-- every atom of `X` is derived at `(X,T)` -/
def Supp (prg : Prog) (X T : Interp) : Prop := ∀ a, X a → Derives P prg a X T

theorem supp_stable (hdn : DnegOld P) (prg : Prog) (hok : Ok prg) {T : Interp} (hS : Stable (stdParams P) prg T) :
    Supp P prg T T := fun a ha => supported P hdn prg hok hS a ha

/-- the least model below `T` is supported: an atom without a derivation could be deleted from it -/
theorem supp_least (hdn : DnegOld P) (prg : Prog) (hok : Ok prg) {T : Interp} (hT : Models (stdParams P) prg T T) :
    Supp P prg (least P prg T) T := by
  intro a ha
  apply Classical.byContradiction
  intro hno
  have hM1 := remove_atom_model P hdn prg hok (least_model P hdn prg hok hT) a hno
  have := ha (fun x => least P prg T x ∧ x ≠ a) (fun x h => least_sub P prg hT x h.1) hM1
  exact this.2 rfl

/-! ## the rewrite -/

/-- the rewritten rule and what is deleted from it -/
structure Rewrite where
  pre : Prog
  post : Prog
  line : Nat
  col : Nat
  head : Head
  body : List BLit          -- the body after the deletion
  pn : String
  pargs : List Term
  qn : String
  qargs : List Term

namespace Rewrite
def pLit (R : Rewrite) : BLit := .lit (.pos, .sym (.fn R.pn R.pargs false))
def qLit (R : Rewrite) : BLit := .lit (.pos, .sym (.fn R.qn R.qargs false))
def src (R : Rewrite) : Prog := R.pre ++ .rule R.line R.col R.head (R.qLit :: R.body) :: R.post
def res (R : Rewrite) : Prog := R.pre ++ .rule R.line R.col R.head R.body :: R.post
theorem src_mem (R : Rewrite) : Stm.rule R.line R.col R.head (R.qLit :: R.body) ∈ R.src := by simp [src]
theorem res_mem (R : Rewrite) : Stm.rule R.line R.col R.head R.body ∈ R.res := by simp [res]
end Rewrite

/-- the semantic side condition: `p(s̄)` stays in the body; the deleted literal has no variable of its own (so the rule
keeps its global variables); and whenever the source derives the ground atom `p(s̄e)` at `(H,T)`, the ground atom `q(t̄e)`
is in `H` - stated for SUPPORTED interpretations `X` (every atom of `X` has a derivation at `(X,T)`): stable models and the
least model below one are supported, and a chain of implications `p ⟸ r ⟸ q` can be followed through them -/
structure Implied (R : Rewrite) : Prop where
  pmem : R.pLit ∈ R.body
  globals : ∀ v, v ∈ ruleGlobals (stdParams P) R.head (R.qLit :: R.body) ↔ v ∈ ruleGlobals (stdParams P) R.head R.body
  imp : ∀ e vals, evalTerms P e R.pargs = some vals → ∀ X T, Supp P R.src X T → X ⟨R.pn, vals⟩ →
    ∃ qvals, evalTerms P e R.qargs = some qvals ∧ X ⟨R.qn, qvals⟩

theorem sameG (R : Rewrite) (hG : ∀ v, v ∈ ruleGlobals (stdParams P) R.head (R.qLit :: R.body) ↔ v ∈ ruleGlobals (stdParams P) R.head R.body) :
    (fun v => v ∈ ruleGlobals (stdParams P) R.head (R.qLit :: R.body)) = (fun v => v ∈ ruleGlobals (stdParams P) R.head R.body) := by
  funext v
  exact propext (hG v)

theorem res_models_src (R : Rewrite) (hok : Ok R.src)
    (hG : ∀ v, v ∈ ruleGlobals (stdParams P) R.head (R.qLit :: R.body) ↔ v ∈ ruleGlobals (stdParams P) R.head R.body)
    (H T : Interp) (hM : Models (stdParams P) R.res H T) : Models (stdParams P) R.src H T := by
  intro s hs
  simp only [Rewrite.src, List.mem_append, List.mem_cons] at hs
  rcases hs with hs | rfl | hs
  · exact hM s (by simp only [Rewrite.res, List.mem_append, List.mem_cons]; exact Or.inl hs)
  · have hr := hM (.rule R.line R.col R.head R.body) R.res_mem
    simp only [stmSat, stdParams_headSat, stdParams_toParams] at hr ⊢
    rw [sameG P R hG]
    intro e
    exact ⟨fun hb => (hr e).1 (fun l hl => hb l (List.mem_cons_of_mem _ hl)),
      fun hb => (hr e).2 (fun l hl => hb l (List.mem_cons_of_mem _ hl))⟩
  · exact hM s (by simp only [Rewrite.res, List.mem_append, List.mem_cons]; exact Or.inr (Or.inr hs))

/-- one half of the satisfaction of the shortened rule at `e`: from the same half of the source rule, when the deleted
literal holds whenever the shortened body does -/
theorem rule_part (R : Rewrite) (hok : Ok R.src)
    (hG : ∀ v, v ∈ ruleGlobals (stdParams P) R.head (R.qLit :: R.body) ↔ v ∈ ruleGlobals (stdParams P) R.head R.body)
    (e : Env) (X T : Interp)
    (hsrc : bodySat P (fun v => v ∈ ruleGlobals (stdParams P) R.head (R.qLit :: R.body)) e X T (R.qLit :: R.body) →
      stdHeadSat P (fun v => v ∈ ruleGlobals (stdParams P) R.head (R.qLit :: R.body)) e X T R.head)
    (hq : bodySat P (fun _ => True) e X T R.body → blitSat P (fun _ => True) e X T R.qLit) :
    bodySat P (fun v => v ∈ ruleGlobals (stdParams P) R.head R.body) e X T R.body →
      stdHeadSat P (fun v => v ∈ ruleGlobals (stdParams P) R.head R.body) e X T R.head := by
  have hokr : plainHead R.head = true ∧ plainBody (R.qLit :: R.body) = true := ok_rule hok R.src_mem
  have hb' : plainBody R.body = true := by
    have := hokr.2
    simp only [plainBody, List.all_cons, Bool.and_eq_true] at this ⊢
    exact this.2
  rw [sameG P R hG] at hsrc
  intro hy
  have h1 := (bodySat_G P R.body hb' _ (fun _ => True) e X T).mp hy
  apply hsrc
  apply (bodySat_G P (R.qLit :: R.body) hokr.2 (fun _ => True) _ e X T).mp
  intro l hl
  rcases List.mem_cons.mp hl with rfl | hl
  · exact hq h1
  · exact h1 l hl

theorem pLit_sat (R : Rewrite) (e : Env) (X T : Interp) (hp : R.pLit ∈ R.body)
    (hb : bodySat P (fun _ => True) e X T R.body) : ∃ vals, evalTerms P e R.pargs = some vals ∧ X ⟨R.pn, vals⟩ := by
  have := hb _ hp
  simp only [Rewrite.pLit, blitSat, litSat, atomSat, groundAtom, Option.map_eq_some_iff] at this
  obtain ⟨a, ⟨vals, hv, rfl⟩, hX⟩ := this
  exact ⟨vals, hv, hX⟩

theorem qLit_sat (R : Rewrite) (e : Env) (X T : Interp) (qvals : List Sym) (hv : evalTerms P e R.qargs = some qvals)
    (hX : X ⟨R.qn, qvals⟩) : blitSat P (fun _ => True) e X T R.qLit := by
  simp only [Rewrite.qLit, blitSat, litSat, atomSat, groundAtom, Option.map_eq_some_iff]
  exact ⟨_, ⟨qvals, hv, rfl⟩, hX⟩

/-- **deleting the implied literal keeps the stable models** -/
theorem remove_implied (hdn : DnegOld P) (R : Rewrite) (hok : Ok R.src) (himp : Implied P R) (T : Interp) :
    Stable (stdParams P) R.src T ↔ Stable (stdParams P) R.res T := by
  obtain ⟨hp, hG, himp⟩ := himp
  have others : ∀ (X : Interp), Models (stdParams P) R.src X T → ∀ s, s ∈ R.pre ∨ s ∈ R.post → stmSat (stdParams P) X T s := by
    intro X hM s hs
    apply hM s
    simp only [Rewrite.src, List.mem_append, List.mem_cons]
    rcases hs with hs | hs
    · exact Or.inl hs
    · exact Or.inr (Or.inr hs)
  constructor
  · intro hS
    refine ⟨?_, fun H hHT hne hM => hS.2 H hHT hne (res_models_src P R hok hG H T hM)⟩
    have hqT : ∀ e, bodySat P (fun _ => True) e T T R.body → blitSat P (fun _ => True) e T T R.qLit := by
      intro e hb
      obtain ⟨vals, hv, hT⟩ := pLit_sat P R e T T hp hb
      obtain ⟨qvals, hqv, hq⟩ := himp e vals hv T T (supp_stable P hdn R.src hok hS) hT
      exact qLit_sat P R e T T qvals hqv hq
    intro s hs
    simp only [Rewrite.res, List.mem_append, List.mem_cons] at hs
    rcases hs with hs | rfl | hs
    · exact others T hS.1 s (Or.inl hs)
    · have hr := hS.1 (.rule R.line R.col R.head (R.qLit :: R.body)) R.src_mem
      simp only [stmSat, stdParams_headSat, stdParams_toParams] at hr ⊢
      intro e
      exact ⟨rule_part P R hok hG e T T (hr e).1 (hqT e), rule_part P R hok hG e T T (hr e).2 (hqT e)⟩
    · exact others T hS.1 s (Or.inr hs)
  · intro hS
    have hMT : Models (stdParams P) R.src T T := res_models_src P R hok hG T T hS.1
    refine ⟨hMT, ?_⟩
    intro H hHT hne hM
    have hL := least_model P hdn R.src hok hMT
    have hLH : Sub (least P R.src T) H := least_le P R.src hHT hM
    have hLT : Sub (least P R.src T) T := least_sub P R.src hMT
    obtain ⟨c, hc, hnc⟩ := hne
    refine hS.2 (least P R.src T) hLT ⟨c, hc, fun h => hnc (hLH c h)⟩ ?_
    have hqL : ∀ e, bodySat P (fun _ => True) e (least P R.src T) T R.body →
        blitSat P (fun _ => True) e (least P R.src T) T R.qLit := by
      intro e hb
      obtain ⟨vals, hv, hLp⟩ := pLit_sat P R e _ T hp hb
      obtain ⟨qvals, hqv, hq⟩ := himp e vals hv _ T (supp_least P hdn R.src hok hMT) hLp
      exact qLit_sat P R e _ T qvals hqv hq
    intro s hs
    simp only [Rewrite.res, List.mem_append, List.mem_cons] at hs
    rcases hs with hs | rfl | hs
    · exact others _ hL s (Or.inl hs)
    · have hr := hL (.rule R.line R.col R.head (R.qLit :: R.body)) R.src_mem
      have hrT := hS.1 (.rule R.line R.col R.head R.body) R.res_mem
      simp only [stmSat, stdParams_headSat, stdParams_toParams] at hr hrT ⊢
      intro e
      exact ⟨rule_part P R hok hG e _ T (hr e).1 (hqL e), (hrT e).2⟩
    · exact others _ hL s (Or.inr hs)

end NgoVerif.Proofs.C08impl

/-! ## the executable check -/
namespace NgoVerif.Proofs.C08impl
open NgoVerif NgoVerif.Sem
variable (P : Params)

theorem evalTerms_cons_some (e : Env) (t : Term) (ts : List Term) (vs : List Sym) (h : evalTerms P e (t :: ts) = some vs) :
    ∃ x xs, vs = x :: xs ∧ evalTerm P e t = some x ∧ evalTerms P e ts = some xs := by
  simp only [evalTerms] at h
  split at h
  · rename_i x xs hx hxs
    cases h
    exact ⟨x, xs, rfl, hx, hxs⟩
  · cases h

theorem evalTerms_cons_mk (e : Env) (t : Term) (ts : List Term) (x : Sym) (xs : List Sym) (hx : evalTerm P e t = some x)
    (hxs : evalTerms P e ts = some xs) : evalTerms P e (t :: ts) = some (x :: xs) := by
  simp only [evalTerms, hx, hxs]

/-- two term lists with the same values (under two environments) have position-wise the same values -/
theorem evalTerms_zip (e e' : Env) : ∀ (as bs : List Term) (vs : List Sym), evalTerms P e' as = some vs →
    evalTerms P e bs = some vs → ∀ p ∈ as.zip bs, evalTerm P e' p.1 = evalTerm P e p.2
  | [], _, _, _, _, p, hp => by simp at hp
  | _ :: _, [], _, _, _, p, hp => by simp at hp
  | a :: as, b :: bs, vs, ha, hb, p, hp => by
    obtain ⟨x, xs, rfl, hx, hxs⟩ := evalTerms_cons_some P e' a as vs ha
    obtain ⟨y, ys, hy, hy1, hys⟩ := evalTerms_cons_some P e b bs _ hb
    cases hy
    simp only [List.zip_cons_cons, List.mem_cons] at hp
    rcases hp with rfl | hp
    · simp only [hx, hy1]
    · exact evalTerms_zip e e' as bs xs hxs hys p hp

/-- an argument of the literal of `q` next to a derivation of `p`: a variable that the derived atom carries at a position
where the using rule's `p`-literal carries the deleted literal's argument, or the same constant -/
def posArgOk (hargs pargs : List Term) (w q : Term) : Bool :=
  match w with
  | .var v => (hargs.zip pargs).any fun x => termEqb x.1 (.var v) && termEqb x.2 q
  | .sym c => termEqb q (.sym c)
  | _ => false

theorem posArgOk_sound (e e' : Env) (hargs pargs : List Term) (vals : List Sym) (hh : evalTerms P e' hargs = some vals)
    (hp : evalTerms P e pargs = some vals) (w q : Term) (h : posArgOk hargs pargs w q = true) :
    evalTerm P e q = evalTerm P e' w := by
  cases w with
  | var v =>
    simp only [posArgOk, List.any_eq_true, Bool.and_eq_true] at h
    obtain ⟨x, hx, h1, h2⟩ := h
    have e1 := termEqb_eq _ _ h1
    have e2 := termEqb_eq _ _ h2
    have := evalTerms_zip P e e' hargs pargs vals hh hp x hx
    rw [e1, e2] at this
    exact this.symm
  | sym c =>
    simp only [posArgOk] at h
    have := termEqb_eq _ _ h
    subst this
    simp only [evalTerm]
  | un _ _ => simp [posArgOk] at h
  | bin _ _ _ => simp [posArgOk] at h
  | ival _ _ => simp [posArgOk] at h
  | fn _ _ _ => simp [posArgOk] at h
  | pool _ => simp [posArgOk] at h

theorem argsOk_sound (e e' : Env) (hargs pargs : List Term) (vals : List Sym) (hh : evalTerms P e' hargs = some vals)
    (hp : evalTerms P e pargs = some vals) : ∀ (wargs qargs : List Term) (wvals : List Sym),
    wargs.length = qargs.length → ((wargs.zip qargs).all fun x => posArgOk hargs pargs x.1 x.2) = true →
    evalTerms P e' wargs = some wvals → evalTerms P e qargs = some wvals
  | [], [], wvals, _, _, hw => by simpa [evalTerms] using hw
  | [], _ :: _, _, hl, _, _ => by simp at hl
  | _ :: _, [], _, hl, _, _ => by simp at hl
  | w :: ws, q :: qs, wvals, hl, hall, hw => by
    obtain ⟨x, xs, rfl, hx, hxs⟩ := evalTerms_cons_some P e' w ws wvals hw
    simp only [List.zip_cons_cons, List.all_cons, Bool.and_eq_true] at hall
    have h1 := posArgOk_sound P e e' hargs pargs vals hh hp w q hall.1
    have h2 := argsOk_sound e e' hargs pargs vals hh hp ws qs xs (by simpa using hl) hall.2 hxs
    exact evalTerms_cons_mk P e q qs x xs (h1.trans hx) h2

/-- the literal is a positive `qn`-literal whose arguments are tied to the derived atom's arguments -/
def qMatch (hargs pargs : List Term) (qn : String) (qargs : List Term) : Lit → Bool
  | (.pos, .sym (.fn qn' wargs false)) =>
    qn' == qn && wargs.length == qargs.length && (wargs.zip qargs).all fun x => posArgOk hargs pargs x.1 x.2
  | _ => false

theorem qMatch_shape (hargs pargs : List Term) (qn : String) (qargs : List Term) (l : Lit)
    (hm : qMatch hargs pargs qn qargs l = true) : ∃ qn' wargs, l = (.pos, .sym (.fn qn' wargs false)) := by
  unfold qMatch at hm
  split at hm
  · rename_i qn' wargs
    exact ⟨qn', wargs, rfl⟩
  · cases hm

theorem qMatch_sound (e0 e' e'' : Env) (hargs pargs : List Term) (vals : List Sym) (hh : evalTerms P e' hargs = some vals)
    (hp : evalTerms P e0 pargs = some vals) (qn : String) (qargs : List Term) (l : Lit) (hm : qMatch hargs pargs qn qargs l = true)
    (hag : ∀ v ∈ litVars l, e'' v = e' v) (H T : Interp) (hsat : litSat P (fun _ => True) e'' H T l) :
    ∃ qvals, evalTerms P e0 qargs = some qvals ∧ H ⟨qn, qvals⟩ := by
  unfold qMatch at hm
  split at hm
  · rename_i qn' wargs
    simp only [Bool.and_eq_true, beq_iff_eq] at hm
    obtain ⟨⟨hqn, hwl⟩, hall⟩ := hm
    subst hqn
    simp only [litSat, atomSat, groundAtom, Option.map_eq_some_iff] at hsat
    obtain ⟨a, ⟨wvals, hwv, rfl⟩, hHa⟩ := hsat
    have hcong : evalTerms P e'' wargs = evalTerms P e' wargs := by
      apply evalTerms_congr
      intro v hv
      apply hag v
      simpa [litVars, litTerms, Atom.terms, Term.vars] using hv
    rw [hcong] at hwv
    exact ⟨wvals, argsOk_sound P e0 e' hargs pargs vals hh hp wargs qargs wvals hwl hall hwv, hHa⟩
  · cases hm

/-- every rule (every choice element) that can derive an atom of `pn/|pargs|` carries a matching positive `qn`-literal -/
def ruleImplies (pn : String) (pargs : List Term) (qn : String) (qargs : List Term) : Stm → Bool
  | .rule _ _ (.lit (.pos, .sym (.fn n hargs false))) b =>
    if n == pn && hargs.length == pargs.length then
      b.any fun l =>
        match l with
        | .lit l' => qMatch hargs pargs qn qargs l'
        | _ => false
    else true
  | .rule _ _ (.agg _ elems _) b =>
    elems.all fun cl =>
      match cl.1 with
      | (.pos, .sym (.fn n hargs false)) =>
        if n == pn && hargs.length == pargs.length then
          (cl.2.any fun l => qMatch hargs pargs qn qargs l) ||
            b.any fun l =>
              match l with
              | .lit l' => qMatch hargs pargs qn qargs l'
              | _ => false
        else true
      | _ => true
  | _ => true

/-- the deleted literal has no variable of its own -/
def qVarsOk (R : Rewrite) : Bool :=
  (R.qargs.flatMap Term.vars).all fun v => (stdHeadGlobals R.head ++ bodyGlobals R.body).contains v

def impliedCheck (R : Rewrite) : Bool :=
  R.src.all okStm && blitMem R.pLit R.body && qVarsOk R && R.src.all (ruleImplies R.pn R.pargs R.qn R.qargs)

theorem litsSat_mem (G : String → Prop) (e : Env) (H T : Interp) : ∀ (c : List Lit), litsSat P G e H T c → ∀ l ∈ c, litSat P G e H T l
  | [], _, l, hl => by simp at hl
  | x :: xs, h, l, hl => by
    simp only [litsSat] at h
    rcases List.mem_cons.mp hl with rfl | hl
    · exact h.1
    · exact litsSat_mem G e H T xs h.2 l hl

theorem ground_fn (e : Env) (t : Term) (n : String) (vals : List Sym) (h : groundAtom P e t = some ⟨n, vals⟩) :
    ∃ hargs, t = .fn n hargs false ∧ evalTerms P e hargs = some vals := by
  cases t with
  | fn n' hargs ext =>
    cases ext with
    | false =>
      simp only [groundAtom, Option.map_eq_some_iff] at h
      obtain ⟨hvals, hhv, heq⟩ := h
      have hn : n' = n := by
        have := congrArg GAtom.name heq
        simpa using this
      have hvs : hvals = vals := by
        have := congrArg GAtom.args heq
        simpa using this
      subst hn hvs
      exact ⟨hargs, rfl, hhv⟩
    | true => simp [groundAtom] at h
  | var _ => simp [groundAtom] at h
  | sym _ => simp [groundAtom] at h
  | un _ _ => simp [groundAtom] at h
  | bin _ _ _ => simp [groundAtom] at h
  | ival _ _ => simp [groundAtom] at h
  | pool _ => simp [groundAtom] at h

/-- from the syntactic test on every statement of a program to the implication between derivations and the `q`-atom -/
theorem imp_of_ruleImplies (prg : Prog) (pn : String) (pargs : List Term) (qn : String) (qargs : List Term)
    (himp : ∀ s ∈ prg, ruleImplies pn pargs qn qargs s = true) :
    ∀ e vals, evalTerms P e pargs = some vals → ∀ H T, Derives P prg ⟨pn, vals⟩ H T →
      ∃ qvals, evalTerms P e qargs = some qvals ∧ H ⟨qn, qvals⟩ := by
  intro e0 vals hv H T hd
  rcases hd with ⟨l, c, t, b, e', hs, hg, hbody⟩ | ⟨l, c, lg, elems, rg, b, cl, t, e, e', hs, hcl, ht, hag, hg, hbody, hcond⟩
  · obtain ⟨hargs, rfl, hhv⟩ := ground_fn P e' t pn vals hg
    have hri := himp _ hs
    have hlen : hargs.length = pargs.length := by
      rw [← evalTerms_length P e' hargs vals hhv, ← evalTerms_length P e0 pargs vals hv]
    simp only [ruleImplies, hlen, beq_self_eq_true, Bool.and_self, if_true, List.any_eq_true] at hri
    obtain ⟨bl, hbl, hm⟩ := hri
    cases bl with
    | lit l' =>
      have hsat := hbody _ hbl
      simp only [blitSat] at hsat
      exact qMatch_sound P e0 e' e' hargs pargs vals hhv hv qn qargs l' hm (fun _ _ => rfl) H T hsat
    | clit _ => cases hm
  · obtain ⟨hargs, rfl, hhv⟩ := ground_fn P e' t pn vals hg
    have hri := himp _ hs
    have hlen : hargs.length = pargs.length := by
      rw [← evalTerms_length P e' hargs vals hhv, ← evalTerms_length P e0 pargs vals hv]
    simp only [ruleImplies, List.all_eq_true] at hri
    have hcl' := hri cl hcl
    rw [ht] at hcl'
    simp only [hlen, beq_self_eq_true, Bool.and_self, if_true, Bool.or_eq_true, List.any_eq_true] at hcl'
    rcases hcl' with ⟨l', hl', hm⟩ | ⟨bl, hbl, hm⟩
    · exact qMatch_sound P e0 e' e' hargs pargs vals hhv hv qn qargs l' hm (fun _ _ => rfl) H T
        (litsSat_mem P _ e' H T cl.2 hcond l' hl')
    · cases bl with
      | lit l' =>
        have hsat := hbody _ hbl
        simp only [blitSat] at hsat
        refine qMatch_sound P e0 e' e hargs pargs vals hhv hv qn qargs l' hm ?_ H T hsat
        intro v hv'
        -- a variable of a plain body literal is a global variable of the rule: the two environments agree on it
        have hglob : v ∈ ruleGlobals (stdParams P) (.agg lg elems rg) b := by
          show v ∈ stdHeadGlobals (.agg lg elems rg) ++ bodyGlobals b
          apply List.mem_append_right
          simp only [bodyGlobals, List.mem_flatMap]
          refine ⟨.lit l', hbl, ?_⟩
          obtain ⟨qn', wargs, rfl⟩ := qMatch_shape hargs pargs qn qargs l' hm
          simpa [blitGlobals] using hv'
        exact (hag v hglob).symm
      | clit _ => cases hm

theorem impliedCheck_globals (R : Rewrite) (hqv : qVarsOk R = true) :
    ∀ v, v ∈ ruleGlobals (stdParams P) R.head (R.qLit :: R.body) ↔ v ∈ ruleGlobals (stdParams P) R.head R.body := by
  intro v
  have hq : ∀ v, v ∈ R.qargs.flatMap Term.vars → v ∈ stdHeadGlobals R.head ++ bodyGlobals R.body := by
    intro v hv
    have := (List.all_eq_true.mp hqv) v hv
    simpa using this
  show v ∈ stdHeadGlobals R.head ++ bodyGlobals (R.qLit :: R.body) ↔ v ∈ stdHeadGlobals R.head ++ bodyGlobals R.body
  simp only [bodyGlobals, List.flatMap_cons, List.mem_append]
  constructor
  · rintro (h1 | h2 | h3)
    · exact Or.inl h1
    · have : v ∈ R.qargs.flatMap Term.vars := by
        simpa [Rewrite.qLit, blitGlobals, litVars, litTerms, Atom.terms, Term.vars] using h2
      have := hq v this
      simpa [bodyGlobals, List.mem_append] using this
    · exact Or.inr h3
  · rintro (h1 | h3)
    · exact Or.inl h1
    · exact Or.inr (Or.inr h3)


theorem impliedCheck_sound (R : Rewrite) (h : impliedCheck R = true) : Ok R.src ∧ Implied P R := by
  simp only [impliedCheck, Bool.and_eq_true, List.all_eq_true] at h
  obtain ⟨⟨⟨hok, hp⟩, hqv⟩, himp⟩ := h
  refine ⟨hok, blitMem_mem hp, ?_, ?_⟩
  · exact impliedCheck_globals P R hqv
  · intro e vals hv X T hsupp hX
    exact imp_of_ruleImplies P R.src R.pn R.pargs R.qn R.qargs himp e vals hv X T (hsupp _ hX)

/-- the body before the deletion has the literals of `q :: body after` (in any order) -/
def sameLits (a b : List BLit) : Bool := a.all (fun x => blitMem x b) && b.all (fun x => blitMem x a)

theorem sameLits_sound (a b : List BLit) (h : sameLits a b = true) : ∀ x, x ∈ a ↔ x ∈ b := by
  simp only [sameLits, Bool.and_eq_true, List.all_eq_true] at h
  exact fun x => ⟨fun hx => blitMem_mem (h.1 x hx), fun hx => blitMem_mem (h.2 x hx)⟩

/-- **end to end**: a rewrite that passes the executable check keeps the stable models -/
theorem remove_implied_of_check (hdn : DnegOld P) (R : Rewrite) (h : impliedCheck R = true) (T : Interp) :
    Stable (stdParams P) R.src T ↔ Stable (stdParams P) R.res T :=
  remove_implied P hdn R (impliedCheck_sound P R h).1 (impliedCheck_sound P R h).2 T

end NgoVerif.Proofs.C08impl

/-! ## an implied literal deleted from the body of an objective: stable models and cost tuples are kept -/
namespace NgoVerif.Proofs.C08impl
open NgoVerif NgoVerif.Sem
variable (P : Params)

structure ObjRewrite where
  pre : Prog
  post : Prog
  line : Nat
  col : Nat
  weight : Term
  prio : Term
  terms : List Term
  body : List BLit          -- the body after the deletion
  pn : String
  pargs : List Term
  qn : String
  qargs : List Term

namespace ObjRewrite
def pLit (R : ObjRewrite) : BLit := .lit (.pos, .sym (.fn R.pn R.pargs false))
def qLit (R : ObjRewrite) : BLit := .lit (.pos, .sym (.fn R.qn R.qargs false))
def srcStm (R : ObjRewrite) : Stm := .minimize R.line R.col R.weight R.prio R.terms (R.qLit :: R.body)
def resStm (R : ObjRewrite) : Stm := .minimize R.line R.col R.weight R.prio R.terms R.body
def src (R : ObjRewrite) : Prog := R.pre ++ R.srcStm :: R.post
def res (R : ObjRewrite) : Prog := R.pre ++ R.resStm :: R.post
end ObjRewrite

/-- objectives constrain nothing: the two programs have the same here-and-there models -/
theorem obj_models (R : ObjRewrite) (H T : Interp) : Models (stdParams P) R.src H T ↔ Models (stdParams P) R.res H T := by
  simp only [Models, ObjRewrite.src, ObjRewrite.res, List.mem_append, List.mem_cons]
  constructor
  · intro h s hs
    rcases hs with hs | rfl | hs
    · exact h s (Or.inl hs)
    · simp only [ObjRewrite.resStm, stmSat]
    · exact h s (Or.inr (Or.inr hs))
  · intro h s hs
    rcases hs with hs | rfl | hs
    · exact h s (Or.inl hs)
    · simp only [ObjRewrite.srcStm, stmSat]
    · exact h s (Or.inr (Or.inr hs))

theorem obj_stable (R : ObjRewrite) (T : Interp) : Stable (stdParams P) R.src T ↔ Stable (stdParams P) R.res T := by
  unfold Stable
  rw [obj_models P R T T]
  constructor
  · rintro ⟨h1, h2⟩; exact ⟨h1, fun H hs hp hm => h2 H hs hp ((obj_models P R H T).mpr hm)⟩
  · rintro ⟨h1, h2⟩; exact ⟨h1, fun H hs hp hm => h2 H hs hp ((obj_models P R H T).mp hm)⟩

/-- **the cost tuples of the shortened objective are those of the source, in every stable model** -/
theorem obj_costs (hdn : DnegOld P) (R : ObjRewrite) (hok : Ok R.src) (hbody : plainBody (R.qLit :: R.body) = true)
    (hp : R.pLit ∈ R.body)
    (himp : ∀ e vals, evalTerms P e R.pargs = some vals → ∀ X T, Supp P R.src X T → X ⟨R.pn, vals⟩ →
      ∃ qvals, evalTerms P e R.qargs = some qvals ∧ X ⟨R.qn, qvals⟩)
    (T : Interp) (hS : Stable (stdParams P) R.src T) (tup : Sym × Sym × List Sym) :
    costTuples (stdParams P) T R.srcStm tup ↔ costTuples (stdParams P) T R.resStm tup := by
  obtain ⟨wv, pv, tv⟩ := tup
  have hb' : plainBody R.body = true := by
    simp only [plainBody, List.all_cons, Bool.and_eq_true] at hbody ⊢
    exact hbody.2
  simp only [ObjRewrite.srcStm, ObjRewrite.resStm, costTuples, stdParams_toParams]
  constructor
  · rintro ⟨e, hb, h1, h2, h3⟩
    refine ⟨e, ?_, h1, h2, h3⟩
    exact (bodySat_G P R.body hb' _ _ e T T).mp (fun l hl => hb l (List.mem_cons_of_mem _ hl))
  · rintro ⟨e, hb, h1, h2, h3⟩
    refine ⟨e, ?_, h1, h2, h3⟩
    have hbt := (bodySat_G P R.body hb' _ (fun _ => True) e T T).mp hb
    have hpl := hbt _ hp
    simp only [ObjRewrite.pLit, blitSat, litSat, atomSat, groundAtom, Option.map_eq_some_iff] at hpl
    obtain ⟨a, ⟨vals, hv, rfl⟩, hT⟩ := hpl
    obtain ⟨qvals, hqv, hq⟩ := himp e vals hv T T (supp_stable P hdn R.src hok hS) hT
    apply (bodySat_G P (R.qLit :: R.body) hbody (fun _ => True) _ e T T).mp
    intro l hl
    rcases List.mem_cons.mp hl with rfl | hl
    · simp only [ObjRewrite.qLit, blitSat, litSat, atomSat, groundAtom, Option.map_eq_some_iff]
      exact ⟨_, ⟨qvals, hqv, rfl⟩, hq⟩
    · exact hbt l hl

end NgoVerif.Proofs.C08impl

/-! ### the executable check for objectives -/
namespace NgoVerif.Proofs.C08impl
open NgoVerif NgoVerif.Sem
variable (P : Params)

def objImpliedCheck (R : ObjRewrite) : Bool :=
  R.src.all okStm && plainBody (R.qLit :: R.body) && blitMem R.pLit R.body &&
  R.src.all (ruleImplies R.pn R.pargs R.qn R.qargs)

/-- **end to end for objectives**: same stable models, and in each of them the same cost tuples -/
theorem obj_of_check (hdn : DnegOld P) (R : ObjRewrite) (h : objImpliedCheck R = true) (T : Interp) :
    (Stable (stdParams P) R.src T ↔ Stable (stdParams P) R.res T) ∧
      (Stable (stdParams P) R.src T → ∀ tup, costTuples (stdParams P) T R.srcStm tup ↔ costTuples (stdParams P) T R.resStm tup) := by
  simp only [objImpliedCheck, Bool.and_eq_true, List.all_eq_true] at h
  obtain ⟨⟨⟨hok, hbody⟩, hp⟩, himp⟩ := h
  exact ⟨obj_stable P R T, fun hS tup => obj_costs P hdn R hok hbody (blitMem_mem hp)
    (fun e vals hv X T' hsupp hX => imp_of_ruleImplies P R.src R.pn R.pargs R.qn R.qargs himp e vals hv X T' (hsupp _ hX)) T hS tup⟩

end NgoVerif.Proofs.C08impl
