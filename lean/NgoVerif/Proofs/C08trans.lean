import NgoVerif.Proofs.C08impl
/-!
# `cleanup`: implications followed through a chain of predicates (`transitive_closure`)

`p(s̄)` may imply `q(t̄)` because every rule deriving `p` carries `r(ū)` and every rule deriving `r` carries `q(w̄)`, with the
argument positions matching along the way.  An *argument map* says how the arguments of the implied atom are obtained from
the arguments of the implying one (position `i`, or a constant).  `entCheck fuel` follows such chains to depth `fuel`;
its answer `true` gives the semantic side condition of `C08impl.remove_implied` for supported interpretations.
-/
namespace NgoVerif.Proofs.C08trans
open NgoVerif NgoVerif.Sem NgoVerif.Proofs.C08impl

variable (P : Params)

/-! ## argument maps -/

inductive ArgSrc where
  | pos (i : Nat)
  | const (c : Sym)

def ArgSrc.eqb : ArgSrc → ArgSrc → Bool
  | .pos i, .pos j => i == j
  | .const a, .const b => symEqb a b
  | _, _ => false

theorem ArgSrc.eqb_eq : ∀ a b : ArgSrc, ArgSrc.eqb a b = true → a = b
  | .pos i, .pos j, h => by simp only [ArgSrc.eqb, beq_iff_eq] at h; rw [h]
  | .const a, .const b, h => by simp only [ArgSrc.eqb] at h; rw [symEqb_eq a b h]
  | .pos _, .const _, h => by simp [ArgSrc.eqb] at h
  | .const _, .pos _, h => by simp [ArgSrc.eqb] at h

def ArgSrc.get (vals : List Sym) : ArgSrc → Option Sym
  | .pos i => vals[i]?
  | .const c => some c

def applyMap : List ArgSrc → List Sym → Option (List Sym)
  | [], _ => some []
  | a :: as, vals =>
    match a.get vals, applyMap as vals with
    | some x, some xs => some (x :: xs)
    | _, _ => none

theorem applyMap_cons_some (a : ArgSrc) (as : List ArgSrc) (vals out : List Sym) (h : applyMap (a :: as) vals = some out) :
    ∃ x xs, out = x :: xs ∧ a.get vals = some x ∧ applyMap as vals = some xs := by
  simp only [applyMap] at h
  split at h
  · rename_i x xs hx hxs
    cases h
    exact ⟨x, xs, rfl, hx, hxs⟩
  · cases h

theorem applyMap_length : ∀ (m : List ArgSrc) (vals out : List Sym), applyMap m vals = some out → out.length = m.length
  | [], _, out, h => by simp only [applyMap, Option.some.injEq] at h; subst h; rfl
  | a :: as, vals, out, h => by
    obtain ⟨x, xs, rfl, _, hxs⟩ := applyMap_cons_some a as vals out h
    simp [applyMap_length as vals xs hxs]

/-- the value at position `j` of the mapped list -/
theorem applyMap_get : ∀ (m : List ArgSrc) (vals out : List Sym), applyMap m vals = some out →
    ∀ (j : Nat) (a : ArgSrc), m[j]? = some a → a.get vals = out[j]? ∧ (out[j]?).isSome
  | [], _, _, _, j, a, hj => by simp at hj
  | b :: bs, vals, out, h, j, a, hj => by
    obtain ⟨x, xs, rfl, hx, hxs⟩ := applyMap_cons_some b bs vals out h
    cases j with
    | zero =>
      simp only [List.getElem?_cons_zero, Option.some.injEq] at hj
      subst hj
      simp [hx]
    | succ k =>
      simp only [List.getElem?_cons_succ] at hj ⊢
      exact applyMap_get bs vals xs hxs k a hj

/-- values of a term list, position by position -/
theorem evalTerms_get (e : Env) : ∀ (ts : List Term) (vs : List Sym), evalTerms P e ts = some vs →
    ∀ (i : Nat) (t : Term), ts[i]? = some t → vs[i]? = evalTerm P e t ∧ (vs[i]?).isSome
  | [], _, _, i, t, hi => by simp at hi
  | u :: us, vs, h, i, t, hi => by
    obtain ⟨x, xs, rfl, hx, hxs⟩ := evalTerms_cons_some P e u us vs h
    cases i with
    | zero =>
      simp only [List.getElem?_cons_zero, Option.some.injEq] at hi
      subst hi
      simp [hx]
    | succ k =>
      simp only [List.getElem?_cons_succ] at hi ⊢
      exact evalTerms_get e us xs hxs k t hi

/-- how the term `w` is obtained from the argument terms `hargs`: the first position that carries the same term, or a constant -/
def argSrc (hargs : List Term) (w : Term) : Option ArgSrc :=
  match hargs.findIdx? (fun h => termEqb h w) with
  | some i => some (.pos i)
  | none =>
    match w with
    | .sym c => some (.const c)
    | _ => none

theorem findIdx?_spec (p : Term → Bool) : ∀ (l : List Term) (i : Nat), l.findIdx? p = some i → ∃ t, l[i]? = some t ∧ p t = true
  | [], i, h => by simp at h
  | x :: xs, i, h => by
    simp only [List.findIdx?_cons] at h
    split at h
    · rename_i hp
      simp only [Option.some.injEq] at h
      subst h
      exact ⟨x, by simp, hp⟩
    · simp only [Option.map_eq_some_iff] at h
      obtain ⟨k, hk, rfl⟩ := h
      obtain ⟨t, ht, hpt⟩ := findIdx?_spec p xs k hk
      exact ⟨t, by simpa using ht, hpt⟩

/-- **from the arguments to the literal**: if `w` evaluates (under an environment that agrees with `e'` on its variables),
its value is what the map reads off the values of `hargs` -/
theorem argSrc_fwd (e' e'' : Env) (hargs : List Term) (vals : List Sym) (hh : evalTerms P e' hargs = some vals) (w : Term)
    (a : ArgSrc) (ha : argSrc hargs w = some a) (hag : ∀ v ∈ w.vars, e'' v = e' v) (x : Sym) (hx : evalTerm P e'' w = some x) :
    a.get vals = some x := by
  unfold argSrc at ha
  split at ha
  · rename_i i hi
    cases ha
    obtain ⟨t, ht, hpt⟩ := findIdx?_spec _ hargs i hi
    have := termEqb_eq _ _ hpt
    subst this
    have h1 := (evalTerms_get P e' hargs vals hh i t ht).1
    simp only [ArgSrc.get]
    rw [h1, ← evalTerm_congr P e'' e' t hag]
    exact hx
  · split at ha
    · cases ha
      simp only [evalTerm, Option.some.injEq] at hx
      simp [ArgSrc.get, hx]
    · cases ha

/-- **from the map to the literal's argument** (the using rule: one environment): if the map reads a value off the values of
`hargs`, the term has that value -/
theorem argSrc_bwd (e : Env) (hargs : List Term) (vals : List Sym) (hh : evalTerms P e hargs = some vals) (w : Term)
    (a : ArgSrc) (ha : argSrc hargs w = some a) (x : Sym) (hx : a.get vals = some x) : evalTerm P e w = some x := by
  unfold argSrc at ha
  split at ha
  · rename_i i hi
    cases ha
    obtain ⟨t, ht, hpt⟩ := findIdx?_spec _ hargs i hi
    have := termEqb_eq _ _ hpt
    subst this
    have h1 := (evalTerms_get P e hargs vals hh i t ht).1
    simp only [ArgSrc.get] at hx
    rw [← h1]
    exact hx
  · split at ha
    · cases ha
      simp only [ArgSrc.get, Option.some.injEq] at hx
      simp [evalTerm, hx]
    · cases ha

def mapOfArgs (hargs : List Term) : List Term → Option (List ArgSrc)
  | [] => some []
  | w :: ws =>
    match argSrc hargs w, mapOfArgs hargs ws with
    | some a, some as => some (a :: as)
    | _, _ => none

theorem mapOfArgs_cons_some (hargs : List Term) (w : Term) (ws : List Term) (m : List ArgSrc) (h : mapOfArgs hargs (w :: ws) = some m) :
    ∃ a as, m = a :: as ∧ argSrc hargs w = some a ∧ mapOfArgs hargs ws = some as := by
  simp only [mapOfArgs] at h
  split at h
  · rename_i a as ha has
    cases h
    exact ⟨a, as, rfl, ha, has⟩
  · cases h

theorem mapOfArgs_fwd (e' e'' : Env) (hargs : List Term) (vals : List Sym) (hh : evalTerms P e' hargs = some vals) :
    ∀ (ws : List Term) (m : List ArgSrc) (wv : List Sym), mapOfArgs hargs ws = some m →
      (∀ v ∈ ws.flatMap Term.vars, e'' v = e' v) → evalTerms P e'' ws = some wv → applyMap m vals = some wv
  | [], m, wv, hm, _, hw => by
    simp only [mapOfArgs, Option.some.injEq] at hm
    subst hm
    simpa [evalTerms, applyMap] using hw
  | w :: ws, m, wv, hm, hag, hw => by
    obtain ⟨a, as, rfl, ha, has⟩ := mapOfArgs_cons_some hargs w ws m hm
    obtain ⟨x, xs, rfl, hx, hxs⟩ := evalTerms_cons_some P e'' w ws wv hw
    have h1 := argSrc_fwd P e' e'' hargs vals hh w a ha (fun v hv => hag v (by simp [hv])) x hx
    have h2 := mapOfArgs_fwd e' e'' hargs vals hh ws as xs has
      (fun v hv => hag v (by simp only [List.flatMap_cons, List.mem_append]; exact Or.inr hv)) hxs
    simp only [applyMap, h1, h2]

theorem mapOfArgs_bwd (e : Env) (hargs : List Term) (vals : List Sym) (hh : evalTerms P e hargs = some vals) :
    ∀ (ws : List Term) (m : List ArgSrc) (out : List Sym), mapOfArgs hargs ws = some m → applyMap m vals = some out →
      evalTerms P e ws = some out
  | [], m, out, hm, ho => by
    simp only [mapOfArgs, Option.some.injEq] at hm
    subst hm
    simpa [evalTerms, applyMap] using ho
  | w :: ws, m, out, hm, ho => by
    obtain ⟨a, as, rfl, ha, has⟩ := mapOfArgs_cons_some hargs w ws m hm
    obtain ⟨x, xs, rfl, hx, hxs⟩ := applyMap_cons_some a as vals out ho
    have h1 := argSrc_bwd P e hargs vals hh w a ha x hx
    have h2 := mapOfArgs_bwd e hargs vals hh ws as xs has hxs
    exact evalTerms_cons_mk P e w ws x xs h1 h2

/-! ## composition -/

def composeArg (m1 : List ArgSrc) : ArgSrc → Option ArgSrc
  | .const c => some (.const c)
  | .pos j => m1[j]?

def compose (m2 m1 : List ArgSrc) : Option (List ArgSrc) :=
  match m2 with
  | [] => some []
  | a :: as =>
    match composeArg m1 a, compose as m1 with
    | some b, some bs => some (b :: bs)
    | _, _ => none

theorem compose_sound (m1 : List ArgSrc) (vals mid : List Sym) (h1 : applyMap m1 vals = some mid) :
    ∀ (m2 m : List ArgSrc) (out : List Sym), compose m2 m1 = some m → applyMap m2 mid = some out → applyMap m vals = some out
  | [], m, out, hc, ho => by
    simp only [compose, Option.some.injEq] at hc
    subst hc
    simpa [applyMap] using ho
  | a :: as, m, out, hc, ho => by
    simp only [compose] at hc
    split at hc
    · rename_i b bs hb hbs
      cases hc
      obtain ⟨x, xs, rfl, hx, hxs⟩ := applyMap_cons_some a as mid out ho
      have hbx : b.get vals = some x := by
        cases a with
        | const c =>
          simp only [composeArg, Option.some.injEq] at hb
          subst hb
          simpa [ArgSrc.get] using hx
        | pos j =>
          simp only [composeArg] at hb
          have := (applyMap_get m1 vals mid h1 j b hb).1
          rw [this]
          simpa [ArgSrc.get] using hx
      have := compose_sound m1 vals mid h1 as bs xs hbs hxs
      simp only [applyMap, hbx, this]
    · cases hc

def mapEqb : List ArgSrc → List ArgSrc → Bool
  | [], [] => true
  | a :: as, b :: bs => ArgSrc.eqb a b && mapEqb as bs
  | _, _ => false

theorem mapEqb_eq : ∀ a b : List ArgSrc, mapEqb a b = true → a = b
  | [], [], _ => rfl
  | a :: as, b :: bs, h => by
    simp only [mapEqb, Bool.and_eq_true] at h
    rw [ArgSrc.eqb_eq a b h.1, mapEqb_eq as bs h.2]
  | [], _ :: _, h => by simp [mapEqb] at h
  | _ :: _, [], h => by simp [mapEqb] at h

/-- a map `m2` with `compose m2 m1 = m`, if the obvious one works: each target is found among the sources of `m1` -/
def pullArg (m1 : List ArgSrc) (a : ArgSrc) : Option ArgSrc :=
  match m1.findIdx? (fun b => ArgSrc.eqb b a) with
  | some j => some (.pos j)
  | none =>
    match a with
    | .const c => some (.const c)
    | .pos _ => none

def pullback (m1 : List ArgSrc) : List ArgSrc → Option (List ArgSrc)
  | [] => some []
  | a :: as =>
    match pullArg m1 a, pullback m1 as with
    | some b, some bs => some (b :: bs)
    | _, _ => none

/-! ## the semantic notion and the check -/

/-- in every supported interpretation, an atom `p(vals)` (with `k` arguments) comes with the atom `q(map vals)` -/
def Ent (prg : Prog) (p : String) (k : Nat) (q : String) (m : List ArgSrc) : Prop :=
  ∀ X T, Supp P prg X T → ∀ vals : List Sym, vals.length = k → X ⟨p, vals⟩ → ∃ qv, applyMap m vals = some qv ∧ X ⟨q, qv⟩

/-- what one positive literal contributes towards `q` under the map `m`, given the arguments `hargs` of the derived atom:
it IS a `q`-literal with the map `m`, or (with fuel left) a literal of another predicate `r` from which `q` follows -/
def litYields (rec : String → Nat → List ArgSrc → Bool) (hargs : List Term) (q : String) (m : List ArgSrc) : Lit → Bool
  | (.pos, .sym (.fn r uargs false)) =>
    match mapOfArgs hargs uargs with
    | some m1 =>
      (r == q && mapEqb m1 m) ||
        (match pullback m1 m with
         | some m2 => (match compose m2 m1 with
             | some m' => mapEqb m' m && rec r uargs.length m2
             | none => false)
         | none => false)
    | none => false
  | _ => false

def stmYields (rec : String → Nat → List ArgSrc → Bool) (p : String) (k : Nat) (q : String) (m : List ArgSrc) : Stm → Bool
  | .rule _ _ (.lit (.pos, .sym (.fn n hargs false))) b =>
    if n == p && hargs.length == k then
      b.any fun l =>
        match l with
        | .lit l' => litYields rec hargs q m l'
        | _ => false
    else true
  | .rule _ _ (.agg _ elems _) b =>
    elems.all fun cl =>
      match cl.1 with
      | (.pos, .sym (.fn n hargs false)) =>
        if n == p && hargs.length == k then
          (cl.2.any fun l => litYields rec hargs q m l) ||
            b.any fun l =>
              match l with
              | .lit l' => litYields rec hargs q m l'
              | _ => false
        else true
      | _ => true
  | _ => true

/-- chains of length at most `fuel + 1` -/
def entCheck (prg : Prog) (q : String) : Nat → String → Nat → List ArgSrc → Bool
  | 0, p, k, m => prg.all (stmYields (fun _ _ _ => false) p k q m)
  | fuel + 1, p, k, m => prg.all (stmYields (fun r kr m2 => entCheck prg q fuel r kr m2) p k q m)

theorem litYields_shape (rec : String → Nat → List ArgSrc → Bool) (hargs : List Term) (q : String) (m : List ArgSrc) (l : Lit)
    (hy : litYields rec hargs q m l = true) : ∃ r uargs, l = (.pos, .sym (.fn r uargs false)) := by
  unfold litYields at hy
  split at hy
  · rename_i r uargs
    exact ⟨r, uargs, rfl⟩
  · cases hy

theorem litYields_sound (prg : Prog) (rec : String → Nat → List ArgSrc → Bool) (q : String)
    (hrec : ∀ r kr m2, rec r kr m2 = true → Ent P prg r kr q m2)
    (hargs : List Term) (m : List ArgSrc) (l : Lit) (hy : litYields rec hargs q m l = true)
    (e' e'' : Env) (vals : List Sym) (hh : evalTerms P e' hargs = some vals) (hag : ∀ v ∈ litVars l, e'' v = e' v)
    (X T : Interp) (hsupp : Supp P prg X T) (hsat : litSat P (fun _ => True) e'' X T l) :
    ∃ qv, applyMap m vals = some qv ∧ X ⟨q, qv⟩ := by
  unfold litYields at hy
  split at hy
  · rename_i r uargs
    simp only [litSat, atomSat, groundAtom, Option.map_eq_some_iff] at hsat
    obtain ⟨a, ⟨uv, huv, rfl⟩, hXa⟩ := hsat
    split at hy
    · rename_i m1 hm1
      have hmid := mapOfArgs_fwd P e' e'' hargs vals hh uargs m1 uv hm1
        (fun v hv => hag v (by simpa [litVars, litTerms, Atom.terms, Term.vars] using hv)) huv
      simp only [Bool.or_eq_true, Bool.and_eq_true, beq_iff_eq] at hy
      rcases hy with ⟨hrq, hmm⟩ | hvia
      · subst hrq
        have := mapEqb_eq _ _ hmm
        subst this
        exact ⟨uv, hmid, hXa⟩
      · split at hvia
        · rename_i m2 _
          split at hvia
          · rename_i m' hc
            simp only [Bool.and_eq_true] at hvia
            have hm'eq := mapEqb_eq _ _ hvia.1
            subst hm'eq
            have hent := hrec r uargs.length m2 hvia.2
            have hlen : uv.length = uargs.length := evalTerms_length P e'' uargs uv huv
            obtain ⟨qv, hqv, hXq⟩ := hent X T hsupp uv hlen hXa
            exact ⟨qv, compose_sound m1 vals uv hmid m2 _ qv hc hqv, hXq⟩
          · cases hvia
        · cases hvia
    · cases hy
  · cases hy

theorem stmYields_sound (prg : Prog) (rec : String → Nat → List ArgSrc → Bool) (q : String)
    (hrec : ∀ r kr m2, rec r kr m2 = true → Ent P prg r kr q m2) (p : String) (k : Nat) (m : List ArgSrc)
    (hall : ∀ s ∈ prg, stmYields rec p k q m s = true) : Ent P prg p k q m := by
  intro X T hsupp vals hlen hX
  rcases hsupp _ hX with ⟨l, c, t, b, e', hs, hg, hbody⟩ | ⟨l, c, lg, elems, rg, b, cl, t, e, e', hs, hcl, ht, hagr, hg, hbody, hcond⟩
  · obtain ⟨hargs, rfl, hhv⟩ := ground_fn P e' t p vals hg
    have hk : hargs.length = k := by rw [← evalTerms_length P e' hargs vals hhv, hlen]
    have hy := hall _ hs
    simp only [stmYields, hk, beq_self_eq_true, Bool.and_self, if_true, List.any_eq_true] at hy
    obtain ⟨bl, hbl, hm⟩ := hy
    cases bl with
    | lit l' =>
      have hsat := hbody _ hbl
      simp only [blitSat] at hsat
      exact litYields_sound P prg rec q hrec hargs m l' hm e' e' vals hhv (fun _ _ => rfl) X T hsupp hsat
    | clit _ => cases hm
  · obtain ⟨hargs, rfl, hhv⟩ := ground_fn P e' t p vals hg
    have hk : hargs.length = k := by rw [← evalTerms_length P e' hargs vals hhv, hlen]
    have hy := hall _ hs
    simp only [stmYields, List.all_eq_true] at hy
    have hcl' := hy cl hcl
    rw [ht] at hcl'
    simp only [hk, beq_self_eq_true, Bool.and_self, if_true, Bool.or_eq_true, List.any_eq_true] at hcl'
    rcases hcl' with ⟨l', hl', hm⟩ | ⟨bl, hbl, hm⟩
    · exact litYields_sound P prg rec q hrec hargs m l' hm e' e' vals hhv (fun _ _ => rfl) X T hsupp
        (litsSat_mem P _ e' X T cl.2 hcond l' hl')
    · cases bl with
      | lit l' =>
        have hsat := hbody _ hbl
        simp only [blitSat] at hsat
        refine litYields_sound P prg rec q hrec hargs m l' hm e' e vals hhv ?_ X T hsupp hsat
        intro v hv'
        have hglob : v ∈ ruleGlobals (stdParams P) (.agg lg elems rg) b := by
          show v ∈ stdHeadGlobals (.agg lg elems rg) ++ bodyGlobals b
          apply List.mem_append_right
          simp only [bodyGlobals, List.mem_flatMap]
          refine ⟨.lit l', hbl, ?_⟩
          obtain ⟨r', uargs', rfl⟩ := litYields_shape rec hargs q m l' hm
          simpa [blitGlobals] using hv'
        exact (hagr v hglob).symm
      | clit _ => cases hm

theorem entCheck_sound (prg : Prog) (q : String) : ∀ (fuel : Nat) (p : String) (k : Nat) (m : List ArgSrc),
    entCheck prg q fuel p k m = true → Ent P prg p k q m
  | 0, p, k, m, h => by
    simp only [entCheck, List.all_eq_true] at h
    exact stmYields_sound P prg _ q (fun _ _ _ hf => by cases hf) p k m h
  | fuel + 1, p, k, m, h => by
    simp only [entCheck, List.all_eq_true] at h
    exact stmYields_sound P prg _ q (fun r kr m2 hr => entCheck_sound prg q fuel r kr m2 hr) p k m h

/-! ## the rewrite -/

/-- the check of `C08impl.impliedCheck` with the implication followed through chains of depth `fuel` -/
def impliedCheckT (fuel : Nat) (R : Rewrite) : Bool :=
  R.src.all okStm && blitMem R.pLit R.body && qVarsOk R &&
  (match mapOfArgs R.pargs R.qargs with
   | some m => entCheck R.src R.qn fuel R.pn R.pargs.length m
   | none => false)

theorem impliedCheckT_sound (fuel : Nat) (R : Rewrite) (h : impliedCheckT fuel R = true) : Ok R.src ∧ Implied P R := by
  simp only [impliedCheckT, Bool.and_eq_true, List.all_eq_true] at h
  obtain ⟨⟨⟨hok, hp⟩, hqv⟩, hent⟩ := h
  have hdir := impliedCheck_globals P R hqv
  refine ⟨hok, blitMem_mem hp, hdir, ?_⟩
  split at hent
  · rename_i m hm
    have hE := entCheck_sound P R.src R.qn fuel R.pn R.pargs.length m hent
    intro e vals hv X T hsupp hX
    obtain ⟨qv, hqv', hXq⟩ := hE X T hsupp vals (evalTerms_length P e R.pargs vals hv) hX
    exact ⟨qv, mapOfArgs_bwd P e R.pargs vals hv R.qargs m qv hm hqv', hXq⟩
  · cases hent

/-- **end to end, chains included** -/
theorem remove_implied_of_checkT (hdn : DnegOld P) (fuel : Nat) (R : Rewrite) (h : impliedCheckT fuel R = true) (T : Interp) :
    Stable (stdParams P) R.src T ↔ Stable (stdParams P) R.res T :=
  remove_implied P hdn R (impliedCheckT_sound P fuel R h).1 (impliedCheckT_sound P fuel R h).2 T

end NgoVerif.Proofs.C08trans
