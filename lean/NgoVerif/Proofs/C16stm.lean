import NgoVerif.Proofs.C16sem
import NgoVerif.Proofs.C09sem
import NgoVerif.Sem.GCongr
import NgoVerif.Sem.DecEq
/-!
# The rule split of `projection` for typed *statements*, from an executable check

`Proofs/C16sem.lean` proves the split sound and complete for the families of ground rules of `head :- body.` under ONE
set `G` of global variables.  Statements, however, are interpreted under their own global variables
(`ruleGlobals`), and these differ between the original rule, the auxiliary rule and the updated rule.  This file closes
the gap with `Sem/GCongr.lean` (the set of global variables matters only on the variables inside local scopes) and
states the result for programs:

    pre ++ [ head :- body. ] ++ post        vs        pre ++ [ aux(vs) :- new. ; head :- rest, aux(vs). ] ++ post

under the standard head semantics, for every parameter choice with persistent aggregates, given `splitCheck = true` - an
executable test of the side conditions (what the driver evaluates on the splits the real pass performs).
-/
namespace NgoVerif.Proofs.C16stm
open NgoVerif NgoVerif.Sem NgoVerif.Proofs.C16sem

variable (P : Params)

/-- the syntactic data of one split, as the pass produces it -/
structure Split where
  line : Nat
  col : Nat
  head : Head
  body : List BLit
  new : List BLit
  rest : List BLit
  vs : List String
  auxName : String

namespace Split
def syn (S : Split) : Syn :=
  { head := S.head, new := S.new, rest := S.rest, body := S.body, vs := S.vs, auxName := S.auxName, headVars := S.head.vars }
def auxB (S : Split) : BLit := .lit (auxLit S.auxName S.vs)
def orig (S : Split) : Stm := .rule S.line S.col S.head S.body
def auxRule (S : Split) : Stm := .rule 1 1 (.lit (auxLit S.auxName S.vs)) S.new
def updRule (S : Split) : Stm := .rule S.line S.col S.head (S.rest ++ [S.auxB])
def G0 (S : Split) : List String := stdHeadGlobals S.head ++ bodyGlobals S.body
def Ga (S : Split) : List String := stdHeadGlobals (.lit (auxLit S.auxName S.vs)) ++ bodyGlobals S.new
def Gu (S : Split) : List String := stdHeadGlobals S.head ++ bodyGlobals (S.rest ++ [S.auxB])
end Split

/-- the side conditions that only concern the split rule -/
structure Ok (S : Split) : Prop where
  parts : ∀ l, l ∈ S.body ↔ l ∈ S.new ∨ l ∈ S.rest
  share : ∀ v, v ∈ S.new.flatMap BLit.vars → (v ∈ S.rest.flatMap BLit.vars ∨ v ∈ S.head.vars) → v ∈ S.vs
  freshNew : bodyAvoids (nameSig S.auxName) S.new = true
  freshRest : bodyAvoids (nameSig S.auxName) S.rest = true
  freshHead : headAvoids (nameSig S.auxName) S.head = true
  /-- the variables inside local scopes keep their global/local status in the two new rules -/
  scopeNew : ∀ v ∈ bodyScoped S.new, v ∈ S.G0 ↔ v ∈ S.Ga
  scopeRest : ∀ v ∈ bodyScoped S.rest, v ∈ S.G0 ↔ v ∈ S.Gu
  scopeHead : ∀ v ∈ S.head.vars, v ∈ S.G0 ↔ v ∈ S.Gu

theorem cond_of_ok (hp : AggPersistent P) (S : Split) (hok : Ok S) : Cond (stdParams P) (fun v => v ∈ S.G0) S.syn where
  parts := hok.parts
  share := hok.share
  freshNew := hok.freshNew
  freshRest := hok.freshRest
  headVarsOk := by
    intro e1 e2 h H T
    rw [stdParams_headSat]
    exact stdHeadSat_congr P _ H T S.head e1 e2 h
  headIndep := by
    intro e H T H' T' aH aT
    rw [stdParams_headSat]
    exact stdHeadSat_indep P _ _ S.head hok.freshHead e H T H' T' aH aT
  atomHead := by
    intro e H T t a ha
    rw [stdParams_headSat]
    exact stdHeadSat_atom P _ e H T t a ha
  aggPers := hp

theorem ruleGlobals_eq (h : Head) (b : List BLit) : ruleGlobals (stdParams P) h b = stdHeadGlobals h ++ bodyGlobals b := rfl

/-- the three statements mean the ground rule families of `C16sem`, all under the global variables of the original -/
theorem orig_models (S : Split) (H T : Interp) :
    stmSat (stdParams P) H T S.orig ↔ HT.Models (instances (stdParams P) (fun v => v ∈ S.G0) S.head S.body) H T := by
  simp only [Split.orig, stmSat, HT.Models, instances, ruleGlobals_eq, Split.G0]
  constructor
  · rintro h r ⟨e, rfl⟩; exact h e
  · intro h e; exact h _ ⟨e, rfl⟩

theorem bodyScoped_append (a b : List BLit) : bodyScoped (a ++ b) = bodyScoped a ++ bodyScoped b := by
  simp [bodyScoped]

theorem aux_models (S : Split) (hok : Ok S) (H T : Interp) :
    stmSat (stdParams P) H T S.auxRule ↔
      HT.Models (instances (stdParams P) (fun v => v ∈ S.G0) (.lit (auxLit S.auxName S.vs)) S.new) H T := by
  have hb : ∀ e W W', bodySat P (fun v => v ∈ S.Ga) e W W' S.new ↔ bodySat P (fun v => v ∈ S.G0) e W W' S.new :=
    fun e W W' => bodySat_gcongr P _ _ W W' S.new e (fun v hv => (hok.scopeNew v hv).symm)
  have hh : ∀ e W W', stdHeadSat P (fun v => v ∈ S.Ga) e W W' (.lit (auxLit S.auxName S.vs)) ↔
      stdHeadSat P (fun v => v ∈ S.G0) e W W' (.lit (auxLit S.auxName S.vs)) := by
    intro e W W'; simp only [stdHeadSat, auxLit, headLitSat]
  simp only [Split.auxRule, stmSat, HT.Models, instances, ruleGlobals_eq, stdParams_headSat, stdParams_toParams]
  constructor
  · rintro h r ⟨e, rfl⟩
    exact ⟨fun x => (hh e H T).mp ((h e).1 ((hb e H T).mpr x)), fun x => (hh e T T).mp ((h e).2 ((hb e T T).mpr x))⟩
  · intro h e
    have := h _ ⟨e, rfl⟩
    exact ⟨fun x => (hh e H T).mpr (this.1 ((hb e H T).mp x)), fun x => (hh e T T).mpr (this.2 ((hb e T T).mp x))⟩

theorem upd_models (S : Split) (hok : Ok S) (H T : Interp) :
    stmSat (stdParams P) H T S.updRule ↔
      HT.Models (instances (stdParams P) (fun v => v ∈ S.G0) S.head (S.rest ++ [.lit (auxLit S.auxName S.vs)])) H T := by
  have hb : ∀ e W W', bodySat P (fun v => v ∈ S.Gu) e W W' (S.rest ++ [S.auxB]) ↔
      bodySat P (fun v => v ∈ S.G0) e W W' (S.rest ++ [S.auxB]) := by
    intro e W W'
    apply bodySat_gcongr
    intro v hv
    rw [bodyScoped_append] at hv
    rcases List.mem_append.mp hv with hv | hv
    · exact (hok.scopeRest v hv).symm
    · simp [bodyScoped, blitScoped, Split.auxB, auxLit, atomScoped] at hv
  have hh : ∀ e W W', stdHeadSat P (fun v => v ∈ S.Gu) e W W' S.head ↔ stdHeadSat P (fun v => v ∈ S.G0) e W W' S.head :=
    fun e W W' => stdHeadSat_gcongr P _ _ W W' S.head e (fun v hv => (hok.scopeHead v hv).symm)
  simp only [Split.updRule, stmSat, HT.Models, instances, ruleGlobals_eq, stdParams_headSat, stdParams_toParams]
  constructor
  · rintro h r ⟨e, rfl⟩
    exact ⟨fun x => (hh e H T).mp ((h e).1 ((hb e H T).mpr x)), fun x => (hh e T T).mp ((h e).2 ((hb e T T).mpr x))⟩
  · intro h e
    have := h _ ⟨e, rfl⟩
    exact ⟨fun x => (hh e H T).mpr (this.1 ((hb e H T).mp x)), fun x => (hh e T T).mpr (this.2 ((hb e T T).mp x))⟩

/-- the context: the statements before and after the split rule -/
def ctx (pre post : Prog) : HT.Prog GAtom := denote (stdParams P) (pre ++ post)

theorem models_before (S : Split) (pre post : Prog) (H T : Interp) :
    HT.Models (denote (stdParams P) (pre ++ S.orig :: post)) H T ↔
      HT.Models (HT.Union (ctx P pre post) (instances (stdParams P) (fun v => v ∈ S.G0) S.head S.body)) H T := by
  rw [models_denote]
  simp only [Models, List.mem_append, List.mem_cons]
  constructor
  · intro h r hr
    rcases hr with ⟨s, hs, rfl⟩ | hr
    · rcases List.mem_append.mp hs with hs | hs
      · exact h s (Or.inl hs)
      · exact h s (Or.inr (Or.inr hs))
    · exact (orig_models P S H T).mp (h _ (Or.inr (Or.inl rfl))) r hr
  · intro h s hs
    rcases hs with hs | rfl | hs
    · exact h _ (Or.inl ⟨s, List.mem_append_left _ hs, rfl⟩)
    · exact (orig_models P S H T).mpr fun r hr => h r (Or.inr hr)
    · exact h _ (Or.inl ⟨s, List.mem_append_right _ hs, rfl⟩)

theorem models_after (S : Split) (hok : Ok S) (pre post : Prog) (H T : Interp) :
    HT.Models (denote (stdParams P) (pre ++ S.auxRule :: S.updRule :: post)) H T ↔
      HT.Models (splitProg (stdParams P) (fun v => v ∈ S.G0) S.syn (ctx P pre post)) H T := by
  rw [models_denote]
  simp only [Models, List.mem_append, List.mem_cons, splitProg, Split.syn]
  constructor
  · intro h r hr
    rcases hr with (⟨s, hs, rfl⟩ | hr) | hr
    · rcases List.mem_append.mp hs with hs | hs
      · exact h s (Or.inl hs)
      · exact h s (Or.inr (Or.inr (Or.inr hs)))
    · exact (upd_models P S hok H T).mp (h _ (Or.inr (Or.inr (Or.inl rfl)))) r hr
    · exact (aux_models P S hok H T).mp (h _ (Or.inr (Or.inl rfl))) r hr
  · intro h s hs
    rcases hs with hs | rfl | rfl | hs
    · exact h _ (Or.inl (Or.inl ⟨s, List.mem_append_left _ hs, rfl⟩))
    · exact (aux_models P S hok H T).mpr fun r hr => h r (Or.inr hr)
    · exact (upd_models P S hok H T).mpr fun r hr => h r (Or.inl (Or.inr hr))
    · exact h _ (Or.inl (Or.inl ⟨s, List.mem_append_right _ hs, rfl⟩))

/-- the other statements do not mention the auxiliary predicate -/
def CtxOk (S : Split) (pre post : Prog) : Prop := ∀ s ∈ pre ++ post, C09sem.stmAvoids (nameSig S.auxName) s = true

theorem ctx_indep (S : Split) (pre post : Prog) (hctx : CtxOk S pre post) :
    ∀ r, ctx P pre post r → HT.Indep (splitData (stdParams P) (fun v => v ∈ S.G0) S.syn (ctx P pre post)).A r := by
  rintro r ⟨s, hs, rfl⟩ H T H' T' aH aT
  exact C09sem.stmSat_indep P _ s (hctx s hs) H T H' T'
    (agreeOffName_of (stdParams P) S.syn _ _ aH) (agreeOffName_of (stdParams P) S.syn _ _ aT)

/-- **soundness for programs**: every stable model of the source extends, by exactly the auxiliary atoms whose moved
part holds, to a stable model of the result -/
theorem split_sound_prog (hp : AggPersistent P) (S : Split) (hok : Ok S) (pre post : Prog) (hctx : CtxOk S pre post)
    (T : Interp) (hT : Stable (stdParams P) (pre ++ S.orig :: post) T) :
    Stable (stdParams P) (pre ++ S.auxRule :: S.updRule :: post)
      (extend (stdParams P) (fun v => v ∈ S.G0) S.syn T) := by
  have h1 := (Sem.stable_of_models (models_before P S pre post) T).mp ((stable_denote _ _ T).mpr hT)
  have h2 := split_sound (stdParams P) _ S.syn (ctx P pre post) (cond_of_ok P hp S hok) (ctx_indep P S pre post hctx) T h1
  exact (stable_denote _ _ _).mp ((Sem.stable_of_models (models_after P S hok pre post) _).mpr h2)

/-- **completeness for programs**: every stable model of the result is such an extension of a stable model of the
source -/
theorem split_complete_prog (hp : AggPersistent P) (S : Split) (hok : Ok S) (pre post : Prog) (hctx : CtxOk S pre post)
    (T' : Interp) (hT' : Stable (stdParams P) (pre ++ S.auxRule :: S.updRule :: post) T') :
    ∃ T, Stable (stdParams P) (pre ++ S.orig :: post) T ∧
      ∀ a, T' a ↔ extend (stdParams P) (fun v => v ∈ S.G0) S.syn T a := by
  have h1 := (Sem.stable_of_models (models_after P S hok pre post) T').mp ((stable_denote _ _ T').mpr hT')
  obtain ⟨T, hT, hext⟩ :=
    split_complete (stdParams P) _ S.syn (ctx P pre post) (cond_of_ok P hp S hok) (ctx_indep P S pre post hctx) T' h1
  exact ⟨T, (stable_denote _ _ T).mp ((Sem.stable_of_models (models_before P S pre post) T).mpr hT), hext⟩

/-! ## folding against an auxiliary rule that is already there -/

theorem models_unfolded_prog (S : Split) (hok : Ok S) (pre post : Prog) (H T : Interp) :
    HT.Models (denote (stdParams P) (pre ++ S.auxRule :: S.orig :: post)) H T ↔
      HT.Models (unfoldedProg (stdParams P) (fun v => v ∈ S.G0) S.syn (ctx P pre post)) H T := by
  rw [models_denote]
  simp only [Models, List.mem_append, List.mem_cons, unfoldedProg, Split.syn]
  constructor
  · intro h r hr
    rcases hr with (⟨s, hs, rfl⟩ | hr) | hr
    · rcases List.mem_append.mp hs with hs | hs
      · exact h s (Or.inl hs)
      · exact h s (Or.inr (Or.inr (Or.inr hs)))
    · exact (orig_models P S H T).mp (h _ (Or.inr (Or.inr (Or.inl rfl)))) r hr
    · exact (aux_models P S hok H T).mp (h _ (Or.inr (Or.inl rfl))) r hr
  · intro h s hs
    rcases hs with hs | rfl | rfl | hs
    · exact h _ (Or.inl (Or.inl ⟨s, List.mem_append_left _ hs, rfl⟩))
    · exact (aux_models P S hok H T).mpr fun r hr => h r (Or.inr hr)
    · exact (orig_models P S H T).mpr fun r hr => h r (Or.inl (Or.inr hr))
    · exact h _ (Or.inl (Or.inl ⟨s, List.mem_append_right _ hs, rfl⟩))

/-- **fold for programs**: with `aux(vs) :- new.` in the program, `head :- body.` (which contains `new`) and
`head :- rest, aux(vs).` are interchangeable: the two programs have the SAME stable models -/
theorem fold_existing_prog (hp : AggPersistent P) (S : Split) (hok : Ok S) (pre post : Prog) (hctx : CtxOk S pre post)
    (T : Interp) :
    Stable (stdParams P) (pre ++ S.auxRule :: S.orig :: post) T ↔
      Stable (stdParams P) (pre ++ S.auxRule :: S.updRule :: post) T := by
  rw [← stable_denote, ← stable_denote,
    Sem.stable_of_models (models_unfolded_prog P S hok pre post) T, Sem.stable_of_models (models_after P S hok pre post) T]
  exact fold_existing (stdParams P) _ S.syn (ctx P pre post) (cond_of_ok P hp S hok) (ctx_indep P S pre post hctx) T

/-! ## the executable check -/

def iffB (a b : Bool) : Bool := a == b

/-- what the driver evaluates on every split the real pass performs -/
def splitCheck (S : Split) : Bool :=
  S.body.all (fun l => blitMem l S.new || blitMem l S.rest) && S.new.all (blitMem · S.body) && S.rest.all (blitMem · S.body) &&
  (S.new.flatMap BLit.vars).all (fun v =>
    !((S.rest.flatMap BLit.vars).contains v || S.head.vars.contains v) || S.vs.contains v) &&
  bodyAvoids (nameSig S.auxName) S.new && bodyAvoids (nameSig S.auxName) S.rest && headAvoids (nameSig S.auxName) S.head &&
  (bodyScoped S.new).all (fun v => iffB (S.G0.contains v) (S.Ga.contains v)) &&
  (bodyScoped S.rest).all (fun v => iffB (S.G0.contains v) (S.Gu.contains v)) &&
  S.head.vars.all (fun v => iffB (S.G0.contains v) (S.Gu.contains v))

theorem iffB_mem {a b : List String} {v : String} (h : iffB (a.contains v) (b.contains v) = true) : v ∈ a ↔ v ∈ b := by
  simp only [iffB, beq_iff_eq] at h
  rw [← List.contains_iff_mem, ← List.contains_iff_mem, h]

theorem splitCheck_sound (S : Split) (h : splitCheck S = true) : Ok S := by
  simp only [splitCheck, Bool.and_eq_true] at h
  obtain ⟨⟨⟨⟨⟨⟨⟨⟨⟨h1, h2⟩, h3⟩, h4⟩, h5⟩, h6⟩, h7⟩, h8⟩, h9⟩, h10⟩ := h
  simp only [List.all_eq_true] at h1 h2 h3 h4 h8 h9 h10
  exact {
    parts := by
      intro l
      constructor
      · intro hl
        have := h1 l hl
        simp only [Bool.or_eq_true] at this
        rcases this with x | x
        · exact Or.inl (blitMem_mem x)
        · exact Or.inr (blitMem_mem x)
      · rintro (hl | hl)
        · exact blitMem_mem (h2 l hl)
        · exact blitMem_mem (h3 l hl)
    share := by
      intro v hv hor
      have := h4 v hv
      simp only [Bool.or_eq_true, Bool.not_eq_true', List.contains_iff_mem] at this
      rcases this with x | x
      · have hx : ((S.rest.flatMap BLit.vars).contains v || S.head.vars.contains v) = true := by
          simp only [Bool.or_eq_true, List.contains_iff_mem]; exact hor
        rw [hx] at x; cases x
      · exact x
    freshNew := h5
    freshRest := h6
    freshHead := h7
    scopeNew := fun v hv => iffB_mem (h8 v hv)
    scopeRest := fun v hv => iffB_mem (h9 v hv)
    scopeHead := fun v hv => iffB_mem (h10 v hv) }

def ctxCheck (S : Split) (pre post : Prog) : Bool := (pre ++ post).all fun s => C09sem.stmAvoids (nameSig S.auxName) s

theorem ctxCheck_sound (S : Split) (pre post : Prog) (h : ctxCheck S pre post = true) : CtxOk S pre post := by
  intro s hs
  simp only [ctxCheck, List.all_eq_true] at h
  exact h s hs

end NgoVerif.Proofs.C16stm
