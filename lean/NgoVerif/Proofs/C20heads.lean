import NgoVerif.Model.Dependency
/-!
# Every rule the domain / order templates of `dependency.py` emit has a plain positive atom head

(model functions `createDomain`, `createNext`, `createChain` of `Model/Dependency.lean`).  A plain head is what makes the
added rules a *definitional* (positive, deterministic) extension: no choice, no disjunction, no aggregate in a head.
-/
namespace NgoVerif.Proofs.C20heads
open NgoVerif NgoVerif.Dep

/-- `h :- body.` with `h` a positive symbolic atom `name(args)` -/
def plainRule : Stm → Bool
  | .rule _ _ (.lit (.pos, .sym (.fn _ _ false))) _ => true
  | _ => false

theorem projLit_plain (p : Pred) (m : Nat → Option Term) (b : List BLit) (l c : Nat) :
    plainRule (.rule l c (.lit (projLit p m)) b) = true := by
  simp [projLit, plainRule]

theorem createNext_plain (st st' : DomState) (ap : APred) (pos : Nat) (rs : List Stm)
    (h : createNext st ap pos = .ok (rs, st')) : rs.all plainRule = true := by
  unfold createNext at h
  simp only [bind, Except.bind, pure, Except.pure, throw, throwThe, MonadExceptOf.throw] at h
  split at h
  · simp at h
  split at h
  · simp at h
  split at h
  · simp at h
  split at h
  · simp at h
  split at h
  · simp at h
  split at h
  · simp at h
  simp only [Except.ok.injEq, Prod.mk.injEq] at h
  obtain ⟨rfl, _⟩ := h
  simp [plainRule, projLit]

theorem createChain_plain (st st' : DomState) (ap : APred) (pos : Nat) (mx : Bool) (rs : List Stm)
    (h : createChain st ap pos mx = .ok (rs, st')) : rs.all plainRule = true := by
  unfold createChain at h
  simp only [bind, Except.bind, pure, Except.pure, throw, throwThe, MonadExceptOf.throw] at h
  split at h
  · simp at h
  split at h
  · simp at h
  split at h
  · simp at h
  simp only [Except.ok.injEq, Prod.mk.injEq] at h
  obtain ⟨rfl, _⟩ := h
  simp [plainRule, projLit]

/-- a generator all of whose successful outputs are lists of plain rules -/
def PlainGen (rec : DomState → Pred → Gen) : Prop :=
  ∀ st p rs st', rec st p = (.ok rs, st') → rs.all plainRule = true

theorem domainForSyms_plain (rec : DomState → Pred → Gen) (hrec : PlainGen rec) :
    ∀ (ts : List Term) (st st' : DomState) (rs : List Stm),
      domainForSyms rec ts st = (.ok rs, st') → rs.all plainRule = true
  | [], st, st', rs, h => by
    simp only [domainForSyms, Prod.mk.injEq, Except.ok.injEq] at h
    obtain ⟨rfl, _⟩ := h; rfl
  | t :: ts, st, st', rs, h => by
    simp only [domainForSyms] at h
    split at h
    · simp at h
    split at h
    · exact domainForSyms_plain rec hrec ts _ _ _ h
    split at h
    · simp at h
    rename_i r1 st1 hr1
    split at h
    · simp at h
    rename_i r2 st2 hr2
    simp only [Prod.mk.injEq, Except.ok.injEq] at h
    obtain ⟨rfl, _⟩ := h
    rw [List.all_append, hrec _ _ _ _ hr1, domainForSyms_plain rec hrec ts _ _ _ hr2]; rfl

theorem domainForConds_plain (rec : DomState → Pred → Gen) (hrec : PlainGen rec) :
    ∀ (cs : List BLit) (st st' : DomState) (rs : List Stm),
      domainForConds rec cs st = (.ok rs, st') → rs.all plainRule = true
  | [], st, st', rs, h => by
    simp only [domainForConds, Prod.mk.injEq, Except.ok.injEq] at h
    obtain ⟨rfl, _⟩ := h; rfl
  | c :: cs, st, st', rs, h => by
    simp only [domainForConds] at h
    split at h
    · simp at h
    rename_i r1 st1 hr1
    split at h
    · simp at h
    rename_i r2 st2 hr2
    simp only [Prod.mk.injEq, Except.ok.injEq] at h
    obtain ⟨rfl, _⟩ := h
    rw [List.all_append, domainForSyms_plain rec hrec _ _ _ _ hr1, domainForConds_plain rec hrec cs _ _ _ hr2]; rfl

theorem domainForRules_plain (rec : DomState → Pred → Gen) (hrec : PlainGen rec) (pred : Pred) :
    ∀ (drs : List DRule) (st st' : DomState) (rs : List Stm),
      domainForRules rec pred drs st = (.ok rs, st') → rs.all plainRule = true
  | [], st, st', rs, h => by
    simp only [domainForRules, Prod.mk.injEq, Except.ok.injEq] at h
    obtain ⟨rfl, _⟩ := h; rfl
  | (head, cond) :: drs, st, st', rs, h => by
    simp only [domainForRules] at h
    split at h
    · simp at h
    split at h
    · split at h
      · simp at h
      rename_i r1 st1 hr1
      split at h
      · simp at h
      rename_i r2 st2 hr2
      simp only [Prod.mk.injEq, Except.ok.injEq] at h
      obtain ⟨rfl, _⟩ := h
      simp only [List.all_append, domainForConds_plain rec hrec _ _ _ _ hr1,
        domainForRules_plain rec hrec pred drs _ _ _ hr2, List.all_cons, List.all_nil, plainRule, Bool.and_self]
    · simp at h

theorem createDomainFuel_plain : ∀ fuel, PlainGen (createDomainFuel fuel)
  | 0 => by intro st p rs st' h; simp [createDomainFuel] at h
  | fuel + 1 => by
    intro st p rs st' h
    simp only [createDomainFuel] at h
    split at h
    · simp only [Prod.mk.injEq, Except.ok.injEq] at h; obtain ⟨rfl, _⟩ := h; rfl
    split at h
    · simp at h
    split at h
    · simp only [Prod.mk.injEq, Except.ok.injEq] at h; obtain ⟨rfl, _⟩ := h; rfl
    split at h
    · simp at h
    · exact domainForRules_plain _ (createDomainFuel_plain fuel) _ _ _ _ _ h

theorem createDomain_plain (st st' : DomState) (p : Pred) (rs : List Stm)
    (h : createDomain st p = (.ok rs, st')) : rs.all plainRule = true :=
  createDomainFuel_plain _ st p rs st' h

/-- **every request to the domain machinery answers with plain rules only** -/
theorem runReq_plain (st st' : DomState) (r : Req) (rs : List Stm)
    (h : runReq st r = (.ok rs, st')) : rs.all plainRule = true := by
  cases r with
  | domain p => exact createDomain_plain st st' p rs h
  | next ap pos =>
    simp only [runReq, genOf] at h
    split at h
    · rename_i r st2 heq
      simp only [Prod.mk.injEq, Except.ok.injEq] at h
      obtain ⟨rfl, rfl⟩ := h
      exact createNext_plain _ _ _ _ _ heq
    · simp at h
  | chain ap pos m =>
    simp only [runReq, genOf] at h
    split at h
    · rename_i r st2 heq
      simp only [Prod.mk.injEq, Except.ok.injEq] at h
      obtain ⟨rfl, rfl⟩ := h
      exact createChain_plain _ _ _ _ _ _ heq
    · simp at h
  | addRule p rules =>
    simp only [runReq] at h
    split at h <;> simp only [Prod.mk.injEq, Except.ok.injEq] at h
    · obtain ⟨rfl, _⟩ := h; rfl
    · exact absurd h.1 (by simp)

end NgoVerif.Proofs.C20heads
