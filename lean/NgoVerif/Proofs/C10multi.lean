import NgoVerif.Proofs.C10stm
/-!
# `duplication`: ALL places of use at once

`Proofs/C10stm.lean` handles one place of use; the places already rewritten mention the auxiliary predicate, so they
cannot be part of the context of the next fold.  Here the rules of all places of use are rewritten simultaneously:

    ctx ++ [ headᵢ :- bodyᵢ. ]ᵢ            vs            ctx ++ [ aux(V̄) :- S. ] ++ [ headᵢ :- restᵢ, aux(σᵢ V̄). ]ᵢ

The ground-level split theorem is reused with environments `(i, e)` - a place of use and a variable assignment -; the
glue condition now also relates different places (the copy at place `j` is the copy at place `i` renamed by `σⱼ ∘ σᵢ`).
Result: the answer sets of the two programs correspond one-to-one (`factor_all_sound`, `factor_all_complete`), under
the standard head semantics, each statement under its own global variables, for persistent aggregates.
-/
namespace NgoVerif.Proofs.C10multi
open NgoVerif NgoVerif.Sem NgoVerif.Proofs.C16sem NgoVerif.Proofs.C16stm NgoVerif.Proofs.C10stm

variable (P : Params)

/-- what all places of use share: the auxiliary rule over canonical variable names -/
structure Canon where
  auxName : String
  V : List String
  Sb : List BLit
  la : Nat
  ca : Nat

structure Place where
  line : Nat
  col : Nat
  head : Head
  body : List BLit
  rest : List BLit
  σ : String → String

namespace Canon
def stm (c : Canon) : Stm := .rule c.la c.ca (varAtomHead c.auxName c.V) c.Sb
def G (c : Canon) : List String := stdHeadGlobals (varAtomHead c.auxName c.V) ++ bodyGlobals c.Sb
def use (c : Canon) (p : Place) : Use :=
  { line := p.line, col := p.col, head := p.head, body := p.body, rest := p.rest, auxName := c.auxName, V := c.V, Sb := c.Sb,
    σ := p.σ, la := c.la, ca := c.ca }
def split (c : Canon) (p : Place) : Split := (c.use p).split
end Canon

/-- the side conditions of one place of use -/
structure PlaceOk (c : Canon) (p : Place) : Prop where
  inv : ∀ v, p.σ (p.σ v) = v
  ok : Ok (c.split p)
  /-- the variables inside local scopes of the literal set have at this place the status they have in the auxiliary rule -/
  scopeCanon : ∀ v ∈ bodyScoped c.Sb, p.σ v ∈ (c.split p).G0 ↔ v ∈ c.G

theorem use_canon (c : Canon) (p : Place) : (c.use p).canon = c.stm := rfl

/-- the canonical auxiliary rule means the rule family of the copy at any place of use -/
theorem canon_models (c : Canon) (p : Place) (hp : PlaceOk c p) (H T : Interp) :
    stmSat (stdParams P) H T c.stm ↔
      HT.Models (instances (stdParams P) (fun v => v ∈ (c.split p).G0) (.lit (auxLit c.auxName ((c.split p).vs))) (c.split p).new) H T := by
  rw [← use_canon c p, canon_iff_auxRule P (c.use p) hp.inv H T]
  exact aux_models P (c.split p) hp.ok H T

/-! ### the ground split data over pairs (place, environment) -/

def sd (c : Canon) (ps : List Place) (P0 : HT.Prog GAtom) : HT.SplitData GAtom (Fin ps.length × Env) (List Sym) where
  P0 := P0
  N := fun ie H T => bodySat P (fun v => v ∈ (c.split (ps.get ie.1)).G0) ie.2 H T (c.split (ps.get ie.1)).new
  R := fun ie H T => bodySat P (fun v => v ∈ (c.split (ps.get ie.1)).G0) ie.2 H T (ps.get ie.1).rest
  Hd := fun ie H T => stdHeadSat P (fun v => v ∈ (c.split (ps.get ie.1)).G0) ie.2 H T (ps.get ie.1).head
  t := fun ie => ((c.split (ps.get ie.1)).vs).map ie.2
  aux := fun k => ⟨c.auxName, k⟩
  aux_inj := by intro k k' h; cases h; rfl

theorem agreeName_of (c : Canon) (ps : List Place) (P0 : HT.Prog GAtom) {I J : Interp}
    (h : HT.AgreeOff (sd P c ps P0).A I J) : AgreeOffName (nameSig c.auxName) I J := by
  intro a hn
  apply h a
  rintro ⟨k, rfl⟩
  exact hn (by simp [named, nameSig, sd])

theorem split_auxName (c : Canon) (p : Place) : (c.split p).auxName = c.auxName := rfl
theorem split_vs (c : Canon) (p : Place) : (c.split p).vs = c.V.map p.σ := rfl
theorem split_new (c : Canon) (p : Place) : (c.split p).new = renameBody p.σ c.Sb := rfl
theorem split_rest (c : Canon) (p : Place) : (c.split p).rest = p.rest := rfl
theorem split_head (c : Canon) (p : Place) : (c.split p).head = p.head := rfl

theorem wf (hpers : AggPersistent P) (c : Canon) (ps : List Place) (hps : ∀ p ∈ ps, PlaceOk c p) (P0 : HT.Prog GAtom)
    (hP0 : ∀ r, P0 r → HT.Indep (sd P c ps P0).A r) : (sd P c ps P0).WF where
  p0 := hP0
  n := fun ie H T H' T' aH aT =>
    bodySat_indep P (nameSig c.auxName) _ _ (hps _ (List.get_mem ps ie.1)).ok.freshNew ie.2 H T H' T'
      (agreeName_of P c ps P0 aH) (agreeName_of P c ps P0 aT)
  r := fun ie H T H' T' aH aT =>
    bodySat_indep P (nameSig c.auxName) _ _ (hps _ (List.get_mem ps ie.1)).ok.freshRest ie.2 H T H' T'
      (agreeName_of P c ps P0 aH) (agreeName_of P c ps P0 aT)
  hd := fun ie H T H' T' aH aT =>
    stdHeadSat_indep P (nameSig c.auxName) _ _ (hps _ (List.get_mem ps ie.1)).ok.freshHead ie.2 H T H' T'
      (agreeName_of P c ps P0 aH) (agreeName_of P c ps P0 aT)
  pers := fun ie H T hs h => bodySat_pers P hpers _ ie.2 H T hs _ h

/-- the copy at a place, read at `e`, is the literal set read at `e ∘ σ` under the canonical global variables -/
theorem copy_sat (c : Canon) (p : Place) (hp : PlaceOk c p) (e : Env) (H T : Interp) :
    bodySat P (fun v => v ∈ (c.split p).G0) e H T (c.split p).new ↔
      bodySat P (fun v => v ∈ c.G) (fun v => e (p.σ v)) H T c.Sb := by
  rw [split_new, bodySat_rename P p.σ hp.inv _ H T c.Sb e]
  apply bodySat_gcongr
  intro v hv
  exact hp.scopeCanon v hv

theorem glue (c : Canon) (ps : List Place) (hps : ∀ p ∈ ps, PlaceOk c p) (P0 : HT.Prog GAtom) : (sd P c ps P0).Glue := by
  rintro ⟨i, e⟩ ⟨j, e'⟩ ht
  have hp := hps _ (List.get_mem ps i)
  have hq := hps _ (List.get_mem ps j)
  -- the interface values agree
  have hval : ∀ m ∈ c.V, e' ((ps.get j).σ m) = e ((ps.get i).σ m) := by
    simp only [sd, split_vs, List.map_map] at ht
    intro m hm
    have := List.map_inj_left.mp ht m hm
    simpa [Function.comp_def] using this
  let nv := ((c.split (ps.get i)).new).flatMap BLit.vars
  let ec : Env := fun v => e' ((ps.get j).σ ((ps.get i).σ v))
  refine ⟨(i, patch nv ec e), ?_, ?_, ?_⟩
  · intro H T
    show bodySat P _ (patch nv ec e) H T (c.split (ps.get i)).new ↔ bodySat P _ e' H T (c.split (ps.get j)).new
    rw [← bodySat_congr P _ H T (c.split (ps.get i)).new ec (patch nv ec e) (fun v hv => patch_eq nv ec e v hv),
      copy_sat P c _ hp ec H T, copy_sat P c _ hq e' H T]
    have : (fun v => ec ((ps.get i).σ v)) = (fun v => e' ((ps.get j).σ v)) := by
      funext v; simp only [ec, hp.inv]
    rw [this]
  · intro H T
    show bodySat P _ (patch nv ec e) H T (ps.get i).rest ↔ bodySat P _ e H T (ps.get i).rest
    apply bodySat_congr
    intro v hv
    simp only [patch]
    by_cases hm : v ∈ nv
    · simp only [hm, if_true]
      have hin := hp.ok.share v hm (Or.inl hv)
      rw [split_vs] at hin
      obtain ⟨m, hmV, rfl⟩ := List.mem_map.mp hin
      simp only [ec, hp.inv]
      exact hval m hmV
    · simp only [hm, if_false]
  · intro H T
    show stdHeadSat P _ (patch nv ec e) H T (ps.get i).head ↔ stdHeadSat P _ e H T (ps.get i).head
    apply stdHeadSat_congr
    intro v hv
    simp only [patch]
    by_cases hm : v ∈ nv
    · simp only [hm, if_true]
      have hin := hp.ok.share v hm (Or.inr hv)
      rw [split_vs] at hin
      obtain ⟨m, hmV, rfl⟩ := List.mem_map.mp hin
      simp only [ec, hp.inv]
      exact hval m hmV
    · simp only [hm, if_false]

/-! ### the two programs have the models of the schema's programs -/

def before (c : Canon) (ps : List Place) (ctx : Prog) : Prog := ctx ++ ps.map fun p => (c.split p).orig
def after (c : Canon) (ps : List Place) (ctx : Prog) : Prog := ctx ++ c.stm :: ps.map fun p => (c.split p).updRule

theorem parts_sat (c : Canon) (p : Place) (hp : PlaceOk c p) (G : String → Prop) (e : Env) (H T : Interp) :
    bodySat P G e H T p.body ↔ bodySat P G e H T (c.split p).new ∧ bodySat P G e H T p.rest := by
  simp only [bodySat]
  constructor
  · intro h
    exact ⟨fun l hl => h l ((hp.ok.parts l).mpr (Or.inl hl)), fun l hl => h l ((hp.ok.parts l).mpr (Or.inr hl))⟩
  · rintro ⟨h1, h2⟩ l hl
    rcases (hp.ok.parts l).mp hl with hl | hl
    · exact h1 l hl
    · exact h2 l hl

theorem get_of_mem {α : Type} {l : List α} {x : α} (h : x ∈ l) : ∃ i : Fin l.length, l.get i = x := by
  obtain ⟨i, hi, rfl⟩ := List.getElem_of_mem h
  exact ⟨⟨i, hi⟩, rfl⟩

theorem models_before (c : Canon) (ps : List Place) (hps : ∀ p ∈ ps, PlaceOk c p) (ctx : Prog) (H T : Interp) :
    HT.Models (denote (stdParams P) (before c ps ctx)) H T ↔
      HT.Models (sd P c ps (denote (stdParams P) ctx)).orig H T := by
  rw [models_denote]
  simp only [Models, before, List.mem_append, List.mem_map]
  constructor
  · intro h r hr
    rcases hr with ⟨s, hs, rfl⟩ | ⟨⟨i, e⟩, rfl⟩
    · exact h s (Or.inl hs)
    · have hp := hps _ (List.get_mem ps i)
      have := (orig_models P (c.split (ps.get i)) H T).mp (h _ (Or.inr ⟨ps.get i, List.get_mem ps i, rfl⟩)) _ ⟨e, rfl⟩
      simp only [HT.mkRule, sd, stdParams_headSat, stdParams_toParams] at this ⊢
      rw [show (c.split (ps.get i)).body = (ps.get i).body from rfl, parts_sat P c _ hp, parts_sat P c _ hp] at this
      exact this
  · intro h s hs
    rcases hs with hs | ⟨p, hp', rfl⟩
    · exact h _ (Or.inl ⟨s, hs, rfl⟩)
    · obtain ⟨i, rfl⟩ := get_of_mem hp'
      have hp := hps _ (List.get_mem ps i)
      apply (orig_models P (c.split (ps.get i)) H T).mpr
      rintro r ⟨e, rfl⟩
      have := h _ (Or.inr ⟨(i, e), rfl⟩)
      simp only [HT.mkRule, sd, stdParams_headSat, stdParams_toParams] at this ⊢
      rw [show (c.split (ps.get i)).body = (ps.get i).body from rfl, parts_sat P c _ hp, parts_sat P c _ hp]
      exact this

theorem auxHead_std (G : String → Prop) (e : Env) (H T : Interp) (name : String) (vs : List String) :
    (stdParams P).headSat G e H T (.lit (auxLit name vs)) ↔ H ⟨name, vs.map e⟩ :=
  varAtomHead_sat P G e H T name vs

theorem upd_body_sat (c : Canon) (p : Place) (G : String → Prop) (e : Env) (H T : Interp) :
    bodySat P G e H T ((c.split p).rest ++ [.lit (auxLit (c.split p).auxName (c.split p).vs)]) ↔
      H ⟨c.auxName, ((c.split p).vs).map e⟩ ∧ bodySat P G e H T p.rest :=
  bodySat_upd (stdParams P) G (c.split p).syn e H T

theorem models_after (c : Canon) (ps : List Place) (hne : 0 < ps.length) (hps : ∀ p ∈ ps, PlaceOk c p) (ctx : Prog)
    (hw : (sd P c ps (denote (stdParams P) ctx)).WF) (H T : Interp) :
    HT.Models (denote (stdParams P) (after c ps ctx)) H T ↔
      HT.Models (HT.Union (sd P c ps (denote (stdParams P) ctx)).folded
        ((sd P c ps (denote (stdParams P) ctx)).defs hw).rules) H T := by
  rw [models_denote]
  simp only [Models, after, List.mem_append, List.mem_cons, List.mem_map]
  constructor
  · intro h r hr
    rcases hr with (⟨s, hs, rfl⟩ | ⟨⟨i, e⟩, rfl⟩) | ⟨a, ⟨k, rfl⟩, rfl⟩
    · exact h s (Or.inl hs)
    · have hp := hps _ (List.get_mem ps i)
      have := (upd_models P (c.split (ps.get i)) hp.ok H T).mp
        (h _ (Or.inr (Or.inr ⟨ps.get i, List.get_mem ps i, rfl⟩))) _ ⟨e, rfl⟩
      simp only [HT.mkRule, sd, stdParams_headSat, stdParams_toParams] at this ⊢
      rw [upd_body_sat, upd_body_sat] at this
      exact this
    · have hc := h c.stm (Or.inr (Or.inl rfl))
      have key : ∀ W : Interp, (∀ s, s ∈ ctx ∨ s = c.stm ∨ (∃ p ∈ ps, (c.split p).updRule = s) → stmSat (stdParams P) W T s) →
          (sd P c ps (denote (stdParams P) ctx)).dfn ((sd P c ps (denote (stdParams P) ctx)).aux k) W T → W ⟨c.auxName, k⟩ := by
        rintro W hW ⟨⟨i, e⟩, hk, hn⟩
        have hp := hps _ (List.get_mem ps i)
        have := ((canon_models P c _ hp W T).mp (hW c.stm (Or.inr (Or.inl rfl))) _ ⟨e, rfl⟩).1 hn
        have hk' : k = ((c.split (ps.get i)).vs).map e := by simp only [sd] at hk; cases hk; rfl
        rw [hk']
        exact (auxHead_std P _ e W T c.auxName _).mp this
      constructor
      · exact key H h
      · rintro ⟨⟨i, e⟩, hk, hn⟩
        have hp := hps _ (List.get_mem ps i)
        have := ((canon_models P c _ hp H T).mp hc _ ⟨e, rfl⟩).2 hn
        have hk' : k = ((c.split (ps.get i)).vs).map e := by simp only [sd] at hk; cases hk; rfl
        rw [hk']
        exact (auxHead_std P _ e T T c.auxName _).mp this
  · intro h s hs
    rcases hs with hs | rfl | ⟨p, hp', rfl⟩
    · exact h _ (Or.inl (Or.inl ⟨s, hs, rfl⟩))
    · -- the canonical auxiliary rule: through the copy at the first place of use
      have hp := hps _ (List.get_mem ps ⟨0, hne⟩)
      apply (canon_models P c _ hp H T).mpr
      rintro r ⟨e, rfl⟩
      have := h _ (Or.inr ⟨⟨c.auxName, ((c.split (ps.get ⟨0, hne⟩)).vs).map e⟩, ⟨_, rfl⟩, rfl⟩)
      exact ⟨fun hn => (auxHead_std P _ e H T c.auxName _).mpr (this.1 ⟨(⟨0, hne⟩, e), rfl, hn⟩),
             fun hn => (auxHead_std P _ e T T c.auxName _).mpr (this.2 ⟨(⟨0, hne⟩, e), rfl, hn⟩)⟩
    · obtain ⟨i, rfl⟩ := get_of_mem hp'
      have hp := hps _ (List.get_mem ps i)
      apply (upd_models P (c.split (ps.get i)) hp.ok H T).mpr
      rintro r ⟨e, rfl⟩
      have := h _ (Or.inl (Or.inr ⟨(i, e), rfl⟩))
      simp only [HT.mkRule, sd, stdParams_headSat, stdParams_toParams] at this ⊢
      rw [upd_body_sat, upd_body_sat]
      exact this

/-- the context does not mention the auxiliary predicate -/
def CtxAvoids (c : Canon) (ctx : Prog) : Prop := ∀ s ∈ ctx, C09sem.stmAvoids (nameSig c.auxName) s = true

theorem ctx_indep (c : Canon) (ps : List Place) (ctx : Prog) (hctx : CtxAvoids c ctx) :
    ∀ r, denote (stdParams P) ctx r → HT.Indep (sd P c ps (denote (stdParams P) ctx)).A r := by
  rintro r ⟨s, hs, rfl⟩ H T H' T' aH aT
  exact C09sem.stmSat_indep P _ s (hctx s hs) H T H' T' (agreeName_of P c ps _ aH) (agreeName_of P c ps _ aT)

/-- the extension of an answer set by the auxiliary atoms whose literal set holds at some place of use -/
def extendAll (c : Canon) (ps : List Place) (T : Interp) : Interp :=
  fun a => (¬ (∃ k, a = ⟨c.auxName, k⟩) ∧ T a) ∨
    ((∃ k, a = ⟨c.auxName, k⟩) ∧ ∃ (i : Fin ps.length) (e : Env), a = ⟨c.auxName, ((c.split (ps.get i)).vs).map e⟩ ∧
      bodySat P (fun v => v ∈ (c.split (ps.get i)).G0) e T T (c.split (ps.get i)).new)

theorem ext_eq (c : Canon) (ps : List Place) (P0 : HT.Prog GAtom) (hw : (sd P c ps P0).WF) (T : Interp) :
    HT.ext ((sd P c ps P0).defs hw) T = extendAll P c ps T := by
  funext a
  simp only [HT.ext, HT.SplitData.defs, HT.SplitData.A, HT.SplitData.dfn, sd, extendAll]
  apply propext
  constructor
  · rintro (h | ⟨hA, ⟨i, e⟩, ha, hn⟩)
    · exact Or.inl h
    · exact Or.inr ⟨hA, i, e, ha, hn⟩
  · rintro (h | ⟨hA, i, e, ha, hn⟩)
    · exact Or.inl h
    · exact Or.inr ⟨hA, ⟨i, e⟩, ha, hn⟩

/-- **soundness, all places of use at once**: every stable model of the source extends to a stable model of the program
with the auxiliary rule and all rewritten rules -/
theorem factor_all_sound (hpers : AggPersistent P) (c : Canon) (ps : List Place) (hne : 0 < ps.length)
    (hps : ∀ p ∈ ps, PlaceOk c p) (ctx : Prog) (hctx : CtxAvoids c ctx) (T : Interp)
    (hT : Stable (stdParams P) (before c ps ctx) T) :
    Stable (stdParams P) (after c ps ctx) (extendAll P c ps T) := by
  have hw := wf P hpers c ps hps _ (ctx_indep P c ps ctx hctx)
  have h1 := (Sem.stable_of_models (models_before P c ps hps ctx) T).mp ((stable_denote _ _ T).mpr hT)
  have h2 := (sd P c ps _).split_sound hw (glue P c ps hps _) T h1
  rw [ext_eq] at h2
  exact (stable_denote _ _ _).mp ((Sem.stable_of_models (models_after P c ps hne hps ctx hw) _).mpr h2)

/-- **completeness, all places of use at once** -/
theorem factor_all_complete (hpers : AggPersistent P) (c : Canon) (ps : List Place) (hne : 0 < ps.length)
    (hps : ∀ p ∈ ps, PlaceOk c p) (ctx : Prog) (hctx : CtxAvoids c ctx) (T' : Interp)
    (hT' : Stable (stdParams P) (after c ps ctx) T') :
    ∃ T, Stable (stdParams P) (before c ps ctx) T ∧ ∀ a, T' a ↔ extendAll P c ps T a := by
  have hw := wf P hpers c ps hps _ (ctx_indep P c ps ctx hctx)
  have h1 := (Sem.stable_of_models (models_after P c ps hne hps ctx hw) T').mp ((stable_denote _ _ T').mpr hT')
  obtain ⟨T, hT, hext⟩ := (sd P c ps _).split_complete hw (glue P c ps hps _) T' h1
  refine ⟨T, (stable_denote _ _ T).mp ((Sem.stable_of_models (models_before P c ps hps ctx) T).mpr hT), ?_⟩
  intro a
  rw [hext a, ext_eq]

/-! ### with the auxiliary / helper rule on both sides: unfolding a positive body atom -/

/-- the program with the literal set at every place AND the rule `aux(V̄) :- S.` -/
def beforeWith (c : Canon) (ps : List Place) (ctx : Prog) : Prog := ctx ++ c.stm :: ps.map fun p => (c.split p).orig

theorem models_beforeWith (c : Canon) (ps : List Place) (hne : 0 < ps.length) (hps : ∀ p ∈ ps, PlaceOk c p) (ctx : Prog)
    (hw : (sd P c ps (denote (stdParams P) ctx)).WF) (H T : Interp) :
    HT.Models (denote (stdParams P) (beforeWith c ps ctx)) H T ↔
      HT.Models (HT.Union (sd P c ps (denote (stdParams P) ctx)).orig
        ((sd P c ps (denote (stdParams P) ctx)).defs hw).rules) H T := by
  -- the statements other than the canonical rule are those of `before`; the canonical rule is the definition
  have hb := models_before P c ps hps ctx H T
  rw [models_denote] at hb ⊢
  simp only [Models, beforeWith, before, List.mem_append, List.mem_cons, List.mem_map] at hb ⊢
  constructor
  · intro h r hr
    rcases hr with hr | ⟨a, ⟨k, rfl⟩, rfl⟩
    · exact hb.mp (fun s hs => h s (hs.elim Or.inl (fun x => Or.inr (Or.inr x)))) r hr
    · have key : ∀ W : Interp, stmSat (stdParams P) W T c.stm →
          (sd P c ps (denote (stdParams P) ctx)).dfn ((sd P c ps (denote (stdParams P) ctx)).aux k) W T → W ⟨c.auxName, k⟩ := by
        rintro W hW ⟨⟨i, e⟩, hk, hn⟩
        have hp := hps _ (List.get_mem ps i)
        have := ((canon_models P c _ hp W T).mp hW _ ⟨e, rfl⟩).1 hn
        have hk' : k = ((c.split (ps.get i)).vs).map e := by simp only [sd] at hk; cases hk; rfl
        rw [hk']
        exact (auxHead_std P _ e W T c.auxName _).mp this
      have hc := h c.stm (Or.inr (Or.inl rfl))
      refine ⟨key H hc, ?_⟩
      rintro ⟨⟨i, e⟩, hk, hn⟩
      have hp := hps _ (List.get_mem ps i)
      have := ((canon_models P c _ hp H T).mp hc _ ⟨e, rfl⟩).2 hn
      have hk' : k = ((c.split (ps.get i)).vs).map e := by simp only [sd] at hk; cases hk; rfl
      rw [hk']
      exact (auxHead_std P _ e T T c.auxName _).mp this
  · intro h s hs
    rcases hs with hs | rfl | hs
    · exact hb.mpr (fun r hr => h r (Or.inl hr)) s (Or.inl hs)
    · have hp := hps _ (List.get_mem ps ⟨0, hne⟩)
      apply (canon_models P c _ hp H T).mpr
      rintro r ⟨e, rfl⟩
      have := h _ (Or.inr ⟨⟨c.auxName, ((c.split (ps.get ⟨0, hne⟩)).vs).map e⟩, ⟨_, rfl⟩, rfl⟩)
      exact ⟨fun hn => (auxHead_std P _ e H T c.auxName _).mpr (this.1 ⟨(⟨0, hne⟩, e), rfl, hn⟩),
             fun hn => (auxHead_std P _ e T T c.auxName _).mpr (this.2 ⟨(⟨0, hne⟩, e), rfl, hn⟩)⟩
    · exact hb.mpr (fun r hr => h r (Or.inl hr)) s (Or.inr hs)

/-- **unfolding / folding with the defining rule present**: `aux(σᵢ V̄)` in the bodies and the literal set `σᵢ S` in its
place give the SAME stable models as long as the rule `aux(V̄) :- S.` is in the program (read left to right: `inline`
of a helper into positive body literals and the unfolding of copy rules; right to left: folding) -/
theorem fold_all_existing (hpers : AggPersistent P) (c : Canon) (ps : List Place) (hne : 0 < ps.length)
    (hps : ∀ p ∈ ps, PlaceOk c p) (ctx : Prog) (hctx : CtxAvoids c ctx) (T : Interp) :
    Stable (stdParams P) (after c ps ctx) T ↔ Stable (stdParams P) (beforeWith c ps ctx) T := by
  have hw := wf P hpers c ps hps _ (ctx_indep P c ps ctx hctx)
  rw [← stable_denote, ← stable_denote, Sem.stable_of_models (models_after P c ps hne hps ctx hw) T,
    Sem.stable_of_models (models_beforeWith P c ps hne hps ctx hw) T]
  exact ((sd P c ps _).fold_existing hw (glue P c ps hps _) T).symm

/-- the order (and multiplicity) of the statements of a program is immaterial -/
theorem stable_of_same_statements (a b : Prog) (h : ∀ s, s ∈ a ↔ s ∈ b) (T : Interp) :
    Stable (stdParams P) a T ↔ Stable (stdParams P) b T := by
  have hm : ∀ H T', Models (stdParams P) a H T' ↔ Models (stdParams P) b H T' := by
    intro H T'
    simp only [Models]
    exact ⟨fun x s hs => x s ((h s).mpr hs), fun x s hs => x s ((h s).mp hs)⟩
  unfold Stable
  rw [hm T T]
  constructor
  · rintro ⟨x, y⟩; exact ⟨x, fun H hs hp hM => y H hs hp ((hm H T).mpr hM)⟩
  · rintro ⟨x, y⟩; exact ⟨x, fun H hs hp hM => y H hs hp ((hm H T).mp hM)⟩

/-- the order (and multiplicity) of the literals of a rule body is immaterial -/
theorem stmSat_same_body (l c l' c' : Nat) (h : Head) (b b' : List BLit) (hb : ∀ x, x ∈ b ↔ x ∈ b') (H T : Interp) :
    stmSat (stdParams P) H T (.rule l c h b) ↔ stmSat (stdParams P) H T (.rule l' c' h b') := by
  have hG : (fun v => v ∈ ruleGlobals (stdParams P) h b) = (fun v => v ∈ ruleGlobals (stdParams P) h b') := by
    funext v
    apply propext
    simp only [ruleGlobals, bodyGlobals, List.mem_append, List.mem_flatMap]
    constructor
    · rintro (h1 | ⟨x, hx, hv⟩)
      · exact Or.inl h1
      · exact Or.inr ⟨x, (hb x).mp hx, hv⟩
    · rintro (h1 | ⟨x, hx, hv⟩)
      · exact Or.inl h1
      · exact Or.inr ⟨x, (hb x).mpr hx, hv⟩
  have hS : ∀ (G : String → Prop) (e : Env) (W W' : Interp), bodySat P G e W W' b ↔ bodySat P G e W W' b' := by
    intro G e W W'
    simp only [bodySat]
    exact ⟨fun x y hy => x y ((hb y).mpr hy), fun x y hy => x y ((hb y).mp hy)⟩
  simp only [stmSat, stdParams_headSat, stdParams_toParams, hG, hS]

/-! ## the executable check -/

def placeOf (line col : Nat) (head : Head) (body rest : List BLit) (pairs : List (String × String)) : Place :=
  { line := line, col := col, head := head, body := body, rest := rest, σ := C11check.swaps pairs }

def placeCheck (c : Canon) (line col : Nat) (head : Head) (body rest : List BLit) (pairs : List (String × String)) : Bool :=
  C11check.involOk pairs && splitCheck (c.split (placeOf line col head body rest pairs)) &&
  (bodyScoped c.Sb).all fun v =>
    iffB ((c.split (placeOf line col head body rest pairs)).G0.contains (C11check.swaps pairs v)) (c.G.contains v)

theorem iffB_mem2 {a b : List String} {x y : String} (h : iffB (a.contains x) (b.contains y) = true) : x ∈ a ↔ y ∈ b := by
  simp only [iffB, beq_iff_eq] at h
  rw [← List.contains_iff_mem, ← List.contains_iff_mem, h]

theorem placeCheck_sound (c : Canon) (line col : Nat) (head : Head) (body rest : List BLit) (pairs : List (String × String))
    (h : placeCheck c line col head body rest pairs = true) : PlaceOk c (placeOf line col head body rest pairs) := by
  simp only [placeCheck, Bool.and_eq_true, List.all_eq_true] at h
  exact {
    inv := C11check.swaps_inv pairs h.1.1
    ok := splitCheck_sound _ h.1.2
    scopeCanon := fun v hv => iffB_mem2 (h.2 v hv) }

def ctxAvoidsCheck (c : Canon) (ctx : Prog) : Bool := ctx.all fun s => C09sem.stmAvoids (nameSig c.auxName) s

theorem ctxAvoidsCheck_sound (c : Canon) (ctx : Prog) (h : ctxAvoidsCheck c ctx = true) : CtxAvoids c ctx := by
  intro s hs
  simp only [ctxAvoidsCheck, List.all_eq_true] at h
  exact h s hs

end NgoVerif.Proofs.C10multi
