import NgoVerif.Sexp
import NgoVerif.Syntax
import NgoVerif.Model.Cleanup
/-!
# Driver ops for the `cleanup` pass (`ngo/cleanup.py`)

* `(cleanup <prog> (<input preds>…))` → `(ok <prog>)` | `(err "…")` | `(unsupported "…")`:
  `CleanupTranslator(inputs).execute(prog)` without its first line (`inline_arithmetic`).
* `(cleanup_mappings <prog> (<input preds>…))` → `(ok ((hname harity sign bname barity (varmap…)) …))`:
  `self.superseeds` after `_find_superseeded(prog)`, sorted.
-/
namespace NgoVerif
open Sexp

namespace Cleanup

def okS (xs : List Sexp) : Sexp := .list (.atom "ok" :: xs)
def unsupportedS (why : String) : Sexp := .list [.atom "unsupported", .str why]
def errorS (what : String) : Sexp := .list [.atom "err", .str what]

def Mapping.toSexp (m : Mapping) : Sexp :=
  .list [.str m.headPred.name, ofNat m.headPred.arity, m.bodyPred.sign.toSexp,
         .str m.bodyPred.pred.name, ofNat m.bodyPred.pred.arity, .list (m.varMap.map ofNat)]

end Cleanup

def handleCleanup : Sexp → Option Sexp
  | .list [.atom "cleanup", p, .list ins] =>
    some <| match Prog.ofSexp p, ins.mapM Pred.ofSexp with
      | some prg, some inputs =>
        match Cleanup.execute prg inputs with
        | .ok r => Cleanup.okS [r.toSexp]
        | .error e => Cleanup.errorS e
      | _, _ => Cleanup.unsupportedS "program"
  | .list [.atom "cleanup_mappings", p, .list ins] =>
    some <| match Prog.ofSexp p, ins.mapM Pred.ofSexp with
      | some prg, some inputs =>
        match Cleanup.findSuperseeded prg inputs with
        | .ok ms => Cleanup.okS [.list ((Cleanup.sortMappings ms).map Cleanup.Mapping.toSexp)]
        | .error e => Cleanup.errorS e
      | _, _ => Cleanup.unsupportedS "program"
  | _ => none

end NgoVerif
