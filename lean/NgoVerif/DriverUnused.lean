import NgoVerif.Sexp
import NgoVerif.Syntax
import NgoVerif.Model.Unused
/-!
# Driver ops for the `unused` pass (`ngo/unused.py`)

* `(unused <prog> (<input preds>…) (<output preds>…))` → `(ok <prog>)` | `(err "…")` | `(unsupported "…")`:
  `UnusedTranslator(prog, inputs, outputs).execute(prog)` (including its first line `exline_arithmetic`).
* `(unused_trace <prog> (<input preds>…) (<output preds>…))` →
  `(ok (<iteration>…) (<memo>…))` | `(err "…")` | `(unsupported "…")` with
  `<iteration> = (anonymised projected removed copied)` (0|1: the step changed the program in that iteration of the
  `while` loop) and `<memo> = ((oname oarity) (nname narity) "fresh name")`, the entries of `self.new_names`.
* `(unused_exline <prog>)` → `(ok <prog>)` | `(err "…")` | `(unsupported "…")`: `exline_arithmetic(prog)`.
-/
namespace NgoVerif
open Sexp

namespace Unused

def okS (xs : List Sexp) : Sexp := .list (.atom "ok" :: xs)
def unsupportedS (why : String) : Sexp := .list [.atom "unsupported", .str why]
def errorS (what : String) : Sexp := .list [.atom "err", .str what]

def StepTrace.toSexp (t : StepTrace) : Sexp :=
  .list [ofBool t.anonymised, ofBool t.projected, ofBool t.removed, ofBool t.copied]

def memoToSexp (m : List ((Pred × Pred) × String)) : Sexp :=
  .list (m.map fun e => .list [e.1.1.toSexp, e.1.2.toSexp, .str e.2])

end Unused

def handleUnused : Sexp → Option Sexp
  | .list [.atom "unused", p, .list ins, .list outs] =>
    some <| match Prog.ofSexp p, ins.mapM Pred.ofSexp, outs.mapM Pred.ofSexp with
      | some prg, some inputs, some outputs =>
        match Unused.unsupported? prg with
        | some why => Unused.unsupportedS why
        | none =>
          match Unused.execute prg inputs outputs with
          | .ok r => Unused.okS [r.toSexp]
          | .error e => if e == Unused.orderDependent then Unused.unsupportedS e else Unused.errorS e
      | _, _, _ => Unused.unsupportedS "program"
  | .list [.atom "unused_trace", p, .list ins, .list outs] =>
    some <| match Prog.ofSexp p, ins.mapM Pred.ofSexp, outs.mapM Pred.ofSexp with
      | some prg, some inputs, some outputs =>
        match Unused.unsupported? prg with
        | some why => Unused.unsupportedS why
        | none =>
          match Unused.executeTrace prg inputs outputs with
          | .ok (_, st, tr) => Unused.okS [.list (tr.map Unused.StepTrace.toSexp), Unused.memoToSexp st.memo]
          | .error e => if e == Unused.orderDependent then Unused.unsupportedS e else Unused.errorS e
      | _, _, _ => Unused.unsupportedS "program"
  | .list [.atom "unused_exline", p] =>
    some <| match Prog.ofSexp p with
      | some prg =>
        match Unused.unsupported? prg with
        | some why => Unused.unsupportedS why
        | none =>
          match Unused.exlineArithmetic prg with
          | .ok r => Unused.okS [r.toSexp]
          | .error e => if e == Unused.orderDependent then Unused.unsupportedS e else Unused.errorS e
      | none => Unused.unsupportedS "program"
  | _ => none

end NgoVerif
