import NgoVerif.Sexp
import NgoVerif.Syntax
import NgoVerif.Model.MathSimp
/-!
# Driver ops for `ngo/math_simplification.py`

* `(math <prog> (<inputs>…) (<answer>…))` → `(ok <prog> (<request>…) <n>)`: `MathSimplification(prog).execute(prog)`
  given the recorded answers of sympy, in call order; the second component is the list of requests the model sent,
  `<n>` the number of `combine` answers the model computed itself and found confirmed by the recorded ones.
  (`MathSimplification` has no input predicates, the slot is ignored.)
* `(math_noopt …)`: the same with `optimize=False`.
* a Python exception leaving `execute` is `(err "py: …" (<request>…))`, answers that do not fit the requests are
  `(err "oracle: …" (<request>…))`, programs outside the fragment `(unsupported "…")`.

Requests: `(groebner (<poly>…) ("sym"…))`, `(solve <poly> "sym")`, `(combine <r3> <r3>)`, `(sort <rel>…)`.
Answers: `(g ok <tree>…)`, `(g exc)`, `(s ok <tree>…)`, `(s exc)`, `(c none <r3> <r3>)`, `(c some <r5> <r3> <r3>)`,
`(c exc)`, `(o <index>…)`, `(o exc)`.
`<poly>` = `((<coeff> (("sym" <exp>)…))…)`; `<tree>` = `(int n)`, `(rat p q)`, `(sym "s")`, `(add <tree>…)`,
`(mul <tree>…)`, `(pow <tree> <tree> <0|1>)`, `(other "Class" <tree>…)`; `<r3>` = `(r3 <tree> <op> <tree>)`,
`<r5>` = `(r5 <tree> <op> <tree> <op> <tree>)`.
-/
namespace NgoVerif
open Sexp

namespace MathSimp

def polyToSexp (p : Poly) : Sexp :=
  .list (p.map fun (m, c) => .list [ofInt c, .list (m.map fun (n, k) => .list [.str n, ofNat k])])

mutual
def Tree.toSexp : Tree → Sexp
  | .int n => .list [.atom "int", ofInt n]
  | .rat p q => .list [.atom "rat", ofInt p, ofInt q]
  | .sym s => .list [.atom "sym", .str s]
  | .add args => .list (.atom "add" :: Tree.listToSexp args)
  | .mul args => .list (.atom "mul" :: Tree.listToSexp args)
  | .pow b e pos => .list [.atom "pow", b.toSexp, e.toSexp, ofBool pos]
  | .other f args => .list (.atom "other" :: .str f :: Tree.listToSexp args)
def Tree.listToSexp : List Tree → List Sexp
  | [] => []
  | t :: ts => t.toSexp :: Tree.listToSexp ts
end

mutual
def Tree.ofSexp : Sexp → Option Tree
  | .list [.atom "int", n] => n.toInt?.map Tree.int
  | .list [.atom "rat", p, q] => do
    let p' ← p.toInt?
    let q' ← q.toInt?
    pure (.rat p' q')
  | .list [.atom "sym", .str s] => some (.sym s)
  | .list [.atom "pow", b, e, pos] => do
    let b' ← Tree.ofSexp b
    let e' ← Tree.ofSexp e
    let p ← pos.toBool?
    pure (.pow b' e' p)
  | .list (.atom "add" :: args) => (Tree.listOfSexp args).map Tree.add
  | .list (.atom "mul" :: args) => (Tree.listOfSexp args).map Tree.mul
  | .list (.atom "other" :: .str f :: args) => (Tree.listOfSexp args).map (Tree.other f)
  | _ => none
def Tree.listOfSexp : List Sexp → Option (List Tree)
  | [] => some []
  | x :: xs => do
    let t ← Tree.ofSexp x
    let ts ← Tree.listOfSexp xs
    pure (t :: ts)
end

def r3ToSexp (r : Rel3) : Sexp := .list [.atom "r3", r.1.toSexp, r.2.1.toSexp, r.2.2.toSexp]
def r5ToSexp (r : Rel5) : Sexp :=
  .list [.atom "r5", r.1.toSexp, r.2.1.toSexp, r.2.2.1.toSexp, r.2.2.2.1.toSexp, r.2.2.2.2.toSexp]
def relToSexp : Rel → Sexp
  | .r3 r => r3ToSexp r
  | .r5 r => r5ToSexp r

def r3OfSexp : Sexp → Option Rel3
  | .list [.atom "r3", l, op, r] => do
    let l' ← Tree.ofSexp l
    let o ← CmpOp.ofSexp op
    let r' ← Tree.ofSexp r
    pure (l', o, r')
  | _ => none
def r5OfSexp : Sexp → Option Rel5
  | .list [.atom "r5", l, opl, m, opr, r] => do
    let l' ← Tree.ofSexp l
    let o1 ← CmpOp.ofSexp opl
    let m' ← Tree.ofSexp m
    let o2 ← CmpOp.ofSexp opr
    let r' ← Tree.ofSexp r
    pure (l', o1, m', o2, r')
  | _ => none

def reqToSexp : Req → Sexp
  | .groebner eqs vars =>
    .list [.atom "groebner", .list (eqs.map fun e => match e with | some p => polyToSexp p | none => .list [.atom "nonpoly"]),
           .list (vars.map Sexp.str)]
  | .solve p v => .list [.atom "solve", polyToSexp p, .str v]
  | .combine a b => .list [.atom "combine", r3ToSexp a, r3ToSexp b]
  | .sort rels => .list (.atom "sort" :: rels.map relToSexp)

def ansOfSexp : Sexp → Option Ans
  | .list [.atom "g", .atom "exc"] => some (.exc "groebner")
  | .list [.atom "s", .atom "exc"] => some (.exc "solve")
  | .list [.atom "c", .atom "exc"] => some (.exc "combine")
  | .list [.atom "o", .atom "exc"] => some (.exc "sort")
  | .list (.atom "g" :: .atom "ok" :: ts) => (Tree.listOfSexp ts).map (Ans.trees "groebner")
  | .list (.atom "s" :: .atom "ok" :: ts) => (Tree.listOfSexp ts).map (Ans.trees "solve")
  | .list [.atom "c", .atom "none", a, b] => do
    let a' ← r3OfSexp a
    let b' ← r3OfSexp b
    pure (.comb none a' b')
  | .list [.atom "c", .atom "some", r, a, b] => do
    let r' ← r5OfSexp r
    let a' ← r3OfSexp a
    let b' ← r3OfSexp b
    pure (.comb (some r') a' b')
  | .list (.atom "o" :: ks) => (ks.mapM Sexp.toNat?).map Ans.perm
  | _ => none

def stmSupported : Stm → Bool
  | .rule _ _ h b => !h.hasTheory && !(b.any BLit.hasTheory)
  | .minimize _ _ _ _ _ b => !(b.any BLit.hasTheory)
  | _ => true

def answer (optimize : Bool) (p : Sexp) (answers : List Sexp) : Sexp :=
  match Prog.ofSexp p, answers.mapM ansOfSexp with
  | none, _ => .list [.atom "unsupported", .str "program"]
  | _, none => .list [.atom "unsupported", .str "answers"]
  | some prg, some ans =>
    if !prg.all stmSupported then .list [.atom "unsupported", .str "theory atom"] else
    let (r, reqs, npred) := run optimize prg ans
    let reqS := Sexp.list (reqs.map reqToSexp)
    match r with
    | .ok res => .list [.atom "ok", Prog.toSexp res, reqS, ofNat npred]
    | .error (.py m) => .list [.atom "err", .str ("py: " ++ m), reqS]
    | .error (.oracle m) => .list [.atom "err", .str ("oracle: " ++ m), reqS]
    | .error (.unsup m) => .list [.atom "unsupported", .str m]

end MathSimp

def handleMathSimp : Sexp → Option Sexp
  | .list [.atom "math", p, .list _, .list answers] => some (MathSimp.answer true p answers)
  | .list [.atom "math_noopt", p, .list _, .list answers] => some (MathSimp.answer false p answers)
  | _ => none

end NgoVerif
