def hello := "world"
