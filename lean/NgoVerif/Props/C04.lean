import NgoVerif.Props.C16
import NgoVerif.Props.C07
/-!
# C04 — the result is a valid, safe clingo program and its printed form is faithful

Provable here (about the executable models, tied to the code by correspondence):
* the rules `projection` creates are safe *by ngo's own binding analysis* (`C04_projection_safe`, from
  `C16_good_split_sound`) and the analysis is a total function (no `partial`, fuel justified in `Model/Binding.lean`);
* fresh variables stay lexically variables: `make_unique` appends decimal digits to a variable token
  (`C04_make_unique_lexical`), so a node built as `Variable` prints as a variable (the former counterexample
  `Variable("none")` in sum_chains was repaired by a `fix:` commit);
* invented predicate names are fresh (C07).
Observed on the real code only (runtime behaviour of clingo): `ProgramBuilder.add`, grounding without safety errors,
`str(parse(str(s))) = str(s)`, equal answer sets through AST and text.  Whether ngo's binding analysis agrees with
gringo's safety is exactly what that observation decides.
-/
namespace NgoVerif

/-- a variable token: optional underscores, then an upper-case letter -/
def isVarTok : List Char → Bool
  | [] => false
  | c :: cs => if c == '_' then isVarTok cs else c.isUpper

theorem isVarTok_append (l t : List Char) (h : isVarTok l = true) : isVarTok (l ++ t) = true := by
  induction l with
  | nil => simp [isVarTok] at h
  | cons c cs ih =>
    simp only [List.cons_append, isVarTok] at h ⊢
    by_cases hc : (c == '_') = true
    · simp only [hc, if_true] at h ⊢; exact ih h
    · simp only [hc, Bool.false_eq_true, if_false] at h ⊢; exact h

/-- `make_unique` keeps variable tokens lexically valid -/
theorem C04_make_unique_lexical (u u' : UniqueVars) (v r : String) (hv : isVarTok v.toList = true)
    (h : u.makeUnique v = some (r, u')) : isVarTok r.toList = true := by
  unfold UniqueVars.makeUnique at h
  split at h
  · simp only [Option.some.injEq, Prod.mk.injEq] at h; rw [← h.1]; exact hv
  · split at h
    · simp only [Option.some.injEq, Prod.mk.injEq] at h; rw [← h.1]; exact hv
    · cases hf : findFreeVar v u.all (u.all.length + 1) 0 with
      | none => rw [hf] at h; simp at h
      | some n =>
        rw [hf] at h
        simp only [Option.some.injEq, Prod.mk.injEq] at h
        rw [← h.1, String.toList_append]
        exact isVarTok_append _ _ hv

/-- both rules of an accepted split are safe according to ngo's binding analysis: the moved part leaves no variable
unbound, and the remaining part leaves none unbound once the interface variables are bound by the auxiliary atom -/
theorem C04_projection_safe (new rest : List BLit) (head : Head) (body : List BLit) (t : List String)
    (h : goodSplit new rest head body = .ok (some t)) :
    (∃ b, bindingBody new = .ok (b, [])) ∧
    (∃ g gh b, globalVarsInsideBody new = .ok g ∧ globalVarsInsideHead head = .ok gh ∧
      bindingBody rest (some (vInter g (vUnion (varsOfNoAnon rest) gh))) = .ok (b, [])) := by
  obtain ⟨gNew, gHead, _, bNew, bRest, h1, h2, _, h4, h5, _⟩ := C16_good_split_sound new rest head body t h
  exact ⟨⟨bNew, h4⟩, ⟨gNew, gHead, bRest, h1, h2, h5⟩⟩

/-- invented predicates never collide with the vocabulary (so a generated rule cannot capture a source predicate) -/
theorem C04_fresh_predicates (prg : Prog) (inputs : List Pred) (ops : List NameOp) :
    ∃ ps s', (UniqueNames.init prg inputs).run ops = some (ps, s') ∧ ps.Nodup ∧
      ∀ p ∈ ps, p ∉ inputs ∧ p ∉ prg.allPreds ∧ p ∉ showSigs prg :=
  C07_fresh_pred prg inputs ops

end NgoVerif
