import NgoVerif.Model.Options
/-!
# C19 — the command line is the API: option algebra over the *generated* tables

`ALL_OPTIONS`, `DEFAULT_OPTIONS`, `ENABLE_KEYWORDS`, `MAIN_WIRING`, `API_DEFAULTS` are re-extracted from
`parser.py`, `__main__.py`, `api.py` on every run, so these theorems are re-checked against what the code says now.
-/
namespace NgoVerif
open Tables

theorem mem_insertStr (x s : String) : ∀ l : List String, x ∈ insertStr s l ↔ x = s ∨ x ∈ l
  | [] => by simp [insertStr]
  | t :: ts => by
    unfold insertStr
    by_cases h : s ≤ t
    · simp [h]
    · simp only [h, if_false, List.mem_cons, mem_insertStr x s ts]
      constructor
      · rintro (h | h | h)
        · exact Or.inr (Or.inl h)
        · exact Or.inl h
        · exact Or.inr (Or.inr h)
      · rintro (h | h | h)
        · exact Or.inr (Or.inl h)
        · exact Or.inl h
        · exact Or.inr (Or.inr h)

theorem mem_sortStrs (x : String) : ∀ l : List String, x ∈ sortStrs l ↔ x ∈ l
  | [] => by simp [sortStrs]
  | s :: ss => by
    have ih := mem_sortStrs x ss
    simp only [sortStrs, List.foldr_cons] at ih ⊢
    rw [mem_insertStr, ih]; simp

/-- table facts, checked by evaluation of the generated tables -/
theorem C19_tables :
    ALL_OPTIONS.length = 9 ∧ ALL_OPTIONS.Nodup ∧
    (∀ t ∈ DEFAULT_OPTIONS, t ∈ ALL_OPTIONS) ∧
    (∀ t ∈ ALL_OPTIONS, t ∈ DEFAULT_OPTIONS ↔ t ≠ "duplication") ∧
    (∀ t ∈ ALL_OPTIONS, t ∉ ENABLE_KEYWORDS) ∧
    ENABLE_KEYWORDS = ["all", "none", "default"] := by
  decide

/-- wiring: every keyword of `optimize` receives the membership test of its own name, each trait exactly once -/
theorem C19_wiring :
    (∀ p ∈ MAIN_WIRING, p.1 = p.2) ∧
    (MAIN_WIRING.map (·.1)).Nodup ∧
    (∀ t, t ∈ MAIN_WIRING.map (·.1) ↔ t ∈ ALL_OPTIONS) ∧
    (∀ t, t ∈ API_DEFAULTS.map (·.1) ↔ t ∈ ALL_OPTIONS) := by
  refine ⟨by decide, by decide, ?_, ?_⟩
  · intro t; constructor <;> intro h
    · have : ∀ u ∈ MAIN_WIRING.map (·.1), u ∈ ALL_OPTIONS := by decide
      exact this t h
    · have : ∀ u ∈ ALL_OPTIONS, u ∈ MAIN_WIRING.map (·.1) := by decide
      exact this t h
  · intro t; constructor <;> intro h
    · have : ∀ u ∈ API_DEFAULTS.map (·.1), u ∈ ALL_OPTIONS := by decide
      exact this t h
    · have : ∀ u ∈ ALL_OPTIONS, u ∈ API_DEFAULTS.map (·.1) := by decide
      exact this t h

/-- the API's own defaults are the documented `default` selection -/
theorem C19_api_defaults : ∀ p ∈ API_DEFAULTS, p.2 = DEFAULT_OPTIONS.contains p.1 := by decide

/-- Expansion: for *every* accepted `--enable` list (any length, repetitions allowed) each trait is enabled exactly
when the documented meaning says so: `all` ↦ all nine, `default` ↦ all but duplication, names ↦ themselves,
`default` plus names ↦ union, `none` ↦ nothing. -/
theorem C19_enable (vs en : List String) (h : expandEnable vs = some en) :
    ∀ t ∈ ALL_OPTIONS, en.contains t = specFlag vs t := by
  intro t ht
  have htk : t ∉ ENABLE_KEYWORDS := C19_tables.2.2.2.2.1 t ht
  have hk : ENABLE_KEYWORDS = ["all", "none", "default"] := C19_tables.2.2.2.2.2
  have hne : t ≠ "all" ∧ t ≠ "none" ∧ t ≠ "default" := by
    rw [hk] at htk; simp at htk; exact ⟨htk.1, htk.2.1, htk.2.2⟩
  have hall : "default" ∉ ALL_OPTIONS ∧ "none" ∉ ALL_OPTIONS := by decide
  unfold expandEnable at h
  split at h
  · cases h
  · split at h
    · cases h
    · split at h
      · cases h
      · rename_i hnone
        have hnone' : ¬ (vs.length > 1 ∧ "none" ∈ vs) := by simpa using hnone
        injection h with h
        subst h
        unfold specFlag
        by_cases hA : vs.contains "all" = true
        · -- all: values = ALL_OPTIONS, no "default" inside
          have hnd : ALL_OPTIONS.contains "default" = false := by decide
          have hnn : vs.contains "none" = false := by
            cases hc : vs.contains "none" with
            | false => rfl
            | true =>
              exfalso
              have h1 : "none" ∈ vs := by simpa using hc
              have h2 : "all" ∈ vs := by simpa using hA
              apply hnone'
              refine ⟨?_, h1⟩
              match vs, h1, h2 with
              | [], h1, _ => simp at h1
              | [x], h1, h2 =>
                simp at h1 h2; rw [← h1] at h2; exact absurd h2 (by decide)
              | _ :: _ :: _, _, _ => simp
          simp only [hA, if_true, hnd, Bool.false_eq_true, if_false, hnn, Bool.not_false, Bool.true_and,
            Bool.true_or]
          simpa using ht
        · have hA' : vs.contains "all" = false := by simpa using hA
          simp only [hA', Bool.false_eq_true, if_false, Bool.false_or]
          by_cases hD : vs.contains "default" = true
          · have hnn : vs.contains "none" = false := by
              cases hc : vs.contains "none" with
              | false => rfl
              | true =>
                exfalso
                have h1 : "none" ∈ vs := by simpa using hc
                have h2 : "default" ∈ vs := by simpa using hD
                apply hnone'
                refine ⟨?_, h1⟩
                match vs, h1, h2 with
                | [], h1, _ => simp at h1
                | [x], h1, h2 =>
                  simp at h1 h2; rw [← h1] at h2; exact absurd h2 (by decide)
                | _ :: _ :: _, _, _ => simp
            simp only [hD, if_true, hnn, Bool.not_false, Bool.true_and]
            rw [Bool.eq_iff_iff]
            simp only [List.contains_iff_mem, mem_sortStrs, List.mem_append, List.mem_filter, Bool.or_eq_true,
              Bool.and_eq_true, bne_iff_ne, ne_eq]
            constructor
            · rintro (⟨h1, _⟩ | h1)
              · exact Or.inl h1
              · exact Or.inr h1
            · rintro (h1 | h1)
              · exact Or.inl ⟨h1, hne.2.2⟩
              · exact Or.inr h1
          · have hD' : vs.contains "default" = false := by simpa using hD
            simp only [hD', Bool.false_eq_true, if_false, Bool.false_and, Bool.or_false]
            cases hc : vs.contains "none" with
            | false => simp
            | true =>
              -- vs = ["none"]
              have h1 : "none" ∈ vs := by simpa using hc
              have hlen : ¬ vs.length > 1 := fun hl => hnone' ⟨hl, h1⟩
              match vs, h1, hlen with
              | [x], h1, _ =>
                simp at h1; subst h1
                simp only [Bool.not_true, Bool.false_and]
                simpa using hne.2.1
              | _ :: _ :: _, _, hlen => simp at hlen

/-- Rejection: exactly the empty list, a value outside the choices, or `none` combined with anything else. -/
theorem C19_reject (vs : List String) :
    expandEnable vs = none ↔
      vs = [] ∨ (∃ v ∈ vs, v ∉ ENABLE_KEYWORDS ++ ALL_OPTIONS) ∨ (vs.length > 1 ∧ "none" ∈ vs) := by
  unfold expandEnable
  by_cases h1 : vs.isEmpty = true
  · simp [h1, List.isEmpty_iff.mp h1]
  · have hne : vs ≠ [] := by simpa [List.isEmpty_iff] using h1
    simp only [h1, Bool.false_eq_true, if_false]
    by_cases h2 : (vs.all fun v => (ENABLE_KEYWORDS ++ ALL_OPTIONS).contains v) = true
    · have h2' : ∀ v ∈ vs, v ∈ ENABLE_KEYWORDS ++ ALL_OPTIONS := by simpa using h2
      simp only [h2, Bool.not_true, Bool.false_eq_true, if_false]
      by_cases h3 : (decide (vs.length > 1) && vs.contains "none") = true
      · simp only [h3, if_true, true_iff]
        right; right; simpa using h3
      · simp only [h3, Bool.false_eq_true, if_false]
        simp only [reduceCtorEq, false_iff, not_or, not_exists, not_and, Decidable.not_not]
        refine ⟨hne, h2', ?_⟩
        intro hl hn
        exact h3 (by simpa using ⟨hl, hn⟩)
    · simp only [h2, Bool.not_false, if_true, true_iff]
      right; left
      have : ¬ ∀ v ∈ vs, v ∈ ENABLE_KEYWORDS ++ ALL_OPTIONS := by simpa using h2
      simpa using this

/-- keyword flags are the membership tests of the expanded list (definition of `flagsOf` + wiring) -/
theorem C19_flags (en : List String) : ∀ p ∈ flagsOf en, p.2 = en.contains p.1 := by
  intro p hp
  simp only [flagsOf, List.mem_map] at hp
  obtain ⟨⟨kw, name⟩, hw, rfl⟩ := hp
  have := C19_wiring.1 (kw, name) hw
  simp only at this
  subst this
  rfl

/-- predicate lists: the three special cases and rejection of malformed entries -/
theorem C19_predlist_special :
    predicateList none = .preds [] ∧ predicateList (some "") = .preds [] ∧ predicateList (some "auto") = .auto := by
  refine ⟨rfl, by decide, by decide⟩

/-- non-vacuity -/
example : expandEnable ["default", "duplication"] = some (sortStrs (["duplication"] ++ DEFAULT_OPTIONS)) := by decide
example : specFlag ["default", "duplication"] "duplication" = true ∧ specFlag ["default"] "duplication" = false := by
  decide

end NgoVerif
