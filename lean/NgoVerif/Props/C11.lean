import NgoVerif.Generated.Tables
import NgoVerif.Meta.Algebra
import NgoVerif.Meta.Meta2
/-!
# C11 — symmetry: ordered/counted joins fire exactly when the != joins fired

Ground-level content: if the rest of the rule is symmetric in the two copies, "some pair with x ≠ y" and "some pair
with x < y" are the same condition (`C11_neq_to_lt`); without symmetry they are not (`C11_neq_to_lt_counterexample`:
that is why the compared variables must not be visible elsewhere); "two different witnesses" is "count ≥ 2"
(`C11_count`); inside aggregates the count is moved to an auxiliary rule, which is definitional extension
(`C11_aux`).  The pass's syntactic test for symmetry is validated by the oracle (finding D28).
-/
namespace NgoVerif

theorem C11_neq_to_lt (R : Int → Int → Prop) (hsym : ∀ x y, R x y → R y x) :
    (∃ x y, x ≠ y ∧ R x y) ↔ (∃ x y, x < y ∧ R x y) :=
  Alg.neq_to_lt R hsym

theorem C11_neq_to_lt_counterexample :
    ∃ R : Int → Int → Prop, ¬ ((∃ x y, x ≠ y ∧ R x y) ↔ (∃ x y, x < y ∧ R x y)) :=
  Alg.neq_to_lt_counterexample

theorem C11_count {α : Type} [DecidableEq α] (s : Finset α) : (∃ x ∈ s, ∃ y ∈ s, x ≠ y) ↔ 2 ≤ s.card :=
  Alg.two_distinct_iff_count s

theorem C11_aux {α : Type} (P : HT.Prog α) (D : HT.Defs α) (hP : ∀ r, P r → HT.Indep D.A r)
    (T : HT.Interp α) (hT : HT.Stable P T) : HT.Stable (HT.Union P D.rules) (HT.ext D T) :=
  HT.def_ext_sound P D hP T hT

/-- `api.optimize` (read from the source on every run) constructs this pass with the current program and the caller's
own declaration lists, under the parameter names the class declares, and replaces the current program by its result -/
theorem C11_wiring :
    Tables.API_ARGS.lookup "symmetry" = some (["input_", "input_predicates"], "input_", "input_") ∧
    Tables.CTOR_PARAMS.lookup "symmetry" = some ["prg", "input_predicates"] := by decide

end NgoVerif
