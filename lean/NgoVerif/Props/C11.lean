import NgoVerif.Proofs.C11sem
import NgoVerif.Sem.Head
import NgoVerif.Generated.Tables
import NgoVerif.Meta.Algebra
import NgoVerif.Meta.Meta2
/-!
# C11 — symmetry: ordered/counted joins fire exactly when the != joins fired

Ground-level content: if the rest of the rule is symmetric in the two copies, "some pair with x ≠ y" and "some pair
with x < y" are the same condition (`C11_neq_to_lt`); without symmetry they are not (`C11_neq_to_lt_counterexample`:
that is why the compared variables must not be visible elsewhere); "two different witnesses" is "count ≥ 2"
(`C11_count`); inside aggregates the count is moved to an auxiliary rule, which is definitional extension
(`C11_aux`).  The pass's syntactic test for symmetry is validated by the oracle (finding D28).
-/
namespace NgoVerif

theorem C11_neq_to_lt (R : Int → Int → Prop) (hsym : ∀ x y, R x y → R y x) :
    (∃ x y, x ≠ y ∧ R x y) ↔ (∃ x y, x < y ∧ R x y) :=
  Alg.neq_to_lt R hsym

theorem C11_neq_to_lt_counterexample :
    ∃ R : Int → Int → Prop, ¬ ((∃ x y, x ≠ y ∧ R x y) ↔ (∃ x y, x < y ∧ R x y)) :=
  Alg.neq_to_lt_counterexample

theorem C11_count {α : Type} [DecidableEq α] (s : Finset α) : (∃ x ∈ s, ∃ y ∈ s, x ≠ y) ↔ 2 ≤ s.card :=
  Alg.two_distinct_iff_count s

theorem C11_aux {α : Type} (P : HT.Prog α) (D : HT.Defs α) (hP : ∀ r, P r → HT.Indep D.A r)
    (T : HT.Interp α) (hT : HT.Stable P T) : HT.Stable (HT.Union P D.rules) (HT.ext D T) :=
  HT.def_ext_sound P D hP T hT

/-- `api.optimize` (read from the source on every run) constructs this pass with the current program and the caller's
own declaration lists, under the parameter names the class declares, and replaces the current program by its result -/
theorem C11_wiring :
    Tables.API_ARGS.lookup "symmetry" = some (["input_", "input_predicates"], "input_", "input_") ∧
    Tables.CTOR_PARAMS.lookup "symmetry" = some ["prg", "input_predicates"] := by decide

/-! ## end to end for typed programs: `X != Y` ⟶ `X < Y` from a syntactic symmetry condition -/
open Proofs.C11sem in
/-- **the `<` rewrite of `symmetry` is a strong equivalence** whenever the rest of the rule is symmetric in the two
compared variables (`Proofs/C11sem.lean`; renaming lemma in `Sem/Rename.lean`): same here-and-there models, hence the
same stable models whatever statements (in particular: whatever facts) are added -/
theorem C11_neq_to_lt_strongeq (P : Sem.PParams) (pre post : Prog) (l c : Nat) (X Y : String) (h : Head) (b : List BLit)
    (hs : Symmetric P X Y h b) :
    Sem.StrongEq P (pre ++ .rule l c h (b ++ [cmpBLit X .ne Y]) :: post)
      (pre ++ .rule l c h (b ++ [cmpBLit X .lt Y]) :: post) :=
  neq_to_lt_strongEq P pre post l c X Y h b hs

open Proofs.C11sem in
theorem C11_neq_to_lt_stable (P : Sem.PParams) (pre post : Prog) (l c : Nat) (X Y : String) (h : Head) (b : List BLit)
    (hs : Symmetric P X Y h b) (T : Sem.Interp) :
    Sem.Stable P (pre ++ .rule l c h (b ++ [cmpBLit X .ne Y]) :: post) T ↔
      Sem.Stable P (pre ++ .rule l c h (b ++ [cmpBLit X .lt Y]) :: post) T :=
  (neq_to_lt_strongEq P pre post l c X Y h b hs).stable P T

open Proofs.C11sem in
/-- under the standard head semantics the head condition of `Symmetric` holds as soon as the head mentions neither variable -/
theorem C11_head_condition (P : Sem.Params) (X Y : String) (h : Head) (hX : X ∉ h.vars) (hY : Y ∉ h.vars)
    (G : String → Prop) (e : Sem.Env) (H T : Sem.Interp) :
    (Sem.stdParams P).headSat G (fun v => e (swap X Y v)) H T h ↔ (Sem.stdParams P).headSat G e H T h := by
  rw [Sem.stdParams_headSat]
  apply Sem.stdHeadSat_congr
  intro v hv
  have h1 : v ≠ X := fun hh => hX (hh ▸ hv)
  have h2 : v ≠ Y := fun hh => hY (hh ▸ hv)
  simp [swap, h1, h2]

/-! non-vacuity: `f :- p(A,S), p(B,S), A != B.` satisfies the symmetry condition -/
section Example
open Proofs.C11sem Sem
private def pA : BLit := .lit (.pos, .sym (.fn "p" [.var "A", .var "S"] false))
private def pB : BLit := .lit (.pos, .sym (.fn "p" [.var "B", .var "S"] false))
example : ∀ l, l ∈ renameBody (swap "A" "B") [pA, pB] ↔ l ∈ [pA, pB] := by
  intro l
  simp [renameBody, renameBLit, renameLit, renameAtom, renameTerm, renameTerms, swap, pA, pB, or_comm]
example (P : PParams) (hg : P.headGlobals (.lit (.pos, .sym (.fn "f" [] false))) = []) :
    ∀ v, v ∈ ruleGlobals P (.lit (.pos, .sym (.fn "f" [] false))) ([pA, pB] ++ [cmpBLit "A" .ne "B"]) ↔
      swap "A" "B" v ∈ ruleGlobals P (.lit (.pos, .sym (.fn "f" [] false))) ([pA, pB] ++ [cmpBLit "A" .ne "B"]) := by
  intro v
  simp only [ruleGlobals, hg, bodyGlobals, pA, pB, cmpBLit, blitGlobals, litVars, litTerms, Atom.terms, Term.vars,
    List.nil_append, List.cons_append, List.flatMap_cons, List.flatMap_nil, List.append_nil, List.mem_cons, List.not_mem_nil,
    or_false, swap]
  by_cases h1 : v = "A" <;> by_cases h2 : v = "B" <;> by_cases h3 : v = "S" <;> simp_all
end Example

end NgoVerif
