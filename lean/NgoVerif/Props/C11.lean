import NgoVerif.Proofs.C11check
import NgoVerif.Sem.Head
import NgoVerif.Generated.Tables
import NgoVerif.Meta.Algebra
import NgoVerif.Meta.Meta2
/-!
# C11 — symmetry: ordered/counted joins fire exactly when the != joins fired

Ground-level content: if the rest of the rule is symmetric in the two copies, "some pair with x ≠ y" and "some pair
with x < y" are the same condition (`C11_neq_to_lt`); without symmetry they are not (`C11_neq_to_lt_counterexample`:
that is why the compared variables must not be visible elsewhere); "two different witnesses" is "count ≥ 2"
(`C11_count`); inside aggregates the count is moved to an auxiliary rule, which is definitional extension
(`C11_aux`).  The pass's syntactic test for symmetry is validated by the oracle (finding D28).
-/
namespace NgoVerif

theorem C11_neq_to_lt (R : Int → Int → Prop) (hsym : ∀ x y, R x y → R y x) :
    (∃ x y, x ≠ y ∧ R x y) ↔ (∃ x y, x < y ∧ R x y) :=
  Alg.neq_to_lt R hsym

theorem C11_neq_to_lt_counterexample :
    ∃ R : Int → Int → Prop, ¬ ((∃ x y, x ≠ y ∧ R x y) ↔ (∃ x y, x < y ∧ R x y)) :=
  Alg.neq_to_lt_counterexample

theorem C11_count {α : Type} [DecidableEq α] (s : Finset α) : (∃ x ∈ s, ∃ y ∈ s, x ≠ y) ↔ 2 ≤ s.card :=
  Alg.two_distinct_iff_count s

theorem C11_aux {α : Type} (P : HT.Prog α) (D : HT.Defs α) (hP : ∀ r, P r → HT.Indep D.A r)
    (T : HT.Interp α) (hT : HT.Stable P T) : HT.Stable (HT.Union P D.rules) (HT.ext D T) :=
  HT.def_ext_sound P D hP T hT

/-- `api.optimize` (read from the source on every run) constructs this pass with the current program and the caller's
own declaration lists, under the parameter names the class declares, and replaces the current program by its result -/
theorem C11_wiring :
    Tables.API_ARGS.lookup "symmetry" = some (["input_", "input_predicates"], "input_", "input_") ∧
    Tables.CTOR_PARAMS.lookup "symmetry" = some ["prg", "input_predicates"] := by decide

/-! ## end to end for typed programs: `X != Y` ⟶ `X < Y` from a syntactic symmetry condition -/
open Proofs.C11sem in
/-- **the `<` rewrite of `symmetry` is a strong equivalence** whenever the rest of the rule is symmetric in the two
compared variables (`Proofs/C11sem.lean`; renaming lemma in `Sem/Rename.lean`): same here-and-there models, hence the
same stable models whatever statements (in particular: whatever facts) are added -/
theorem C11_neq_to_lt_strongeq (P : Sem.PParams) (σ : String → String) (pre post : Prog) (l c : Nat) (X Y : String)
    (h : Head) (b : List BLit) (hs : Symmetric P σ X Y h b) :
    Sem.StrongEq P (pre ++ .rule l c h (b ++ [cmpBLit X .ne Y]) :: post)
      (pre ++ .rule l c h (b ++ [cmpBLit X .lt Y]) :: post) :=
  neq_to_lt_strongEq P σ pre post l c X Y h b hs

open Proofs.C11sem in
theorem C11_neq_to_lt_stable (P : Sem.PParams) (σ : String → String) (pre post : Prog) (l c : Nat) (X Y : String)
    (h : Head) (b : List BLit) (hs : Symmetric P σ X Y h b) (T : Sem.Interp) :
    Sem.Stable P (pre ++ .rule l c h (b ++ [cmpBLit X .ne Y]) :: post) T ↔
      Sem.Stable P (pre ++ .rule l c h (b ++ [cmpBLit X .lt Y]) :: post) T :=
  (neq_to_lt_strongEq P σ pre post l c X Y h b hs).stable P T

open Proofs.C11sem in
/-- under the standard head semantics the head condition of `Symmetric` holds as soon as `σ` fixes the variables of
the head -/
theorem C11_head_condition (P : Sem.Params) (σ : String → String) (h : Head) (hfix : ∀ v ∈ h.vars, σ v = v)
    (G : String → Prop) (e : Sem.Env) (H T : Sem.Interp) :
    (Sem.stdParams P).headSat G (fun v => e (σ v)) H T h ↔ (Sem.stdParams P).headSat G e H T h := by
  rw [Sem.stdParams_headSat]
  apply Sem.stdHeadSat_congr
  intro v hv
  simp [hfix v hv]

open Proofs.C11sem Proofs.C11check in
/-- **the executable check run on the real rewrites implies the strong equivalence** (`Proofs/C11check.lean`): whenever
the driver answers `true` for a rule in which the real `symmetry` pass replaced `X != Y` by `X < Y`, the two rules are
strongly equivalent - for every parameter choice whose `!=` is `<` or `>` -/
theorem C11_check_strongeq (P : Sem.Params) (htotal : ∀ x y, P.rel .ne x y ↔ (P.rel .lt x y ∨ P.rel .lt y x))
    (ps : List (String × String)) (pre post : Prog) (l c : Nat) (X Y : String) (h : Head) (b : List BLit)
    (hc : symCheck ps X Y h b = true) :
    Sem.StrongEq (Sem.stdParams P) (pre ++ .rule l c h (b ++ [cmpBLit X .ne Y]) :: post)
      (pre ++ .rule l c h (b ++ [cmpBLit X .lt Y]) :: post) :=
  symCheck_strongEq P htotal ps pre post l c X Y h b hc

/-! non-vacuity: `f :- p(A,S), p(B,S), A != B.` satisfies the symmetry condition with the plain swap, and
`f :- p(A), p(B), q(A,V), q(B,W), V != W, A != B.` with the double swap `A↔B, V↔W` -/
section Example
open Proofs.C11sem Sem
private def pA : BLit := .lit (.pos, .sym (.fn "p" [.var "A", .var "S"] false))
private def pB : BLit := .lit (.pos, .sym (.fn "p" [.var "B", .var "S"] false))
example : ∀ l ∈ [pA, pB], renameBLit (swap "A" "B") l ∈ [pA, pB] ∨
    ∃ U V, renameBLit (swap "A" "B") l = cmpBLit U .ne V ∧ cmpBLit V .ne U ∈ [pA, pB] := by
  intro l hl
  left
  simp only [List.mem_cons, List.not_mem_nil, or_false] at hl
  rcases hl with rfl | rfl <;>
    simp [renameBLit, renameLit, renameAtom, renameTerm, renameTerms, swap, pA, pB]
private def sw2 : String → String := fun v =>
  if v = "A" then "B" else if v = "B" then "A" else if v = "V" then "W" else if v = "W" then "V" else v
private def qAV : BLit := .lit (.pos, .sym (.fn "q" [.var "A", .var "V"] false))
private def qBW : BLit := .lit (.pos, .sym (.fn "q" [.var "B", .var "W"] false))
example : ∀ l ∈ [qAV, qBW, cmpBLit "V" .ne "W"], renameBLit sw2 l ∈ [qAV, qBW, cmpBLit "V" .ne "W"] ∨
    ∃ U V, renameBLit sw2 l = cmpBLit U .ne V ∧ cmpBLit V .ne U ∈ [qAV, qBW, cmpBLit "V" .ne "W"] := by
  intro l hl
  simp only [List.mem_cons, List.not_mem_nil, or_false] at hl
  rcases hl with rfl | rfl | rfl
  · left; simp [renameBLit, renameLit, renameAtom, renameTerm, renameTerms, sw2, qAV, qBW]
  · left; simp [renameBLit, renameLit, renameAtom, renameTerm, renameTerms, sw2, qAV, qBW]
  · right; exact ⟨"W", "V", by simp [renameBLit, renameLit, renameAtom, renameTerm, renameGuards, renameGuard, sw2, cmpBLit], by simp⟩
end Example

/-! non-vacuity of the executable check: `f :- p(A,S), p(B,S), A != B.` with the swap `A↔B` passes `symCheck` -/
namespace C11ex
open Proofs.C11check Proofs.C11sem Sem
def atomL (n : String) (vs : List String) : BLit := .lit (.pos, .sym (.fn n (vs.map Term.var) false))
set_option maxRecDepth 4000 in
theorem check : symCheck [("A", "B")] "A" "B" (.lit (.pos, .sym (.fn "f" [] false)))
    [atomL "p" ["A", "S"], atomL "p" ["B", "S"]] = true := by
  simp [symCheck, involOk, members, swaps, symBody, symGlobals, symHead, globalsList, atomL, renameBLit, renameLit,
    renameAtom, renameTerm, renameTerms, flipNe, blitMem, blitEqb, litEqb, atomEqb, termsEqb, termEqb, stdHeadGlobals,
    bodyGlobals, blitGlobals, litVars, litTerms, Atom.terms, Term.vars, Head.vars, Head.terms, cmpBLit]
example (P : Params) (htotal : ∀ x y, P.rel .ne x y ↔ (P.rel .lt x y ∨ P.rel .lt y x)) (pre post : Prog) :
    StrongEq (stdParams P)
      (pre ++ .rule 1 1 (.lit (.pos, .sym (.fn "f" [] false))) ([atomL "p" ["A", "S"], atomL "p" ["B", "S"]] ++ [cmpBLit "A" .ne "B"]) :: post)
      (pre ++ .rule 1 1 (.lit (.pos, .sym (.fn "f" [] false))) ([atomL "p" ["A", "S"], atomL "p" ["B", "S"]] ++ [cmpBLit "A" .lt "B"]) :: post) :=
  C11_check_strongeq P htotal [("A", "B")] pre post 1 1 "A" "B" _ _ check
end C11ex

end NgoVerif
