import NgoVerif.Generated.Tables
import NgoVerif.Meta.Algebra
import NgoVerif.Props.C05
import NgoVerif.Proofs.C14poly
/-!
# C14 — math: simplified comparisons and aggregates are exact over the integers

What is provable without sympy: a variable with coefficient `a` can be eliminated exactly when `a` divides the rest
(`C14_eliminate`), always for `a = ±1` (`C14_eliminate_unit`), not in general (`C14_eliminate_counterexample` = D5:
`X = Y*3` dropped); relations are moved across a guard with `rhs2lhs`/`negate` (`C05_rhs2lhs_table`,
`C05_negate_table`); merging aggregates is sum-of-sums with `__agg(i)` tags keeping tuples distinct (`C14_merge`).
The polynomial normal form the model hands to sympy and reads back from it is exact (`C14_poly_ops_exact`,
`C14_tree_read_exact`, `C14_equality_as_zero`: `Proofs/C14poly.lean`, for every integer assignment of the symbols).
Nothing is proved about what sympy's `groebner`/`solve` return: they are external parameters; exactness of the whole
pass is validated by the oracle with integers of both signs and 0.
-/
namespace NgoVerif

theorem C14_eliminate (a t : Int) : (∃ v : Int, a * v + t = 0) ↔ a ∣ t := Alg.eliminate_iff_dvd a t

theorem C14_eliminate_unit (t : Int) : (∃ v : Int, 1 * v + t = 0) ∧ (∃ v : Int, (-1) * v + t = 0) :=
  Alg.eliminate_unit t

theorem C14_eliminate_counterexample : ¬ ∃ y : Int, (4 : Int) = y * 3 := Alg.eliminate_counterexample

theorem C14_merge {G T : Type} [DecidableEq T] (groups : Finset G) (elems : G → Finset T) (w : T → Int)
    (hdisj : ∀ g ∈ groups, ∀ g' ∈ groups, g ≠ g' → Disjoint (elems g) (elems g')) :
    ∑ t ∈ groups.biUnion elems, w t = ∑ g ∈ groups, ∑ t ∈ elems g, w t :=
  Alg.sum_flatten groups elems w hdisj


open MathSimp in
/-- **the polynomial arithmetic of the model (`Model/MathSimpPoly.lean`, the mirror of `sympy.expand`) is exact**: under
every integer assignment of the symbols, the value of the computed normal form is the sum / difference / product /
power / negation of the values; constants and symbols denote themselves.  No assumption on the lists (sortedness,
non-zero coefficients). -/
theorem C14_poly_ops_exact (ρ : Asg) (p q : Poly) (n : Nat) (c : Int) (s : String) :
    evalPoly ρ (p.add q) = evalPoly ρ p + evalPoly ρ q ∧ evalPoly ρ (p.sub q) = evalPoly ρ p - evalPoly ρ q ∧
    evalPoly ρ (p.mul q) = evalPoly ρ p * evalPoly ρ q ∧ evalPoly ρ (p.pow n) = evalPoly ρ p ^ n ∧
    evalPoly ρ p.neg = - evalPoly ρ p ∧ evalPoly ρ (Poly.const c) = c ∧ evalPoly ρ (Poly.sym s) = ρ s :=
  ⟨evalPoly_add ρ p q, evalPoly_sub ρ p q, evalPoly_mul ρ p q, evalPoly_pow ρ p n, evalPoly_neg ρ p, evalPoly_const ρ c,
    evalPoly_sym ρ s⟩

open MathSimp in
/-- **reading a sympy expression tree back as a polynomial is exact**: whenever `toPoly?` answers, the tree has an
integer value under every assignment and it is the value of the polynomial -/
theorem C14_tree_read_exact (ρ : Asg) (t : Tree) (p : Poly) (h : t.toPoly? = some p) :
    Tree.eval? ρ t = some (evalPoly ρ p) :=
  Tree.toPoly?_exact ρ t p h

open MathSimp in
/-- `_to_equality` for `=`: the comparison `lhs = rhs` holds iff the polynomial `rhs - lhs` the pass hands to sympy vanishes -/
theorem C14_equality_as_zero (ρ : Asg) (lhs rhs : Poly) :
    evalPoly ρ (rhs.sub lhs) = 0 ↔ evalPoly ρ lhs = evalPoly ρ rhs := by
  rw [evalPoly_sub]
  constructor
  · intro h; omega
  · intro h; omega

open MathSimp in
/-- `_to_equality` for the other operators: with the dummy symbol `aux` standing for the difference, `lhs - rhs - aux = 0`
pins `aux` to `lhs - rhs`; the recorded relation `aux op 0` is then the relation between the two sides -/
theorem C14_relation_as_zero (ρ : Asg) (lhs rhs : Poly) (aux : String) :
    evalPoly ρ ((lhs.sub rhs).sub (Poly.sym aux)) = 0 ↔ ρ aux = evalPoly ρ lhs - evalPoly ρ rhs := by
  rw [evalPoly_sub, evalPoly_sub, evalPoly_sym]
  constructor
  · intro h; omega
  · intro h; omega

open MathSimp in
/-- non-vacuity: `(X+1)*(X-1)` evaluates to `X^2 - 1` through the model's operations, for every value of `X` -/
example (ρ : Asg) :
    evalPoly ρ (((Poly.sym "X").add (Poly.const 1)).mul ((Poly.sym "X").sub (Poly.const 1))) = ρ "X" ^ 2 - 1 := by
  simp only [evalPoly_mul, evalPoly_add, evalPoly_sub, evalPoly_sym, evalPoly_const]
  ring

open MathSimp in
example : (Tree.add [.mul [.int 2, .sym "X"], .pow (.sym "Y") (.int 2) true]).toPoly?.isSome = true := by decide

/-- `api.optimize` (read from the source on every run) constructs this pass with the current program and the caller's
own declaration lists, under the parameter names the class declares, and replaces the current program by its result -/
theorem C14_wiring :
    Tables.API_ARGS.lookup "math" = some (["input_"], "input_", "input_") ∧
    Tables.CTOR_PARAMS.lookup "math" = some ["prg"] := by decide

end NgoVerif
