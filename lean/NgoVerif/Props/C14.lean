import NgoVerif.Generated.Tables
import NgoVerif.Meta.Algebra
import NgoVerif.Props.C05
/-!
# C14 — math: simplified comparisons and aggregates are exact over the integers

What is provable without sympy: a variable with coefficient `a` can be eliminated exactly when `a` divides the rest
(`C14_eliminate`), always for `a = ±1` (`C14_eliminate_unit`), not in general (`C14_eliminate_counterexample` = D5:
`X = Y*3` dropped); relations are moved across a guard with `rhs2lhs`/`negate` (`C05_rhs2lhs_table`,
`C05_negate_table`); merging aggregates is sum-of-sums with `__agg(i)` tags keeping tuples distinct (`C14_merge`).
Nothing is proved about what sympy's `groebner`/`solve` return: they are external parameters; exactness of the whole
pass is validated by the oracle with integers of both signs and 0.
-/
namespace NgoVerif

theorem C14_eliminate (a t : Int) : (∃ v : Int, a * v + t = 0) ↔ a ∣ t := Alg.eliminate_iff_dvd a t

theorem C14_eliminate_unit (t : Int) : (∃ v : Int, 1 * v + t = 0) ∧ (∃ v : Int, (-1) * v + t = 0) :=
  Alg.eliminate_unit t

theorem C14_eliminate_counterexample : ¬ ∃ y : Int, (4 : Int) = y * 3 := Alg.eliminate_counterexample

theorem C14_merge {G T : Type} [DecidableEq T] (groups : Finset G) (elems : G → Finset T) (w : T → Int)
    (hdisj : ∀ g ∈ groups, ∀ g' ∈ groups, g ≠ g' → Disjoint (elems g) (elems g')) :
    ∑ t ∈ groups.biUnion elems, w t = ∑ g ∈ groups, ∑ t ∈ elems g, w t :=
  Alg.sum_flatten groups elems w hdisj

/-- `api.optimize` (read from the source on every run) constructs this pass with the current program and the caller's
own declaration lists, under the parameter names the class declares, and replaces the current program by its result -/
theorem C14_wiring :
    Tables.API_ARGS.lookup "math" = some (["input_"], "input_", "input_") ∧
    Tables.CTOR_PARAMS.lookup "math" = some ["prg"] := by decide

end NgoVerif
