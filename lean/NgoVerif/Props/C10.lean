import NgoVerif.Generated.Tables
import NgoVerif.Meta.Fold
import NgoVerif.Meta.Split
/-!
# C10 — duplication: a factored-out literal set means what the replaced literals meant

Replacing a set of literals `S` that occurs in several bodies by an auxiliary atom `aux(V̄)` defined by
`aux(V̄) :- S.` is an instance of definitional extension plus folding (M3, M3f): the auxiliary atom holds for exactly
the bindings for which all replaced literals hold, *provided* the definition's body does not mention the new atom,
is persistent, and the occurrence is literally the defining body under the same binding (every variable needed
outside is passed on).  These are the hypotheses of `C10_fold`; the pass decides them syntactically (binding
analysis, connectedness, canonical renaming) — modelled only through `Model/Binding.lean`, validated by the oracle.
-/
namespace NgoVerif

theorem C10_fold {α : Type} (P Pf : HT.Prog α) (D : HT.Defs α) (hP : ∀ r, P r → HT.Indep D.A r)
    (hpers : ∀ a H T, HT.Sub H T → D.dfn a H T → D.dfn a T T)
    (hF : HT.Folding D P Pf) (T' : HT.Interp α) :
    HT.Stable (HT.Union P D.rules) T' ↔ HT.Stable (HT.Union Pf D.rules) T' :=
  HT.fold_stable P Pf D hP hpers hF T'

theorem C10_aux_means_body {α : Type} (P : HT.Prog α) (D : HT.Defs α) (hP : ∀ r, P r → HT.Indep D.A r)
    (hpers : ∀ a H T, HT.Sub H T → D.dfn a H T → D.dfn a T T)
    (T' : HT.Interp α) (hT' : HT.Stable (HT.Union P D.rules) T') :
    ∃ T, HT.Stable P T ∧ ∀ a, T' a ↔ HT.ext D T a :=
  HT.def_ext_complete P D hP hpers T' hT'


/-- the factoring schema with its exact side condition: a literal set `N` shared by several rule schemas may be
replaced by `aux(t e)` when environments can be re-assembled across the interface `t` (every variable of `N` needed
outside is passed on).  One occurrence: -/
theorem C10_factor_sound {α E K : Type} (S : HT.SplitData α E K) (h : S.WF) (hg : S.Glue) (T : HT.Interp α)
    (hT : HT.Stable S.orig T) : HT.Stable (HT.Union S.folded (S.defs h).rules) (HT.ext (S.defs h) T) :=
  S.split_sound h hg T hT

theorem C10_factor_complete {α E K : Type} (S : HT.SplitData α E K) (h : S.WF) (hg : S.Glue) (T' : HT.Interp α)
    (hT' : HT.Stable (HT.Union S.folded (S.defs h).rules) T') :
    ∃ T, HT.Stable S.orig T ∧ ∀ a, T' a ↔ HT.ext (S.defs h) T a :=
  S.split_complete h hg T' hT'

/-- `api.optimize` (read from the source on every run) constructs this pass with the current program and the caller's
own declaration lists, under the parameter names the class declares, and replaces the current program by its result -/
theorem C10_wiring :
    Tables.API_ARGS.lookup "duplication" = some (["input_", "input_predicates"], "input_", "input_") ∧
    Tables.CTOR_PARAMS.lookup "duplication" = some ["prg", "input_predicates"] := by decide

end NgoVerif
