import NgoVerif.Proofs.C10multi
import NgoVerif.Generated.Tables
import NgoVerif.Meta.Fold
import NgoVerif.Meta.Split
/-!
# C10 — duplication: a factored-out literal set means what the replaced literals meant

Replacing a set of literals `S` that occurs in several bodies by an auxiliary atom `aux(V̄)` defined by
`aux(V̄) :- S.` is an instance of definitional extension plus folding (M3, M3f): the auxiliary atom holds for exactly
the bindings for which all replaced literals hold, *provided* the definition's body does not mention the new atom,
is persistent, and the occurrence is literally the defining body under the same binding (every variable needed
outside is passed on).  These are the hypotheses of `C10_fold`; the pass decides them syntactically (binding
analysis, connectedness, canonical renaming) — modelled only through `Model/Binding.lean`, validated by the oracle.
-/
namespace NgoVerif

theorem C10_fold {α : Type} (P Pf : HT.Prog α) (D : HT.Defs α) (hP : ∀ r, P r → HT.Indep D.A r)
    (hpers : ∀ a H T, HT.Sub H T → D.dfn a H T → D.dfn a T T)
    (hF : HT.Folding D P Pf) (T' : HT.Interp α) :
    HT.Stable (HT.Union P D.rules) T' ↔ HT.Stable (HT.Union Pf D.rules) T' :=
  HT.fold_stable P Pf D hP hpers hF T'

theorem C10_aux_means_body {α : Type} (P : HT.Prog α) (D : HT.Defs α) (hP : ∀ r, P r → HT.Indep D.A r)
    (hpers : ∀ a H T, HT.Sub H T → D.dfn a H T → D.dfn a T T)
    (T' : HT.Interp α) (hT' : HT.Stable (HT.Union P D.rules) T') :
    ∃ T, HT.Stable P T ∧ ∀ a, T' a ↔ HT.ext D T a :=
  HT.def_ext_complete P D hP hpers T' hT'


/-- the factoring schema with its exact side condition: a literal set `N` shared by several rule schemas may be
replaced by `aux(t e)` when environments can be re-assembled across the interface `t` (every variable of `N` needed
outside is passed on).  One occurrence: -/
theorem C10_factor_sound {α E K : Type} (S : HT.SplitData α E K) (h : S.WF) (hg : S.Glue) (T : HT.Interp α)
    (hT : HT.Stable S.orig T) : HT.Stable (HT.Union S.folded (S.defs h).rules) (HT.ext (S.defs h) T) :=
  S.split_sound h hg T hT

theorem C10_factor_complete {α E K : Type} (S : HT.SplitData α E K) (h : S.WF) (hg : S.Glue) (T' : HT.Interp α)
    (hT' : HT.Stable (HT.Union S.folded (S.defs h).rules) T') :
    ∃ T, HT.Stable S.orig T ∧ ∀ a, T' a ↔ HT.ext (S.defs h) T a :=
  S.split_complete h hg T' hT'

/-- `api.optimize` (read from the source on every run) constructs this pass with the current program and the caller's
own declaration lists, under the parameter names the class declares, and replaces the current program by its result -/
theorem C10_wiring :
    Tables.API_ARGS.lookup "duplication" = some (["input_", "input_predicates"], "input_", "input_") ∧
    Tables.CTOR_PARAMS.lookup "duplication" = some ["prg", "input_predicates"] := by decide

/-! ## end to end for typed programs (`Proofs/C10stm.lean`)

`u : Use` is one place of use: the rule `head :- body.`, the canonical auxiliary rule `aux(V̄) :- Sb.` the pass emits and
the renaming `σ` that turns it into the copy at that place.  `u.split.orig` is the rule before, `u.split.updRule` the
rule after (`head :- rest, aux(σ V̄).`), `u.canon` the auxiliary rule. -/
open Proofs.C10stm Proofs.C16stm in
/-- **first place of use**: factoring is a one-to-one conservative extension (soundness) -/
theorem C10_factor_first_sound (P : Sem.Params) (hp : Sem.AggPersistent P) (u : Use) (hinv : ∀ v, u.σ (u.σ v) = v)
    (hok : Ok u.split) (pre post : Prog) (hctx : CtxOk u.split pre post) (T : Sem.Interp)
    (hT : Sem.Stable (Sem.stdParams P) (pre ++ u.split.orig :: post) T) :
    Sem.Stable (Sem.stdParams P) (pre ++ u.canon :: u.split.updRule :: post)
      (Proofs.C16sem.extend (Sem.stdParams P) (fun v => v ∈ u.split.G0) u.split.syn T) :=
  factor_first_sound P hp u hinv hok pre post hctx T hT

open Proofs.C10stm Proofs.C16stm in
/-- … and completeness -/
theorem C10_factor_first_complete (P : Sem.Params) (hp : Sem.AggPersistent P) (u : Use) (hinv : ∀ v, u.σ (u.σ v) = v)
    (hok : Ok u.split) (pre post : Prog) (hctx : CtxOk u.split pre post) (T' : Sem.Interp)
    (hT' : Sem.Stable (Sem.stdParams P) (pre ++ u.canon :: u.split.updRule :: post) T') :
    ∃ T, Sem.Stable (Sem.stdParams P) (pre ++ u.split.orig :: post) T ∧
      ∀ a, T' a ↔ Proofs.C16sem.extend (Sem.stdParams P) (fun v => v ∈ u.split.G0) u.split.syn T a :=
  factor_first_complete P hp u hinv hok pre post hctx T' hT'

open Proofs.C10multi in
/-- **all places of use at once, soundness** (`Proofs/C10multi.lean`): `before c ps ctx` is the context followed by the
rules `headᵢ :- bodyᵢ.`, `after c ps ctx` the context, the auxiliary rule `aux(V̄) :- S.` and the rules
`headᵢ :- restᵢ, aux(σᵢ V̄).`; every answer set of the first extends, by exactly the auxiliary atoms whose literal set
holds at some place of use, to an answer set of the second -/
theorem C10_factor_all_sound (P : Sem.Params) (hpers : Sem.AggPersistent P) (c : Canon) (ps : List Place)
    (hne : 0 < ps.length) (hps : ∀ p ∈ ps, PlaceOk c p) (ctx : Prog) (hctx : CtxAvoids c ctx) (T : Sem.Interp)
    (hT : Sem.Stable (Sem.stdParams P) (before c ps ctx) T) :
    Sem.Stable (Sem.stdParams P) (after c ps ctx) (extendAll P c ps T) :=
  factor_all_sound P hpers c ps hne hps ctx hctx T hT

open Proofs.C10multi in
/-- **… and completeness**: every answer set of the rewritten program is such an extension: one-to-one -/
theorem C10_factor_all_complete (P : Sem.Params) (hpers : Sem.AggPersistent P) (c : Canon) (ps : List Place)
    (hne : 0 < ps.length) (hps : ∀ p ∈ ps, PlaceOk c p) (ctx : Prog) (hctx : CtxAvoids c ctx) (T' : Sem.Interp)
    (hT' : Sem.Stable (Sem.stdParams P) (after c ps ctx) T') :
    ∃ T, Sem.Stable (Sem.stdParams P) (before c ps ctx) T ∧ ∀ a, T' a ↔ extendAll P c ps T a :=
  factor_all_complete P hpers c ps hne hps ctx hctx T' hT'

open Proofs.C10multi in
/-- the executable checks the driver runs on what the real pass did imply the hypotheses; the order of the statements
of a program is immaterial (`stable_of_same_statements`) -/
theorem C10_all_check_sound (c : Canon) (line col : Nat) (head : Head) (body rest : List BLit)
    (pairs : List (String × String)) (ctx : Prog)
    (h1 : placeCheck c line col head body rest pairs = true) (h2 : ctxAvoidsCheck c ctx = true) :
    PlaceOk c (placeOf line col head body rest pairs) ∧ CtxAvoids c ctx :=
  ⟨placeCheck_sound c line col head body rest pairs h1, ctxAvoidsCheck_sound c ctx h2⟩

open Proofs.C10stm Proofs.C16stm in
/-- a single further place of use with the auxiliary rule present (superseded by `C10_factor_all_*`; kept because it needs
no other place of use in the statement): `_partial` - the context must not mention the auxiliary predicate -/
theorem C10_factor_next_partial (P : Sem.Params) (hp : Sem.AggPersistent P) (u : Use) (hinv : ∀ v, u.σ (u.σ v) = v)
    (hok : Ok u.split) (pre post : Prog) (hctx : CtxOk u.split pre post) (T : Sem.Interp) :
    Sem.Stable (Sem.stdParams P) (pre ++ u.canon :: u.split.orig :: post) T ↔
      Sem.Stable (Sem.stdParams P) (pre ++ u.canon :: u.split.updRule :: post) T :=
  factor_next P hp u hinv hok pre post hctx T

open Proofs.C10stm Proofs.C16stm in
/-- the executable check implies the hypotheses -/
theorem C10_check_sound (line col : Nat) (head : Head) (body rest : List BLit) (auxName : String) (V args : List String)
    (Sb : List BLit) (la ca : Nat) (pre post : Prog)
    (h : dupCheck (useOf line col head body rest auxName V args Sb la ca) (V.zip args) pre post = true) :
    (∀ v, (useOf line col head body rest auxName V args Sb la ca).σ ((useOf line col head body rest auxName V args Sb la ca).σ v) = v) ∧
      Ok (useOf line col head body rest auxName V args Sb la ca).split ∧
      CtxOk (useOf line col head body rest auxName V args Sb la ca).split pre post :=
  dupCheck_sound line col head body rest auxName V args Sb la ca pre post h

/-! non-vacuity of the executable checks: `__aux_1(V1,V2) :- p(V1,V2), q(V2).` used in `h(A) :- p(A,B), q(B), r(A,B).`
as `h(A) :- r(A,B), __aux_1(A,B).` next to another rule passes them, so `C10_factor_all_sound/complete` apply -/
namespace C10ex
open Proofs.C10multi Proofs.C10stm Proofs.C16stm Proofs.C11check Sem
def atomL (n : String) (vs : List String) : BLit := .lit (.pos, .sym (.fn n (vs.map Term.var) false))
def headL (n : String) (vs : List String) : Head := .lit (.pos, .sym (.fn n (vs.map Term.var) false))
def c : Canon := { auxName := "__aux_1", V := ["V1", "V2"], Sb := [atomL "p" ["V1", "V2"], atomL "q" ["V2"]], la := 1, ca := 1 }
def pl : Place := placeOf 2 1 (headL "h" ["A"]) [atomL "p" ["A", "B"], atomL "q" ["B"], atomL "r" ["A", "B"]] [atomL "r" ["A", "B"]]
  [("V1", "A"), ("V2", "B")]
def ctx : Prog := [.rule 3 1 (headL "g" ["A"]) [atomL "r" ["A", "A"]]]
set_option maxRecDepth 8000 in
theorem check : placeCheck c 2 1 (headL "h" ["A"]) [atomL "p" ["A", "B"], atomL "q" ["B"], atomL "r" ["A", "B"]] [atomL "r" ["A", "B"]]
    [("V1", "A"), ("V2", "B")] = true ∧ ctxAvoidsCheck c ctx = true := by
  simp [placeCheck, ctxAvoidsCheck, ctx, placeOf, c, Canon.split, Canon.use, Canon.G, Use.split, involOk, members, swaps, atomL, headL,
    splitCheck, Split.G0, Split.Ga, Split.Gu, Split.auxB, Proofs.C16sem.auxLit, Proofs.C16sem.auxAtomTerm, iffB, blitMem,
    blitEqb, litEqb, atomEqb, termsEqb, termEqb, bodyAvoids, blitAvoids, atomAvoids, headAvoids, nameSig, bodyScoped,
    blitScoped, atomScoped, stdHeadGlobals, bodyGlobals, blitGlobals, litVars, litTerms, Atom.terms, Term.vars, BLit.vars,
    BLit.terms, Head.vars, Head.terms, Proofs.C09sem.stmAvoids, renameBody, renameBLit, renameLit, renameAtom, renameTerm,
    renameTerms, varAtomHead]
example (P : Params) (hp : AggPersistent P) (T : Interp) (hT : Stable (stdParams P) (before c [pl] ctx) T) :
    Stable (stdParams P) (after c [pl] ctx) (extendAll P c [pl] T) :=
  C10_factor_all_sound P hp c [pl] (by decide)
    (fun p hp' => by
      rw [List.mem_singleton] at hp'
      subst hp'
      exact (C10_all_check_sound c _ _ _ _ _ _ ctx check.1 check.2).1)
    ctx (C10_all_check_sound c _ _ _ _ _ _ ctx check.1 check.2).2 T hT
end C10ex

end NgoVerif
