import NgoVerif.Proofs.C20dom
import NgoVerif.Meta.Cover
import NgoVerif.Meta.M4
import NgoVerif.Model.Order
import NgoVerif.Proofs.C20heads
/-!
# C20 — generated domain and order predicates describe the real domain

The specification against which the auxiliary extensions of every answer set are checked: for the sorted,
duplicate-free list of domain values of a group, the consecutive pairs are exactly the covering relation
(`C20_next_is_cover`), the head is the least and the last the greatest element (`C20_min`, `C20_max`).  The check
recomputes these from the `__dom_` extension clingo reports and compares with the `__min_/__max_/__next_` extensions.
Domain/next/chain rules are positive-recursive plain rules: adding them is a conservative extension (M4 ⇒).
Over-approximation (`p ⊆ dom_p`) and choice-independence of `dom_p` are observed on the real code (finding D6).
-/
namespace NgoVerif

theorem C20_next_is_cover (l : List Int) (hs : l.Pairwise (· < ·)) (a b : Int) :
    (a, b) ∈ Cover.consecutive l ↔ a ∈ l ∧ b ∈ l ∧ a < b ∧ ∀ c ∈ l, ¬ (a < c ∧ c < b) :=
  Cover.consecutive_cover l hs a b

theorem C20_min (x : Int) (l : List Int) (hs : (x :: l).Pairwise (· < ·)) : ∀ c ∈ x :: l, x ≤ c :=
  Cover.head_least x l hs

theorem C20_max (l : List Int) (hne : l ≠ []) (hs : l.Pairwise (· < ·)) : ∀ c ∈ l, c ≤ l.getLast hne :=
  Cover.last_greatest l hne hs

theorem C20_rules_conservative {α : Type} (P : HT.Prog α) (D : HT.RDefs α) (hP : ∀ r, P r → HT.Indep D.A r)
    (T : HT.Interp α) (hT : HT.Stable P T) (hno : ∀ a, D.A a → ¬ T a) :
    HT.Stable (HT.Union P D.prog) (HT.rext D T) :=
  HT.rdef_ext_sound P D hP T hT hno


/-- **the executable specification is the covering relation** of the reported domain values, whatever their order and
multiplicity: this is what the `__next_…` extension of every answer set is compared with -/
theorem C20_order_spec_next (l : List Int) (a b : Int) :
    (a, b) ∈ (orderSpec l).2.2 ↔ a ∈ l ∧ b ∈ l ∧ a < b ∧ ∀ c ∈ l, ¬ (a < c ∧ c < b) := by
  simp only [orderSpec]
  rw [Cover.consecutive_cover _ (sorted_sortInts l)]
  simp only [mem_sortInts]

/-- … its first component is the least element … -/
theorem C20_order_spec_min (l : List Int) (m : Int) (h : (orderSpec l).1 = some m) : m ∈ l ∧ ∀ c ∈ l, m ≤ c := by
  simp only [orderSpec] at h
  cases hs : sortInts l with
  | nil => rw [hs] at h; simp at h
  | cons x xs =>
    rw [hs] at h
    simp only [List.head?_cons, Option.some.injEq] at h
    subst h
    have hsorted := sorted_sortInts l
    rw [hs] at hsorted
    refine ⟨(mem_sortInts x l).mp (by rw [hs]; exact List.mem_cons_self), ?_⟩
    intro c hc
    have : c ∈ x :: xs := by rw [← hs]; exact (mem_sortInts c l).mpr hc
    exact Cover.head_least x xs hsorted c this

/-- … and its second the greatest -/
theorem C20_order_spec_max (l : List Int) (m : Int) (h : (orderSpec l).2.1 = some m) : m ∈ l ∧ ∀ c ∈ l, c ≤ m := by
  simp only [orderSpec] at h
  have hne : sortInts l ≠ [] := by
    intro hnil; rw [hnil] at h; simp at h
  have hlast : (sortInts l).getLast hne = m := by
    rw [List.getLast?_eq_some_getLast hne] at h
    exact Option.some.inj h
  refine ⟨?_, ?_⟩
  · rw [← mem_sortInts, ← hlast]; exact List.getLast_mem hne
  · intro c hc
    rw [← hlast]
    exact Cover.last_greatest _ hne (sorted_sortInts l) c ((mem_sortInts c l).mpr hc)

/-- **what the domain machinery adds is deterministic**: every rule answered by any request of the model of
`DomainPredicates` (`create_domain`, `create_next_pred_for_annotated_pred`, `create_chain_pred_for_annotated_pred`),
in any state, has a plain positive atom head - no choice, disjunction or aggregate can enter a program through it.
(The model is tied to `dependency.py` by `corr_dependency.py` on every run.) -/
theorem C20_generated_rules_plain (st st' : Dep.DomState) (r : Dep.Req) (rs : List Stm)
    (h : Dep.runReq st r = (.ok rs, st')) : rs.all Proofs.C20heads.plainRule = true :=
  Proofs.C20heads.runReq_plain st st' r rs h

example : orderSpec [5, 1, 3, 3, -2] = (some (-2), some 5, [(-2, 1), (1, 3), (3, 5)]) := by decide

/-! ## the central claim, for typed programs (`Proofs/C20dom.lean`) -/
open Proofs.C20dom in
/-- **a generated domain predicate contains the predicate it stands for, in every answer set**: if the program passes the
executable `coveredCheck` for the map `m` (predicate ↦ domain predicate) - every plain rule and every choice element that
can derive an atom of a mapped predicate has its domain rule, whose literals are literals of the source rule unchanged
or domain versions of its positive literals - then `p(c̄) ∈ T ⟹ dom_p(c̄) ∈ T` for every stable model `T`.  Standard head
semantics, any parameters with persistent aggregates whose double negation is evaluated in the total interpretation.
Domain rules that replace a NEGATED literal or a condition by its domain version (finding D6) fail the check. -/
theorem C20_domain_overapproximates (P : Sem.Params) (hp : Sem.AggPersistent P) (hdn : DnegT P)
    (m : List ((String × Nat) × String)) (prg : Prog) (hc : coveredCheck m prg = true) (T : Sem.Interp)
    (hT : Sem.Stable (Sem.stdParams P) prg T) :
    ∀ a d, T a → mapOf m a.name a.args.length = some d → T ⟨d, a.args⟩ :=
  dom_overapprox_of_check P hp hdn m prg hc T hT

/-! non-vacuity: the choice program `{out(X)} :- d(X).  p(X) :- d(X), out(X).` with the domain rules the pass generates
passes the check, so the theorem applies to it -/
namespace C20ex
open Proofs.C20dom Sem
def atomL (n : String) (vs : List String) : BLit := .lit (.pos, .sym (.fn n (vs.map Term.var) false))
def headL (n : String) (vs : List String) : Head := .lit (.pos, .sym (.fn n (vs.map Term.var) false))
def prg : Prog :=
  [ .rule 1 1 (.agg none [((.pos, .sym (.fn "out" [.var "X"] false)), [])] none) [atomL "d" ["X"]],
    .rule 2 1 (headL "p" ["X"]) [atomL "d" ["X"], atomL "out" ["X"]],
    .rule 1 1 (headL "__dom_out" ["X"]) [atomL "d" ["X"]],
    .rule 1 1 (headL "__dom_p" ["X"]) [atomL "d" ["X"], atomL "__dom_out" ["X"]] ]
def m : List ((String × Nat) × String) := [(("out", 1), "__dom_out"), (("p", 1), "__dom_p")]
set_option maxRecDepth 4000 in
theorem check : coveredCheck m prg = true := by
  simp [coveredCheck, ruleCoveredCheck, prg, m, headL, atomL, headOtherCheck, hasDomRule, domLitCheck, mapOf, globalsOf,
    stdHeadGlobals, bodyGlobals, blitGlobals, litVars, litTerms, Atom.terms, Term.vars, termsEqb, termEqb, iffB,
    atomAvoids, qsig, posAtom, condLitTerms, litsTerms, BLit.vars, BLit.terms, blitMem, blitEqb, litEqb, atomEqb,
    blitScoped, atomScoped, optGuardTerms]
/-- in every stable model of the example, `p(c)` comes with `__dom_p(c)` -/
example (P : Params) (hp : AggPersistent P) (hdn : DnegT P) (T : Interp) (hT : Stable (stdParams P) prg T) (c : NgoVerif.Sym)
    (h : T ⟨"p", [c]⟩) : T ⟨"__dom_p", [c]⟩ :=
  C20_domain_overapproximates P hp hdn m prg check T hT ⟨"p", [c]⟩ "__dom_p" h (by simp [mapOf, m])
end C20ex

end NgoVerif
