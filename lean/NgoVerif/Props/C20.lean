import NgoVerif.Meta.Cover
import NgoVerif.Meta.M4
/-!
# C20 — generated domain and order predicates describe the real domain

The specification against which the auxiliary extensions of every answer set are checked: for the sorted,
duplicate-free list of domain values of a group, the consecutive pairs are exactly the covering relation
(`C20_next_is_cover`), the head is the least and the last the greatest element (`C20_min`, `C20_max`).  The check
recomputes these from the `__dom_` extension clingo reports and compares with the `__min_/__max_/__next_` extensions.
Domain/next/chain rules are positive-recursive plain rules: adding them is a conservative extension (M4 ⇒).
Over-approximation (`p ⊆ dom_p`) and choice-independence of `dom_p` are observed on the real code (finding D6).
-/
namespace NgoVerif

theorem C20_next_is_cover (l : List Int) (hs : l.Pairwise (· < ·)) (a b : Int) :
    (a, b) ∈ Cover.consecutive l ↔ a ∈ l ∧ b ∈ l ∧ a < b ∧ ∀ c ∈ l, ¬ (a < c ∧ c < b) :=
  Cover.consecutive_cover l hs a b

theorem C20_min (x : Int) (l : List Int) (hs : (x :: l).Pairwise (· < ·)) : ∀ c ∈ x :: l, x ≤ c :=
  Cover.head_least x l hs

theorem C20_max (l : List Int) (hne : l ≠ []) (hs : l.Pairwise (· < ·)) : ∀ c ∈ l, c ≤ l.getLast hne :=
  Cover.last_greatest l hne hs

theorem C20_rules_conservative {α : Type} (P : HT.Prog α) (D : HT.RDefs α) (hP : ∀ r, P r → HT.Indep D.A r)
    (T : HT.Interp α) (hT : HT.Stable P T) (hno : ∀ a, D.A a → ¬ T a) :
    HT.Stable (HT.Union P D.prog) (HT.rext D T) :=
  HT.rdef_ext_sound P D hP T hT hno

end NgoVerif
