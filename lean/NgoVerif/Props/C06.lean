import NgoVerif.Proofs.C16heads
import NgoVerif.Meta.Compose
import NgoVerif.Meta.Meta2
import NgoVerif.Meta.M4
import NgoVerif.Proofs.C20heads
/-!
# C06 — traits that only add auxiliary predicates keep all source atoms, one-to-one

Every rule the seven passes *add* defines a fresh predicate by plain (non-choice, non-disjunctive) rules over
existing atoms; such an addition is a one-to-one conservative extension (M3 both directions for non-recursive
definitions, M4 ⇒ for the positive-recursive chain/next rules), conservative extensions compose, and the
projection to the source vocabulary is injective on the answer sets of the result (`C06_injective`): the number of
answer sets is unchanged.
-/
namespace NgoVerif
open Compose

theorem C06_compose {Prog Inst Model : Type} (AS : Prog → Inst → Model → Prop) (p1 p2 : Model → Model)
    (P Q R : Prog) (h1 : ConsExt AS p1 P Q) (h2 : ConsExt AS p2 Q R) : ConsExt AS (p1 ∘ p2) P R :=
  ConsExt.trans h1 h2

theorem C06_injective {Prog Inst Model : Type} (AS : Prog → Inst → Model → Prop) (proj : Model → Model)
    (P Q : Prog) (h : ConsExt AS proj P Q) (I : Inst) (m m' : Model) (hm : AS Q I m) (hm' : AS Q I m')
    (he : proj m = proj m') : m = m' :=
  ConsExt.injective h I m m' hm hm' he

/-- non-recursive auxiliary definitions: the extension of a stable model is stable … -/
theorem C06_aux_sound {α : Type} (P : HT.Prog α) (D : HT.Defs α) (hP : ∀ r, P r → HT.Indep D.A r)
    (T : HT.Interp α) (hT : HT.Stable P T) : HT.Stable (HT.Union P D.rules) (HT.ext D T) :=
  HT.def_ext_sound P D hP T hT

/-- … and every stable model of the extended program arises that way, from exactly one source model -/
theorem C06_aux_complete {α : Type} (P : HT.Prog α) (D : HT.Defs α) (hP : ∀ r, P r → HT.Indep D.A r)
    (hpers : ∀ a H T, HT.Sub H T → D.dfn a H T → D.dfn a T T)
    (T' : HT.Interp α) (hT' : HT.Stable (HT.Union P D.rules) T') :
    ∃ T, HT.Stable P T ∧ ∀ a, T' a ↔ HT.ext D T a :=
  HT.def_ext_complete P D hP hpers T' hT'

/-- positive-recursive auxiliary definitions (chain, next): the least-fixpoint extension is stable (⇒ direction) -/
theorem C06_recursive_aux_sound_partial {α : Type} (P : HT.Prog α) (D : HT.RDefs α)
    (hP : ∀ r, P r → HT.Indep D.A r) (T : HT.Interp α) (hT : HT.Stable P T) (hno : ∀ a, D.A a → ¬ T a) :
    HT.Stable (HT.Union P D.prog) (HT.rext D T) :=
  HT.rdef_ext_sound P D hP T hT hno

/-- the auxiliary rules of the domain/order machinery are deterministic rules (plain atom heads): this is the syntactic
premise under which `C06_aux_sound`/`C06_recursive_aux_sound_partial` apply to what `dependency.py` adds -/
theorem C06_order_aux_plain (st st' : Dep.DomState) (r : Dep.Req) (rs : List Stm)
    (h : Dep.runReq st r = (.ok rs, st')) : rs.all Proofs.C20heads.plainRule = true :=
  Proofs.C20heads.runReq_plain st st' r rs h

/-- **projection keeps every head and adds only plain-headed auxiliary rules**: every statement of the result of the
model of `ProjectionTranslator.execute` is a source statement verbatim, a source rule with the same head over another
body, or a new rule whose head is a plain positive atom -/
theorem C06_projection_heads_kept (prg : Prog) (inputs : List Pred) (out : Prog) (h : projection prg inputs = .ok out) :
    ∀ s ∈ out, ∃ o ∈ prg, Proofs.C16heads.FromStm o s :=
  Proofs.C16heads.projection_heads prg inputs out h

end NgoVerif
