import NgoVerif.Generated.Tables
import NgoVerif.Meta.Bridge
import NgoVerif.Meta.Agg
import NgoVerif.Proofs.C05sem
import NgoVerif.Proofs.StrongEq
/-!
# C05 — with every trait disabled the rewrite is meaning-preserving for all predicates

The always-on normalisation consists of local, rule-by-rule rewrites.  Each one is justified by an equality of
*denotations* (same truth value for every environment and every here-and-there pair), hence by strong equivalence —
which is why arbitrary facts over any predicate may be added.  Proved here:

* the comparison tables used when a guard is moved from the right to the left of an aggregate and when a comparison
  is negated (`rhs2lhs_comparison`, `negate_comparison`, `compare`) — table theorems over the tables *generated* from
  `utils/ast.py` on every run;
* splitting a comparison chain into binary comparisons keeps the body's denotation for positive and doubly negated
  literals (`C05_expand_comparisons_partial`); for a *negated* chain of length ≥ 2 it does not
  (`C05_expand_comparisons_counterexample`, defect D8);
* `#count{t̄ : c} = #sum+{1,t̄ : c}` over arbitrary (also infinite) tuple sets (`C05_count_to_sum`).

Tied by correspondence (model `Model/Normalize.lean`): the concrete functions of `normalize.py`.
Not proved: old-style aggregate tagging, ex- and in-lining of arithmetic (`_partial` hypotheses documented in the
known findings D3, D19, D29, D30), `unpool` (clingo).
-/
namespace NgoVerif
open Tables

/-- meaning of a comparison operator on integers -/
def CmpOp.holds : CmpOp → Int → Int → Prop
  | .gt, a, b => a > b
  | .lt, a, b => a < b
  | .le, a, b => a ≤ b
  | .ge, a, b => a ≥ b
  | .ne, a, b => a ≠ b
  | .eq, a, b => a = b

/-- `rhs2lhs_comparison`: `agg op t` and `t op' agg` say the same; the table is total -/
theorem C05_rhs2lhs_table :
    (∀ p ∈ RHS2LHS, ∀ a b : Int, CmpOp.holds p.2 b a ↔ CmpOp.holds p.1 a b) ∧
    (∀ op : CmpOp, ∃ p ∈ RHS2LHS, p.1 = op) := by
  constructor
  · intro p hp a b
    simp only [RHS2LHS, List.mem_cons, List.not_mem_nil, or_false] at hp
    rcases hp with rfl | rfl | rfl | rfl | rfl | rfl <;> simp only [CmpOp.holds] <;> omega
  · intro op; cases op <;> decide

/-- `negate_comparison`: the negated operator holds exactly when the operator does not; the table is total -/
theorem C05_negate_table :
    (∀ p ∈ NEGATE, ∀ a b : Int, CmpOp.holds p.2 a b ↔ ¬ CmpOp.holds p.1 a b) ∧
    (∀ op : CmpOp, ∃ p ∈ NEGATE, p.1 = op) := by
  constructor
  · intro p hp a b
    simp only [NEGATE, List.mem_cons, List.not_mem_nil, or_false] at hp
    rcases hp with rfl | rfl | rfl | rfl | rfl | rfl <;> simp only [CmpOp.holds] <;> omega
  · intro op; cases op <;> decide

/-- `compare(lhs, cmp, rhs)` evaluates the Python comparison of the same name; every operator has a branch -/
theorem C05_compare_table : (∀ p ∈ COMPARE, p.1 = p.2) ∧ (∀ op : CmpOp, ∃ p ∈ COMPARE, p.1 = op) := by
  constructor
  · decide
  · intro op; cases op <;> decide

/-- splitting chains: denotation-preserving when no comparison literal of the body is negated -/
theorem C05_expand_comparisons_partial (e : Br.Env) (H T : Br.Interp) (b : List Br.Lit)
    (hb : ∀ l ∈ b, ∀ s t gs, l = .cmp s t gs → s = .pos) :
    Br.bodySat e H T (Br.expandBody b) ↔ Br.bodySat e H T b :=
  Br.expandBody_sat_partial e H T b hb

/-- the full statement is false: `not 1 < 2 < 0` holds, `not 1 < 2, not 2 < 0` does not (defect D8) -/
theorem C05_expand_comparisons_counterexample :
    ∃ (e : Br.Env) (H T : Br.Interp) (t : Br.Term) (gs : List (Br.Op × Br.Term)),
      ¬ ((∀ l ∈ Br.splitChain .neg t gs, l.sat e H T) ↔ ¬ Br.chainHolds e t gs) :=
  Br.splitChain_neg_counterexample

/-- `#count{t̄ : c}` = `#sum+{1,t̄ : c}` for every set of tuples -/
theorem C05_count_to_sum (S : Set Agg.Tuple) :
    Agg.countOf S = Agg.sumPlusOf ((fun t => Agg.Val.num 1 :: t) '' S) :=
  Agg.count_eq_sumPlus S

/-- the tags that keep old-style aggregate elements apart are pairwise different per sign / boolean value -/
theorem C05_oldagg_tags_injective :
    (OLDAGG_SIGN_TAG.map (·.2)).Nodup ∧ (OLDAGG_BOOL_TAG.map (·.2)).Nodup ∧
    (∀ s : Sign, ∃ p ∈ OLDAGG_SIGN_TAG, p.1 = s) := by
  refine ⟨by decide, by decide, ?_⟩
  intro s; cases s <;> decide


/-- **End-to-end for the model function**: `normalize_operators` as modelled in `Model/Normalize.lean` (the function the
correspondence ties to `normalize.py`) keeps the here-and-there denotation of every body — conditional literals and
aggregate element conditions included — for every environment, HT pair, comparison relation, arithmetic and aggregate
semantics, provided no *negated* comparison literal has more than one guard.  Equal denotations for all `(H,T)` is
strong equivalence: facts over any predicate may be added. -/
theorem C05_normalize_operators_partial (P : Sem.Params) (G : String → Prop) (e : Sem.Env) (H T : Sem.Interp)
    (b : List BLit) (hok : Proofs.C05sem.okBody b = true) :
    Sem.bodySat P G e H T (normalizeOperators b) ↔ Sem.bodySat P G e H T b :=
  Proofs.C05sem.normalizeOperators_sat P G e H T b hok

/-- … and without that hypothesis the model function does change the denotation (D8): `not 1 < 2 < 0` -/
theorem C05_normalize_operators_counterexample :
    ∃ (P : Sem.Params) (G : String → Prop) (e : Sem.Env) (H T : Sem.Interp) (b : List BLit),
      ¬ (Sem.bodySat P G e H T (normalizeOperators b) ↔ Sem.bodySat P G e H T b) := by
  let P : Sem.Params := {
    rel := fun op x y => match op, x, y with
      | .lt, .num a, .num b => a < b
      | _, _, _ => False
    un := fun _ _ => none, bin := fun _ _ _ => none,
    aggRel := fun _ _ _ _ _ _ => False, oldAggRel := fun _ _ _ _ _ => False }
  refine ⟨P, fun _ => False, fun _ => .num 0, fun _ => False, fun _ => False,
    [.lit (.neg, .cmp (.sym (.num 1)) [⟨.lt, .sym (.num 2)⟩, ⟨.lt, .sym (.num 0)⟩])], ?_⟩
  intro h
  have hb : Sem.bodySat P (fun _ => False) (fun _ => .num 0) (fun _ => False) (fun _ => False)
      [.lit (.neg, .cmp (.sym (.num 1)) [⟨.lt, .sym (.num 2)⟩, ⟨.lt, .sym (.num 0)⟩])] := by
    intro l hl
    simp only [List.mem_singleton] at hl
    subst hl
    simp [Sem.blitSat, Sem.litSat, Sem.atomSat, Sem.chainHolds, Sem.evalTerm, P]
  have := h.mpr hb
  have h1 := this (.lit (.neg, .cmp (.sym (.num 1)) [⟨.lt, .sym (.num 2)⟩]))
    (by simp [normalizeOperators, expandCmp, cmpList])
  simp [Sem.blitSat, Sem.litSat, Sem.atomSat, Sem.chainHolds, Sem.evalTerm, P] at h1


/-- **Program level**: applying `expand_comparisons` to every statement (the third step of `normalize`, as modelled) is
a *strong equivalence* — same here-and-there models for every head semantics, hence the same answer sets whatever
statements are added (facts over any predicate) — for programs without a negated multi-guard comparison. -/
theorem C05_expand_comparisons_strongeq_partial (P : Sem.PParams) (prg : Prog)
    (hok : ∀ s ∈ prg, Proofs.StrongEq.okStm s = true) :
    Sem.StrongEq P prg (prg.map expandComparisons) :=
  Proofs.StrongEq.expandComparisons_strongEq P prg hok

/-- strong equivalence gives equal stable models, also after adding arbitrary statements on both sides -/
theorem C05_strongeq_answer_sets (P : Sem.PParams) (prg prg' extra : Prog) (h : Sem.StrongEq P prg prg')
    (T : Sem.Interp) : Sem.Stable P (prg ++ extra) T ↔ Sem.Stable P (prg' ++ extra) T :=
  Sem.StrongEq.stable P (Sem.StrongEq.append P h extra) T

/-- every objective contributes the same ground tuples after `expand_comparisons` (costs unchanged) -/
theorem C05_expand_comparisons_costs_partial (P : Sem.PParams) (s : Stm) (hok : Proofs.StrongEq.okStm s = true)
    (T : Sem.Interp) (x : Sym × Sym × List Sym) :
    Sem.costTuples P T (expandComparisons s) x ↔ Sem.costTuples P T s x :=
  Proofs.StrongEq.costTuples_expandComparisons P s hok T x

end NgoVerif
