import NgoVerif.Generated.Tables
import NgoVerif.Meta.Algebra
import NgoVerif.Model.SumAgg
/-!
# C13 — sum_chains: chained weights add up to the original sum or objective

For a predicate with at most one value per group, the value `d_k` contributes `d_k` to the sum; the chain encoding
contributes the base weight `d₀` (least domain value) plus `dᵢ₊₁ − dᵢ` for every chain step up to `k`
(`C13_telescope`), which is the same number — for any sorted domain, negative and repeated-free values included.
Tuples stay distinct because the `next` atom is appended (`C13_flatten`: the sum over the union of per-step tuple
sets is the sum of sums iff they are disjoint).  "At most one per group" must really hold (finding D17) and groups
must not be merged (finding D16) — both are decisions of the pass, modelled in `Model/SumAgg.lean` when present and
validated by the oracle.
-/
namespace NgoVerif

theorem C13_telescope (a : Int) (l : List Int) (k : Nat) (hk : k ≤ l.length) :
    a + Alg.tele ((a :: l).take (k + 1)) = (a :: l)[k]'(by simp; omega) :=
  Alg.tele_take a l k hk

theorem C13_flatten {G T : Type} [DecidableEq T] (groups : Finset G) (elems : G → Finset T) (w : T → Int)
    (hdisj : ∀ g ∈ groups, ∀ g' ∈ groups, g ≠ g' → Disjoint (elems g) (elems g')) :
    ∑ t ∈ groups.biUnion elems, w t = ∑ g ∈ groups, ∑ t ∈ elems g, w t :=
  Alg.sum_flatten groups elems w hdisj

/-- merging the chains of two groups under one constant loses a contribution (D16) -/
theorem C13_merged_groups_counterexample :
    ∃ (groups : Finset Bool) (elems : Bool → Finset Int) (w : Int → Int),
      ∑ t ∈ groups.biUnion elems, w t ≠ ∑ g ∈ groups, ∑ t ∈ elems g, w t :=
  Alg.sum_flatten_counterexample

/-- `api.optimize` (read from the source on every run) constructs this pass with the current program and the caller's
own declaration lists, under the parameter names the class declares, and replaces the current program by its result -/
theorem C13_wiring :
    Tables.API_ARGS.lookup "sum_chains" = some (["input_", "input_predicates"], "input_", "input_") ∧
    Tables.CTOR_PARAMS.lookup "sum_chains" = some ["prg", "input_predicates"] := by decide

/-! ## decision kernel of the model of `_calc_at_most` (`Model/SumAgg.lean`, tied to the code by `corr_sumagg.py`) -/
open SumAgg in
theorem atMostLoop_single (prg : Prog) : ∀ (ps : List Pred) (am al am' al' : List SumAgg.APred),
    (∀ a ∈ am, (rulesThatDerive prg a.pred).length = 1 ∧ a.pred ∈ ps ∨ (rulesThatDerive prg a.pred).length = 1) →
    atMostLoop prg ps am al = .ok (am', al') →
    ∀ a ∈ am', (rulesThatDerive prg a.pred).length = 1
  | [], am, al, am', al', hinv, h, a, ha => by
    simp only [atMostLoop, pure, Except.pure, Except.ok.injEq, Prod.mk.injEq] at h
    obtain ⟨rfl, _⟩ := h
    rcases hinv a ha with h1 | h1
    · exact h1.1
    · exact h1
  | p :: ps, am, al, am', al', hinv, h, a, ha => by
    simp only [atMostLoop] at h
    split at h
    · rename_i r hr
      simp only [bind, Except.bind] at h
      split at h
      · cases h
      · rename_i ml hml
        refine atMostLoop_single prg ps _ _ am' al' ?_ h a ha
        intro b hb
        right
        rcases List.mem_append.mp hb with hb | hb
        · rcases hinv b hb with h1 | h1
          · exact h1.1
          · exact h1
        · have hp : b.pred = p := by simpa using (List.mem_filter.mp hb).2
          rw [hp, hr]; rfl
    · refine atMostLoop_single prg ps am al am' al' ?_ h a ha
      intro b hb
      right
      rcases hinv b hb with h1 | h1
      · exact h1.1
      · exact h1

open SumAgg in
/-- **at-most-one is only ever claimed for a predicate with exactly one defining rule** (the invariant whose violation
was the defect repaired in d2294ea: the bound of a choice/aggregate head says nothing about atoms a second rule derives) -/
theorem C13_atmost_single_rule (prg : Prog) (inputs : List Pred) (am al : List SumAgg.APred)
    (h : calcAtMost prg inputs = .ok (am, al)) : ∀ a ∈ am, (rulesThatDerive prg a.pred).length = 1 :=
  atMostLoop_single prg _ [] [] am al (by intro a ha; cases ha) h

end NgoVerif
