import NgoVerif.Generated.Tables
import NgoVerif.Meta.Algebra
/-!
# C13 — sum_chains: chained weights add up to the original sum or objective

For a predicate with at most one value per group, the value `d_k` contributes `d_k` to the sum; the chain encoding
contributes the base weight `d₀` (least domain value) plus `dᵢ₊₁ − dᵢ` for every chain step up to `k`
(`C13_telescope`), which is the same number — for any sorted domain, negative and repeated-free values included.
Tuples stay distinct because the `next` atom is appended (`C13_flatten`: the sum over the union of per-step tuple
sets is the sum of sums iff they are disjoint).  "At most one per group" must really hold (finding D17) and groups
must not be merged (finding D16) — both are decisions of the pass, modelled in `Model/SumAgg.lean` when present and
validated by the oracle.
-/
namespace NgoVerif

theorem C13_telescope (a : Int) (l : List Int) (k : Nat) (hk : k ≤ l.length) :
    a + Alg.tele ((a :: l).take (k + 1)) = (a :: l)[k]'(by simp; omega) :=
  Alg.tele_take a l k hk

theorem C13_flatten {G T : Type} [DecidableEq T] (groups : Finset G) (elems : G → Finset T) (w : T → Int)
    (hdisj : ∀ g ∈ groups, ∀ g' ∈ groups, g ≠ g' → Disjoint (elems g) (elems g')) :
    ∑ t ∈ groups.biUnion elems, w t = ∑ g ∈ groups, ∑ t ∈ elems g, w t :=
  Alg.sum_flatten groups elems w hdisj

/-- merging the chains of two groups under one constant loses a contribution (D16) -/
theorem C13_merged_groups_counterexample :
    ∃ (groups : Finset Bool) (elems : Bool → Finset Int) (w : Int → Int),
      ∑ t ∈ groups.biUnion elems, w t ≠ ∑ g ∈ groups, ∑ t ∈ elems g, w t :=
  Alg.sum_flatten_counterexample

/-- `api.optimize` (read from the source on every run) constructs this pass with the current program and the caller's
own declaration lists, under the parameter names the class declares, and replaces the current program by its result -/
theorem C13_wiring :
    Tables.API_ARGS.lookup "sum_chains" = some (["input_", "input_predicates"], "input_", "input_") ∧
    Tables.CTOR_PARAMS.lookup "sum_chains" = some ["prg", "input_predicates"] := by decide

end NgoVerif
