import NgoVerif.Proofs.C07
import NgoVerif.Model.MinMax
import NgoVerif.Model.SumRewrite
/-!
# C07 — every invented name is fresh (the `UniqueNames` / `UniqueVariables` state machines)

Statements are over *every* sequence of `new_auxpredicate` / `new_predicate` (resp. `make_unique`) calls from the
initial state built from any program and any input declaration — also when the source already uses names of the
shapes ngo generates.
-/
namespace NgoVerif
open Proofs.C07

inductive NameOp where
  | aux (arity : Nat)
  | pred (similar : String) (arity : Nat)
  deriving Repr

def UniqueNames.step (s : UniqueNames) : NameOp → Option (Pred × UniqueNames)
  | .aux a => s.newAux a
  | .pred sim a => s.newPred sim a

/-- run an op sequence; returns the predicates handed out, in order -/
def UniqueNames.run (s : UniqueNames) : List NameOp → Option (List Pred × UniqueNames)
  | [] => some ([], s)
  | op :: ops =>
    match s.step op with
    | none => none
    | some (p, s') =>
      match s'.run ops with
      | none => none
      | some (ps, s'') => some (p :: ps, s'')

/-- the `while` loops of `new_auxpredicate` / `new_predicate` always terminate (pigeonhole over the known names;
injectivity of `base ++ str(n)`), whatever the vocabulary -/
theorem C07_names_total (s : UniqueNames) (ops : List NameOp) : (s.run ops).isSome := by
  induction ops generalizing s with
  | nil => simp [UniqueNames.run]
  | cons op ops ih =>
    unfold UniqueNames.run
    have h1 : (s.step op).isSome := by
      cases op with
      | aux a => exact newAux_some s a
      | pred sim a => exact newPred_some s sim a
    cases hs : s.step op with
    | none => rw [hs] at h1; simp at h1
    | some r =>
      obtain ⟨p, s'⟩ := r
      have h2 := ih s'
      cases hr : s'.run ops with
      | none => rw [hr] at h2; simp at h2
      | some r2 => simp [hr]

theorem step_fresh {s s' : UniqueNames} {op : NameOp} {p : Pred} (h : s.step op = some (p, s')) :
    p ∉ s.preds ∧ s'.preds = p :: s.preds := by
  cases op with
  | aux a => exact newAux_fresh h
  | pred sim a => exact newPred_fresh h

theorem run_fresh (s : UniqueNames) (ops : List NameOp) (ps : List Pred) (s' : UniqueNames)
    (h : s.run ops = some (ps, s')) :
    ps.Nodup ∧ (∀ p ∈ ps, p ∉ s.preds) ∧ (∀ q ∈ s.preds, q ∈ s'.preds) ∧ (∀ p ∈ ps, p ∈ s'.preds) := by
  induction ops generalizing s ps s' with
  | nil =>
    simp only [UniqueNames.run, Option.some.injEq, Prod.mk.injEq] at h
    obtain ⟨rfl, rfl⟩ := h
    simp
  | cons op ops ih =>
    unfold UniqueNames.run at h
    cases hs : s.step op with
    | none => rw [hs] at h; simp at h
    | some r =>
      obtain ⟨p, s1⟩ := r
      rw [hs] at h
      simp only at h
      cases hr : s1.run ops with
      | none => rw [hr] at h; simp at h
      | some r2 =>
        obtain ⟨ps2, s2⟩ := r2
        rw [hr] at h
        simp only [Option.some.injEq, Prod.mk.injEq] at h
        obtain ⟨rfl, rfl⟩ := h
        obtain ⟨hn, hd, hmono, hrec⟩ := ih s1 ps2 s2 hr
        obtain ⟨hp, hs1⟩ := step_fresh hs
        refine ⟨?_, ?_, ?_, ?_⟩
        · refine List.nodup_cons.mpr ⟨?_, hn⟩
          intro hmem
          exact hd p hmem (by rw [hs1]; exact List.mem_cons_self)
        · intro q hq
          rcases List.mem_cons.mp hq with rfl | hq
          · exact hp
          · intro hqs
            exact hd q hq (by rw [hs1]; exact List.mem_cons_of_mem _ hqs)
        · intro q hq
          exact hmono q (by rw [hs1]; exact List.mem_cons_of_mem _ hq)
        · intro q hq
          rcases List.mem_cons.mp hq with rfl | hq
          · exact hmono q (by rw [hs1]; exact List.mem_cons_self)
          · exact hrec q hq

/-- **Freshness of invented predicates.**  For every program, every input declaration and every sequence of
requests, the predicates handed out are pairwise distinct and distinct from every predicate of the source (its atoms and its
`#show p/n.` signatures) and of the declaration. -/
theorem C07_fresh_pred (prg : Prog) (inputs : List Pred) (ops : List NameOp) :
    ∃ ps s', (UniqueNames.init prg inputs).run ops = some (ps, s') ∧
      ps.Nodup ∧ ∀ p ∈ ps, p ∉ inputs ∧ p ∉ prg.allPreds ∧ p ∉ showSigs prg := by
  have ht := C07_names_total (UniqueNames.init prg inputs) ops
  cases hr : (UniqueNames.init prg inputs).run ops with
  | none => rw [hr] at ht; simp at ht
  | some r =>
    obtain ⟨ps, s'⟩ := r
    obtain ⟨hn, hd, _, _⟩ := run_fresh _ ops ps s' hr
    refine ⟨ps, s', rfl, hn, ?_⟩
    intro p hp
    have := hd p hp
    simp only [UniqueNames.init, List.mem_append, not_or] at this
    exact ⟨this.1.1, this.1.2, this.2⟩

/-! ### variables -/

def UniqueVars.run (u : UniqueVars) : List String → Option (List String × UniqueVars)
  | [] => some ([], u)
  | v :: vs =>
    match u.makeUnique v with
    | none => none
    | some (r, u') =>
      match u'.run vs with
      | none => none
      | some (rs, u'') => some (r :: rs, u'')

theorem C07_vars_total (u : UniqueVars) (vs : List String) : (u.run vs).isSome := by
  induction vs generalizing u with
  | nil => simp [UniqueVars.run]
  | cons v vs ih =>
    unfold UniqueVars.run
    have h1 := makeUnique_some u v
    cases hs : u.makeUnique v with
    | none => rw [hs] at h1; simp at h1
    | some r =>
      obtain ⟨p, u'⟩ := r
      have h2 := ih u'
      cases hr : u'.run vs with
      | none => rw [hr] at h2; simp at h2
      | some r2 => simp [hr]

theorem vars_run_fresh (u : UniqueVars) (vs rs : List String) (u' : UniqueVars) (h : u.run vs = some (rs, u')) :
    (rs.filter (· != "_")).Nodup ∧ (∀ r ∈ rs, r ≠ "_" → r ∉ u.all) ∧ (∀ q ∈ u.all, q ∈ u'.all) := by
  induction vs generalizing u rs u' with
  | nil =>
    simp only [UniqueVars.run, Option.some.injEq, Prod.mk.injEq] at h
    obtain ⟨rfl, rfl⟩ := h
    simp
  | cons v vs ih =>
    unfold UniqueVars.run at h
    cases hs : u.makeUnique v with
    | none => rw [hs] at h; simp at h
    | some r =>
      obtain ⟨p, u1⟩ := r
      rw [hs] at h
      simp only at h
      cases hr : u1.run vs with
      | none => rw [hr] at h; simp at h
      | some r2 =>
        obtain ⟨rs2, u2⟩ := r2
        rw [hr] at h
        simp only [Option.some.injEq, Prod.mk.injEq] at h
        obtain ⟨rfl, rfl⟩ := h
        obtain ⟨hn, hd, hmono⟩ := ih u1 rs2 u2 hr
        rcases makeUnique_fresh hs with ⟨rfl, rfl⟩ | ⟨hp, hu1⟩
        · refine ⟨by simpa using hn, ?_, hmono⟩
          intro r hr' hne
          rcases List.mem_cons.mp hr' with rfl | hr'
          · exact absurd rfl hne
          · exact hd r hr' hne
        · have hsub : ∀ q ∈ u.all, q ∈ u1.all := fun q hq => by rw [hu1]; exact List.mem_append_left _ hq
          have hp1 : p ∈ u1.all := by rw [hu1]; simp
          refine ⟨?_, ?_, fun q hq => hmono q (hsub q hq)⟩
          · by_cases hpu : p = "_"
            · subst hpu; simpa using hn
            · have : (p :: rs2).filter (· != "_") = p :: rs2.filter (· != "_") := by
                simp [List.filter_cons, hpu]
              rw [this]
              refine List.nodup_cons.mpr ⟨?_, hn⟩
              intro hmem
              have hm := List.mem_filter.mp hmem
              exact hd p hm.1 hpu hp1
          · intro r hr' hne
            rcases List.mem_cons.mp hr' with rfl | hr'
            · exact hp
            · exact fun hru => hd r hr' hne (hsub r hru)

/-- **Freshness of invented variables**: for every statement and every sequence of `make_unique` requests the
variables handed out (other than `_`) are pairwise distinct and do not occur in the statement. -/
theorem C07_fresh_var (stm : Stm) (vs : List String) :
    ∃ rs u', (UniqueVars.init stm).run vs = some (rs, u') ∧
      (rs.filter (· != "_")).Nodup ∧ ∀ r ∈ rs, r ≠ "_" → r ∉ stm.vars := by
  have ht := C07_vars_total (UniqueVars.init stm) vs
  cases hr : (UniqueVars.init stm).run vs with
  | none => rw [hr] at ht; simp at ht
  | some r =>
    obtain ⟨rs, u'⟩ := r
    obtain ⟨hn, hd, _⟩ := vars_run_fresh _ vs rs u' hr
    exact ⟨rs, u', rfl, hn, hd⟩

/-- non-vacuity: a vocabulary that already uses ngo's shapes -/
example : ((UniqueNames.init [] [⟨"__aux_1", 1⟩, ⟨"__aux_2", 1⟩, ⟨"p", 1⟩]).run [.aux 1, .pred "p" 1, .aux 1]).map (·.1)
    = some [⟨"__aux_3", 1⟩, ⟨"p1", 1⟩, ⟨"__aux_5", 1⟩] := by decide

/-! ## the variables of the chain templates (they were hard-wired names; repaired in /repo, see DESIGN §7.1) -/

/-- **The variables of the chain templates are fresh** (they were the hard-wired `__PREV` / `__NEXT`): the two neighbour
variables `minmax_chains` puts into chain rules and into replaced objectives / sum elements are different from each other
and are not among the variables they are requested against. -/
theorem C07_chain_neighbours_fresh (vars : List String) :
    ∃ p n, MinMax.neighbours vars = (.var p, .var n) ∧ p ∉ vars ∧ n ∉ vars ∧ p ≠ n := by
  unfold MinMax.neighbours
  have h1 := makeUnique_some ⟨vars⟩ "__PREV"
  cases hs : (⟨vars⟩ : UniqueVars).makeUnique "__PREV" with
  | none => rw [hs] at h1; simp at h1
  | some r =>
    obtain ⟨p, u⟩ := r
    obtain ⟨hp, hu⟩ := makeUnique_fresh_named (by decide) hs
    have h2 := makeUnique_some u "__NEXT"
    cases hs2 : u.makeUnique "__NEXT" with
    | none => rw [hs2] at h2; simp at h2
    | some r2 =>
      obtain ⟨n, u2⟩ := r2
      obtain ⟨hn, _⟩ := makeUnique_fresh_named (by decide) hs2
      rw [hu] at hn
      simp only [List.mem_append, List.mem_singleton, not_or] at hn
      refine ⟨p, n, ?_, hp, hn.1, fun h => hn.2 h.symm⟩
      simp only [hs2]

/-- the predecessor variable `sum_chains` puts into replaced `#sum` elements and objectives is not a variable of the
statement -/
theorem C07_sum_prev_fresh (stm : Stm) : ∃ p, SumRewrite.prevFor stm = .var p ∧ p ∉ stm.vars := by
  unfold SumRewrite.prevFor
  have h1 := makeUnique_some (UniqueVars.init stm) "__PREV"
  cases hs : (UniqueVars.init stm).makeUnique "__PREV" with
  | none => rw [hs] at h1; simp at h1
  | some r =>
    obtain ⟨p, u⟩ := r
    obtain ⟨hp, _⟩ := makeUnique_fresh_named (by decide) hs
    exact ⟨p, by simp only, hp⟩

/-- non-vacuity: a rule that uses both template names -/
example : MinMax.neighbours ["__PREV", "M", "__NEXT", "__PREV0"] = (.var "__PREV1", .var "__NEXT0") := by rfl

end NgoVerif
