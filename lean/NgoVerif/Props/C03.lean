import NgoVerif.Model.Api
import NgoVerif.Props.C07
/-!
# C03 — `optimize` always returns

What is provable here and what is not:
* every *modelled* loop is a total Lean function (structural recursion or fuel with a `…_total` theorem, e.g.
  `C07_names_total`, `C07_vars_total`); no `partial`, no `maxHeartbeats 0`;
* the outer `while True … if input_ == old: break` of `api.optimize` has **no** termination proof (it depends on
  every pass, including sympy).  What *is* proved is the decision rule the check uses instead of waiting for a
  time-out: a repeated state that is not a fixpoint is a proof of divergence (`C03_cycle_diverges`), and a run that
  exits does so exactly at a fixpoint of the iteration (`C03_exit_is_fixpoint`);
* the pass order is the documented one (table theorem over the generated `API_ORDER`).
-/
namespace NgoVerif
open Tables

/-- `n` iterations of the loop body -/
def iter {σ : Type} (f : σ → σ) : Nat → σ → σ
  | 0, s => s
  | n + 1, s => iter f n (f s)

theorem iter_succ' {σ : Type} (f : σ → σ) : ∀ (n : Nat) (s : σ), iter f (n + 1) s = f (iter f n s)
  | 0, _ => rfl
  | n + 1, s => by
    show iter f (n + 1) (f s) = f (iter f n (f s))
    exact iter_succ' f n (f s)

theorem iterate_add {σ : Type} (f : σ → σ) : ∀ (a b : Nat) (s : σ), iter f (a + b) s = iter f a (iter f b s)
  | 0, b, s => by simp [iter]
  | a + 1, b, s => by
    rw [Nat.add_right_comm, iter_succ', iter_succ', iterate_add f a b s]

/-- **Cycle ⇒ divergence** (M9).  For a deterministic step function: if the state after `i` iterations re-appears
after `j > i` iterations and no state inside the cycle is a fixpoint, then the loop `until step s = s` never exits
after iteration `i`. -/
theorem C03_cycle_diverges {σ : Type} (step : σ → σ) (s : σ) (i j : Nat) (hij : i < j)
    (hc : iter step (i) s = iter step (j) s)
    (hnf : ∀ k, i ≤ k → k < j → iter step (k + 1) s ≠ iter step (k) s) :
    ∀ n, i ≤ n → iter step (n + 1) s ≠ iter step (n) s := by
  have hper : ∀ m, iter step (j + m) s = iter step (i + m) s := by
    intro m
    rw [Nat.add_comm j m, Nat.add_comm i m, iterate_add, iterate_add, hc]
  intro n
  induction n using Nat.strongRecOn with
  | _ n ih =>
    intro hn
    by_cases hlt : n < j
    · exact hnf n hn hlt
    · have hge : j ≤ n := Nat.le_of_not_lt hlt
      have h1 : iter step (n) s = iter step (n - (j - i)) s := by
        have : n = j + (n - j) := by omega
        rw [this, hper]; congr 1; omega
      have h2 : iter step (n + 1) s = iter step (n - (j - i) + 1) s := by
        have : n + 1 = j + (n - j + 1) := by omega
        rw [this, hper]; congr 1; omega
      rw [h1, h2]
      exact ih (n - (j - i)) (by omega) (by omega)

/-- if the modelled loop returns a program, it returns `post` of a state that one more iteration leaves unchanged -/
theorem C03_exit_is_fixpoint {σ : Type} [BEq σ] [LawfulBEq σ] (pl : Pipeline σ) (flags : List (String × Bool)) :
    ∀ (fuel : Nat) (s : σ) (r : Except String σ), optimizeLoop pl flags fuel s = some r →
      (∃ e, r = .error e) ∨ ∃ t, iteration pl flags t = .ok t ∧ r = pl.post t
  | 0, _, _, h => by simp [optimizeLoop] at h
  | fuel + 1, s, r, h => by
    unfold optimizeLoop at h
    cases hi : iteration pl flags s with
    | error e => rw [hi] at h; simp at h; exact Or.inl ⟨e, h.symm⟩
    | ok s' =>
      rw [hi] at h
      simp only at h
      by_cases heq : (s' == s) = true
      · simp only [heq, if_true, Option.some.injEq] at h
        have : s' = s := by simpa using heq
        subst this
        exact Or.inr ⟨s', hi, h.symm⟩
      · simp only [heq, Bool.false_eq_true, if_false] at h
        exact C03_exit_is_fixpoint pl flags fuel s' r h

/-- the documented pass order, read from `api.py` on every run -/
theorem C03_pass_order :
    API_ORDER.map (·.1) = ["cleanup", "unused", "duplication", "symmetry", "minmax_chains", "sum_chains", "math",
      "inline", "projection"] := by decide

/-- the stages of one iteration are the enabled traits in that order followed by `exline` -/
theorem C03_iteration_stages (flags : List (String × Bool)) :
    iterationStages flags =
      (["cleanup", "unused", "duplication", "symmetry", "minmax_chains", "sum_chains", "math", "inline", "projection"].filter
        fun t => (flags.lookup t).getD false) ++ ["exline"] := by
  unfold iterationStages
  rw [← C03_pass_order, List.filter_map]
  rfl

/-- the naming loops of `UniqueNames` (used by projection, duplication, symmetry, unused, dependency) terminate -/
theorem C03_name_loops_terminate (s : UniqueNames) (ops : List NameOp) : (s.run ops).isSome :=
  C07_names_total s ops

/-- non-vacuity of the cycle theorem: a two-state flip-flop never exits -/
example : ∀ n, 0 ≤ n → iter (fun b : Bool => !b) (n + 1) true ≠ iter (fun b : Bool => !b) n true :=
  C03_cycle_diverges (fun b : Bool => !b) true 0 2 (by decide) (by decide) (by intro k _ hk; match k, hk with | 0, _ => decide | 1, _ => decide)

end NgoVerif
