import NgoVerif.Spec.C18
import NgoVerif.Proofs.C18
/-!
# C18 — property theorems (statements only; helper lemmas live in `Proofs/C18.lean`)
-/
namespace NgoVerif
open Spec

/-- Completeness: every predicate that occurs in a rule or objective and is never a positive head atom is
reported.  `_partial`: the collectors look only at atoms whose symbol is a `Function`; a pooled atom `d(1;2)` is
missed (`C18_input_complete_counterexample`, defect D9). -/
theorem C18_input_complete_partial (prg : Prog) (p : Pred)
    (hplain : ∀ s ∈ prg, PlainAtoms s)
    (hocc : ∃ s ∈ prg, Occurs s p) (hnh : ∀ s ∈ prg, ¬ PosHead s p) :
    p ∈ autoDetectInput prg :=
  Proofs.C18.input_complete prg p hplain hocc hnh

/-- the full statement (without the pool hypothesis) is false of the model, hence — by the correspondence — of
the code: `:- d(1;2), e.  e :- not f.` -/
theorem C18_input_complete_counterexample :
    ∃ (prg : Prog) (p : Pred), (∃ s ∈ prg, Occurs s p) ∧ (∀ s ∈ prg, ¬ PosHead s p) ∧ p ∉ autoDetectInput prg :=
  Proofs.C18.input_complete_counterexample

/-- Exclusion: a predicate with a defining statement whose body does not mention it is never reported. -/
theorem C18_input_excludes (prg : Prog) (p : Pred)
    (hplain : ∀ s ∈ prg, PlainAtoms s)
    (h : ∃ s ∈ prg, PosHead s p ∧ ¬ BodyOccurs s p) :
    p ∉ autoDetectInput prg :=
  Proofs.C18.input_excludes prg p hplain h

/-- Output: exactly the shown predicates (for programs whose `#show` conditions have plain atoms). -/
theorem C18_output_exact (prg : Prog) (p : Pred)
    (hplain : ∀ s ∈ prg, ∀ t b, s = Stm.showTerm t b → ∀ x ∈ bodyAtoms b, x.2.isFn = true) :
    p ∈ autoDetectOutput prg ↔ Shown prg p :=
  Proofs.C18.output_exact prg p hplain

/-- the returned list is duplicate free -/
theorem C18_output_nodup (prg : Prog) : (autoDetectOutput prg).Nodup :=
  Proofs.C18.output_nodup prg

/-- non-vacuity: a program on which all three clauses say something -/
example : autoDetectInput
    [Stm.rule 1 1 (.lit (.pos, .sym (.fn "a" [] false))) [.lit (.neg, .sym (.fn "b" [.var "X"] false))]]
    = [⟨"b", 1⟩] := by decide

end NgoVerif
