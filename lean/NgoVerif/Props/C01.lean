import NgoVerif.Meta.Compose
import NgoVerif.Model.Api
import NgoVerif.Props.C03
/-!
# C01 — the optimised program has the same answer sets on the output predicates

`optimize` is `preprocess`, then a loop of pass applications, then `postprocess`.  C01 is the *composition* of the
per-pass guarantees (C05, C08–C16): proved here is that the composition is sound for any number of pass
applications and loop iterations (`C01_compose`), that an observation on IN ∪ OUT or on the whole source vocabulary
gives the one on OUT (`C01_coarsen`), that a one-to-one conservative extension gives it as well
(`C01_from_consext`), that satisfiability never changes (`C01_sat`), and that the model's loop applies exactly the
enabled passes in the documented order (`C03_iteration_stages`, `C01_schedule`).
The per-pass premises are proved only as far as the per-pass property files say; they are validated on the real
code by the clingo oracle under all trait subsets, so C01 as a whole is `_partial`: exactly as strong as the weakest
pass lemma (see DESIGN.md §9).
-/
namespace NgoVerif
open Compose

theorem C01_compose {Prog Inst Model Obs : Type} (AS : Prog → Inst → Model → Prop) (obs : Model → Obs)
    (P : Prog) (steps : List Prog) (h : Chain (EquivOn AS obs) P steps) :
    EquivOn AS obs P ((P :: steps).getLast (List.cons_ne_nil _ _)) :=
  chain_equiv P steps h

theorem C01_coarsen {Prog Inst Model Obs Obs' : Type} (AS : Prog → Inst → Model → Prop) (obs : Model → Obs)
    (f : Obs → Obs') (P Q : Prog) (h : EquivOn AS obs P Q) : EquivOn AS (f ∘ obs) P Q :=
  EquivOn.coarsen f h

theorem C01_from_consext {Prog Inst Model Obs : Type} (AS : Prog → Inst → Model → Prop) (proj : Model → Model)
    (obs : Model → Obs) (P Q : Prog) (h : ConsExt AS proj P Q) (hobs : ∀ m, obs (proj m) = obs m) :
    EquivOn AS obs P Q :=
  ConsExt.equivOn h hobs

/-- "In particular satisfiability never changes." -/
theorem C01_sat {Prog Inst Model Obs : Type} (AS : Prog → Inst → Model → Prop) (obs : Model → Obs) (P Q : Prog)
    (h : EquivOn AS obs P Q) (I : Inst) : (∃ m, AS P I m) ↔ (∃ m, AS Q I m) :=
  EquivOn.sat h I

/-- the run of the model of `api.optimize` *is* such a chain: every state it goes through is obtained from the
previous one by one enabled pass, `exline` or `postprocess`; this is the shape `C01_compose` needs -/
theorem C01_schedule (flags : List (String × Bool)) (n : Nat) :
    traceStages flags n = "preprocess" :: (List.replicate n (iterationStages flags)).flatten ++ ["postprocess"] := rfl

/-- what a constructor parameter of a pass class must be given inside `optimize` -/
def expectedArg : String → String
  | "prg" => "input_"
  | p => p            -- `input_predicates`, `output_predicates`: the caller's declarations, under the same name

/-- **every pass is wired to the declarations it is written for**: in `api.optimize` (read from the source on every
run by `harness/extract_tables.py`) each pass class is constructed with the current program for `prg`, the caller's
`input_predicates` for its parameter `input_predicates` and the caller's `output_predicates` for `output_predicates`,
is executed on the current program and its result becomes the current program.  A pass that received the wrong
declaration list would protect the wrong predicates: the per-pass properties (C08–C16) are stated for the declared
IN/OUT, so this table theorem is what lets C01 compose them. -/
theorem C01_wiring :
    Tables.API_ARGS.map (fun x => (x.1, x.2.1)) = Tables.CTOR_PARAMS.map (fun x => (x.1, x.2.map expectedArg)) ∧
    Tables.API_ARGS.all (fun x => x.2.2.1 == "input_" && x.2.2.2 == "input_") = true ∧
    Tables.API_ARGS.map (·.1) = Tables.API_ORDER.map (·.1) := by decide

end NgoVerif
