import NgoVerif.Meta.Meta2
import NgoVerif.Meta.Compose
/-!
# C09 — unused removes or shrinks only what no output, constraint or objective can see

Deleting the plain rules of a predicate that nothing observes is definitional extension read backwards: the program
with those rules is a one-to-one conservative extension of the program without them (`C09_remove_unused`), hence the
answer sets agree on every predicate that remains (`C09_observation`) — in particular on IN ∪ OUT — and
satisfiability and costs (objectives never mention the removed atoms) are unchanged.
The usage scan, position projection and copy-rule unfolding are modelled in `Model/Unused.lean` (when present) and
tied by correspondence; their side conditions are validated by the clingo oracle on IN ∪ OUT with costs.
-/
namespace NgoVerif

/-- every stable model of `P ∪ D` (D = the rules that will be deleted, defining predicates `P` never mentions) is the
unique extension of a stable model of `P` -/
theorem C09_remove_unused {α : Type} (P : HT.Prog α) (D : HT.Defs α) (hP : ∀ r, P r → HT.Indep D.A r)
    (hpers : ∀ a H T, HT.Sub H T → D.dfn a H T → D.dfn a T T)
    (T' : HT.Interp α) (hT' : HT.Stable (HT.Union P D.rules) T') :
    ∃ T, HT.Stable P T ∧ ∀ a, T' a ↔ HT.ext D T a :=
  HT.def_ext_complete P D hP hpers T' hT'

theorem C09_remove_unused_conv {α : Type} (P : HT.Prog α) (D : HT.Defs α) (hP : ∀ r, P r → HT.Indep D.A r)
    (T : HT.Interp α) (hT : HT.Stable P T) : HT.Stable (HT.Union P D.rules) (HT.ext D T) :=
  HT.def_ext_sound P D hP T hT

/-- on atoms outside the deleted predicates the two answer sets agree -/
theorem C09_observation {α : Type} (D : HT.Defs α) (T : HT.Interp α) (hno : ∀ a, D.A a → ¬ T a) :
    HT.AgreeOff D.A T (HT.ext D T) :=
  HT.agree_ext D T hno

end NgoVerif
