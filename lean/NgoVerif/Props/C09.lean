import NgoVerif.Proofs.C10multi
import NgoVerif.Generated.Tables
import NgoVerif.Meta.Meta2
import NgoVerif.Meta.Compose
import NgoVerif.Model.Unused
import NgoVerif.Proofs.C09link
/-!
# C09 — unused removes or shrinks only what no output, constraint or objective can see

Deleting the plain rules of a predicate that nothing observes is definitional extension read backwards: the program
with those rules is a one-to-one conservative extension of the program without them (`C09_remove_unused`), hence the
answer sets agree on every predicate that remains (`C09_observation`) — in particular on IN ∪ OUT — and
satisfiability and costs (objectives never mention the removed atoms) are unchanged.
The usage scan, position projection and copy-rule unfolding are modelled in `Model/Unused.lean` (when present) and
tied by correspondence; their side conditions are validated by the clingo oracle on IN ∪ OUT with costs.
-/
namespace NgoVerif

/-- every stable model of `P ∪ D` (D = the rules that will be deleted, defining predicates `P` never mentions) is the
unique extension of a stable model of `P` -/
theorem C09_remove_unused {α : Type} (P : HT.Prog α) (D : HT.Defs α) (hP : ∀ r, P r → HT.Indep D.A r)
    (hpers : ∀ a H T, HT.Sub H T → D.dfn a H T → D.dfn a T T)
    (T' : HT.Interp α) (hT' : HT.Stable (HT.Union P D.rules) T') :
    ∃ T, HT.Stable P T ∧ ∀ a, T' a ↔ HT.ext D T a :=
  HT.def_ext_complete P D hP hpers T' hT'

theorem C09_remove_unused_conv {α : Type} (P : HT.Prog α) (D : HT.Defs α) (hP : ∀ r, P r → HT.Indep D.A r)
    (T : HT.Interp α) (hT : HT.Stable P T) : HT.Stable (HT.Union P D.rules) (HT.ext D T) :=
  HT.def_ext_sound P D hP T hT

/-- on atoms outside the deleted predicates the two answer sets agree -/
theorem C09_observation {α : Type} (D : HT.Defs α) (T : HT.Interp α) (hno : ∀ a, D.A a → ¬ T a) :
    HT.AgreeOff D.A T (HT.ext D T) :=
  HT.agree_ext D T hno


/-! ## decision kernel of the model of `unused.py` (`Model/Unused.lean`, tied to the code by `corr_unused.py`) -/
open Unused

theorem mem_range_lt {i n : Nat} (h : i < n) : i ∈ List.range n := List.mem_range.mpr h

/-- **interface predicates are fully used**: every argument position of an input or output predicate is marked used
by the usage scan, whatever the program looks like -/
theorem C09_interface_positions_used (prg : Prog) (inputs outputs : List Pred) (p : Pred)
    (hp : p ∈ inputs ∨ p ∈ outputs) (i : Nat) (hi : i < p.arity) :
    posUsed (analyzeUsage prg inputs outputs) p i = true := by
  unfold posUsed analyzeUsage
  rw [List.any_eq_true]
  refine ⟨fullEvent p, ?_, ?_⟩
  · apply List.mem_append_right
    apply List.mem_map.mpr
    exact ⟨p, by simpa [List.mem_append] using hp, rfl⟩
  · simp only [fullEvent, beq_self_eq_true, Bool.true_and, List.contains_iff_mem]
    exact mem_range_lt hi

/-- … and so are the predicates named by a `#show p/n.` statement -/
theorem C09_shown_positions_used (prg : Prog) (inputs outputs : List Pred) (n : String) (a : Nat) (pos : Bool)
    (hs : Stm.showSig n a pos ∈ prg) (i : Nat) (hi : i < a) :
    posUsed (analyzeUsage prg inputs outputs) ⟨n, a⟩ i = true := by
  unfold posUsed analyzeUsage
  rw [List.any_eq_true]
  refine ⟨fullEvent ⟨n, a⟩, ?_, ?_⟩
  · apply List.mem_append_left
    exact List.mem_flatMap.mpr ⟨_, hs, by simp [stmEvents]⟩
  · simp only [fullEvent, beq_self_eq_true, Bool.true_and, List.contains_iff_mem]
    exact mem_range_lt hi

theorem keepUsed_all (ev : List Event) (p : Pred) :
    ∀ (as : List Term) (i : Nat), (∀ j, i ≤ j → j < i + as.length → posUsed ev p j = true) → keepUsed ev p i as = as
  | [], _, _ => rfl
  | a :: as, i, h => by
    simp only [keepUsed, h i (Nat.le_refl _) (by simp), if_true]
    rw [keepUsed_all ev p as (i + 1) (fun j hj hj' => h j (by omega) (by simp only [List.length_cons]; omega))]

/-- **atoms over interface predicates keep all their arguments** (and their name): `project_used_positions` leaves
them alone -/
theorem C09_interface_atoms_kept (prg : Prog) (inputs outputs : List Pred) (memo : List ((Pred × Pred) × String))
    (name : String) (args : List Term) (ext : Bool)
    (hp : (⟨name, args.length⟩ : Pred) ∈ inputs ∨ (⟨name, args.length⟩ : Pred) ∈ outputs) :
    transformSym (analyzeUsage prg inputs outputs) memo (.fn name args ext) = .fn name args ext := by
  have hk : keepUsed (analyzeUsage prg inputs outputs) ⟨name, args.length⟩ 0 args = args :=
    keepUsed_all _ _ args 0 (fun j _ hj => C09_interface_positions_used prg inputs outputs _ hp j (by simpa using hj))
  simp [transformSym, target?, hk]

/-- **rules defining an interface predicate are never removed as unused** -/
theorem C09_interface_rules_kept (prg : Prog) (inputs outputs added : List Pred) (l c : Nat) (name : String)
    (args : List Term) (ext : Bool) (b : List BLit)
    (hp : (⟨name, args.length⟩ : Pred) ∈ inputs ∨ (⟨name, args.length⟩ : Pred) ∈ outputs) :
    removable (analyzeUsage prg inputs outputs) added (.rule l c (.lit (.pos, .sym (.fn name args ext))) b) = false := by
  have hu : isUsed (analyzeUsage prg inputs outputs) ⟨name, args.length⟩ = true := by
    unfold isUsed analyzeUsage
    rw [List.any_eq_true]
    exact ⟨fullEvent _, List.mem_append_right _ (List.mem_map.mpr ⟨_, by simpa [List.mem_append] using hp, rfl⟩),
      by simp [fullEvent]⟩
  simp [removable, hu]

/-- only plain rules are ever removed: constraints, choices, objectives and directives stay -/
theorem C09_only_plain_rules_removed (ev : List Event) (added : List Pred) (s : Stm) (h : removable ev added s = true) :
    ∃ l c name args ext b, s = .rule l c (.lit (.pos, .sym (.fn name args ext))) b := by
  unfold removable at h
  split at h
  · rename_i l c name args ext b; exact ⟨l, c, name, args, ext, b, rfl⟩
  · cases h

/-! ## end to end, for typed programs: decision of the model ⇒ one-to-one correspondence of answer sets, equal costs

`Sem.stdParams P` is the here-and-there semantics of typed programs with the standard head semantics
(`Sem/Head.lean`), for *every* choice `P` of the arithmetic, comparison and aggregate parameters whose aggregates are
persistent.  `C09sem.keep n k prg` is `prg` without the plain rules of `n/k` - what `remove_unused` of the model returns
when `n/k` is the only removable predicate; for several predicates the step is iterated (`C09_unused_keep`). -/
open Proofs.C09sem Proofs.C09link in
/-- **decision ⇒ side condition** (`Proofs/C09link.lean`) -/
theorem C09_decision_implies_unused (prg : Prog) (inputs outputs added : List Pred) (hok : ∀ s ∈ prg, stmOk s = true)
    (l c : Nat) (name : String) (args : List Term) (ext : Bool) (b : List BLit)
    (hrem : removable (analyzeUsage prg inputs outputs) added (.rule l c (.lit (.pos, .sym (.fn name args ext))) b) = true) :
    Proofs.C09sem.Unused name args.length prg :=
  removable_unused prg inputs outputs added hok l c name args ext b hrem

open Proofs.C09sem Proofs.C09link in
/-- **every answer set of the source is the unique extension of an answer set of the result, and they agree on every
other predicate** -/
theorem C09_removal_complete (P : Sem.Params) (hp : Sem.AggPersistent P) (prg : Prog) (inputs outputs added : List Pred)
    (hok : ∀ s ∈ prg, stmOk s = true) (l c : Nat) (name : String) (args : List Term) (ext : Bool) (b : List BLit)
    (hrem : removable (analyzeUsage prg inputs outputs) added (.rule l c (.lit (.pos, .sym (.fn name args ext))) b) = true)
    (T' : Sem.Interp) (hT' : Sem.Stable (Sem.stdParams P) prg T') :
    ∃ T, Sem.Stable (Sem.stdParams P) (keep name args.length prg) T ∧
      (∀ a, T' a ↔ extend P name args.length prg T a) ∧
      (∀ a, ¬ Sem.named (Sem.predSig name args.length) a → (T a ↔ T' a)) :=
  unused_complete P hp name args.length prg (removable_unused prg inputs outputs added hok l c name args ext b hrem) T' hT'

open Proofs.C09sem Proofs.C09link in
/-- **every answer set of the result extends to an answer set of the source** -/
theorem C09_removal_sound (P : Sem.Params) (prg : Prog) (inputs outputs added : List Pred)
    (hok : ∀ s ∈ prg, stmOk s = true) (l c : Nat) (name : String) (args : List Term) (ext : Bool) (b : List BLit)
    (hrem : removable (analyzeUsage prg inputs outputs) added (.rule l c (.lit (.pos, .sym (.fn name args ext))) b) = true)
    (T : Sem.Interp) (hT : Sem.Stable (Sem.stdParams P) (keep name args.length prg) T) :
    Sem.Stable (Sem.stdParams P) prg (extend P name args.length prg T) :=
  unused_sound P name args.length prg (removable_unused prg inputs outputs added hok l c name args ext b hrem) T hT

open Proofs.C09sem in
/-- **costs are kept**: interpretations that agree off `n/k` give every objective that does not mention `n/k` the same
cost tuples -/
theorem C09_removal_costs (P : Sem.Params) (n : Sem.Sig) (s : Stm) (hav : stmAvoids n s = true) (T T' : Sem.Interp)
    (hag : Sem.AgreeOffName n T T') (x : Sym × Sym × List Sym) :
    Sem.costTuples (Sem.stdParams P) T s x ↔ Sem.costTuples (Sem.stdParams P) T' s x :=
  unused_costs P n s hav T T' hag x

open Proofs.C09sem in
/-- the executable check the driver runs on the programs the real pass removed rules from implies the side condition -/
theorem C09_check_sound (n : String) (k : Nat) (prg : Prog) (h : unusedCheck n k prg = true) : Unused n k prg :=
  unusedCheck_sound n k prg h

open Proofs.C09sem in
/-- **the display is kept**: a `#show t : B.` statement that does not mention `n/k` shows the same terms -/
theorem C09_removal_shown (P : Sem.Params) (n : Sem.Sig) (s : Stm) (hav : stmAvoids n s = true) (T T' : Sem.Interp)
    (hag : Sem.AgreeOffName n T T') (x : Sym) : shownTerms P T s x ↔ shownTerms P T' s x :=
  unused_shown P n s hav T T' hag x

open Proofs.C09sem in
/-- the side condition survives the removal of another predicate's rules: the step can be iterated -/
theorem C09_unused_keep (n m : String) (k j : Nat) (prg : Prog) (h : Unused n k prg) : Unused n k (keep m j prg) :=
  fun s hs => h s (List.mem_filter.mp hs).1

/-! non-vacuity: a program on which the model's decision fires (`a(X) :- c(X).` with `c/1` input, `d/0` output), and
one on which it does not (the output predicate's own rule) -/
section Example
open Proofs.C09link
private def r1 : Stm := .rule 1 1 (.lit (.pos, .sym (.fn "a" [.var "X"] false))) [.lit (.pos, .sym (.fn "c" [.var "X"] false))]
private def r2 : Stm := .rule 2 1 (.lit (.pos, .sym (.fn "d" [] false))) [.lit (.neg, .sym (.fn "c" [.sym (.num 1)] false))]
example : removable (analyzeUsage [r1, r2] [⟨"c", 1⟩] [⟨"d", 0⟩]) [] r1 = true := by
  simp [removable, analyzeUsage, isUsed, r1, r2, stmEvents, bodyEvents, blitEvents, BLit.collect, BLit.terms, litTerms,
    Atom.terms, Term.collect, Term.isFn, fnEvent, headEvents, fullEvent]
example : removable (analyzeUsage [r1, r2] [⟨"c", 1⟩] [⟨"d", 0⟩]) [] r2 = false := by
  simp [removable, analyzeUsage, isUsed, r1, r2, stmEvents, bodyEvents, blitEvents, BLit.collect, BLit.terms, litTerms,
    Atom.terms, Term.collect, Term.isFn, fnEvent, headEvents, fullEvent]
example : ∀ s ∈ [r1, r2], stmOk s = true := by simp [r1, r2, stmOk, headLitOk]
end Example

/-- `api.optimize` (read from the source on every run) constructs this pass with the current program and the caller's
own declaration lists, under the parameter names the class declares, and replaces the current program by its result -/
theorem C09_wiring :
    Tables.API_ARGS.lookup "unused" = some (["input_", "input_predicates", "output_predicates"], "input_", "input_") ∧
    Tables.CTOR_PARAMS.lookup "unused" = some ["prg", "input_predicates", "output_predicates"] := by decide

open Proofs.C10multi in
/-- **unfolding a copy rule at positive body literals**: `remove_single_copies` replaces `a(σV̄)` by the body of the single rule `a(V̄) :- B.`; while that rule is still in the program the two programs have the SAME stable models (`Proofs/C10multi.fold_all_existing` read left to right); deleting the rule afterwards is `C09_removal_*`. Uses under negation, in conditions and in aggregate elements are not covered by this statement (findings D31, D35 live there). -/
theorem C09_copy_unfold_positive (P : Sem.Params) (hpers : Sem.AggPersistent P) (c : Canon) (ps : List Place) (hne : 0 < ps.length)
    (hps : ∀ p ∈ ps, PlaceOk c p) (ctx : Prog) (hctx : CtxAvoids c ctx) (T : Sem.Interp) :
    Sem.Stable (Sem.stdParams P) (after c ps ctx) T ↔ Sem.Stable (Sem.stdParams P) (beforeWith c ps ctx) T :=
  fold_all_existing P hpers c ps hne hps ctx hctx T

/-! non-vacuity of the executable check: in `u(X) :- d(X).  a(X) :- d(X).  #show a/1.` the predicate `u/1` is defined
and not used, so removing its rule keeps the answer sets up to `u/1` -/
namespace C09ex
open Proofs.C09sem Sem
def atomL (n : String) (vs : List String) : BLit := .lit (.pos, .sym (.fn n (vs.map Term.var) false))
def headL (n : String) (vs : List String) : Head := .lit (.pos, .sym (.fn n (vs.map Term.var) false))
def prg : Prog :=
  [.rule 1 1 (headL "u" ["X"]) [atomL "d" ["X"]], .rule 2 1 (headL "a" ["X"]) [atomL "d" ["X"]], .showSig "a" 1 true]
set_option maxRecDepth 4000 in
theorem check : unusedCheck "u" 1 prg = true := by
  simp [unusedCheck, prg, headL, atomL, defRule, stmAvoids, predSig, headAvoids, bodyAvoids, blitAvoids, atomAvoids]
example (P : Params) (T : Interp) (hT : Stable (stdParams P) (keep "u" 1 prg) T) :
    Stable (stdParams P) prg (extend P "u" 1 prg T) :=
  unused_sound P "u" 1 prg (C09_check_sound "u" 1 prg check) T hT
end C09ex

end NgoVerif
