import NgoVerif.Proofs.C18
import NgoVerif.Props.C08
import NgoVerif.Props.C07
/-!
# C17 — optimize is pure: reproducible, history-independent, leaves its argument alone

Model functions are functions, so determinism of the model is vacuous and is **not** claimed as a result.  The
provable content is *order-insensitivity at the places where Python iterates hash-ordered containers*: for each
such site the model's result depends on the container only as a set.
* `auto_detect_input`: membership in the result is invariant under any reordering/duplication of the collected
  predicates (`C17_detect_input_perm`);
* `CleanupTranslator._superseeded`: the `for m in self.superseeds` search succeeds or fails independently of the
  iteration order (`C17_superseeds_order`, for error-free runs);
* `UniqueNames`: which name is handed out depends only on the *set* of known predicates (`C17_names_set`).
Hash seeds, `functools.cache` keyed by object identity, aliasing through `AST.update()` and in-place list edits are
runtime behaviour no Lean model exhibits; they are observed on the real code (subprocesses under different
PYTHONHASHSEEDs, repeated calls in one process, argument snapshots before/after the call).
-/
namespace NgoVerif
open Cleanup

theorem C17_detect_input_perm (l l' : List Pred) (h : ∀ x, x ∈ l ↔ x ∈ l') (x : Pred) :
    x ∈ sortDedup l ↔ x ∈ sortDedup l' := by
  rw [Proofs.C18.mem_sortDedup, Proofs.C18.mem_sortDedup, h]

/-- the any-search over the mapping set: if no lookup errs, success only depends on the set of mappings -/
theorem anyFits_true_iff {lp rp : Pred} {s : Sign} {la ra : List Term} :
    ∀ (ms : List Mapping), (∀ m ∈ ms, ∃ b, fitsMapping m lp rp s la ra = .ok b) →
      (anyFits lp rp s la ra ms = .ok true ↔ ∃ m ∈ ms, fitsMapping m lp rp s la ra = .ok true)
  | [], _ => by simp [anyFits, pure, Except.pure]
  | m :: ms, hok => by
    obtain ⟨b, hb⟩ := hok m List.mem_cons_self
    have ih := anyFits_true_iff ms (fun m' hm' => hok m' (List.mem_cons_of_mem _ hm'))
    unfold anyFits
    rw [hb]
    cases b with
    | true =>
      simp only [bind, Except.bind, if_true, pure, Except.pure, true_iff]
      exact ⟨m, List.mem_cons_self, hb⟩
    | false =>
      simp only [bind, Except.bind, Bool.false_eq_true, if_false]
      rw [ih]
      constructor
      · rintro ⟨m', hm', h'⟩; exact ⟨m', List.mem_cons_of_mem _ hm', h'⟩
      · rintro ⟨m', hm', h'⟩
        rcases List.mem_cons.mp hm' with rfl | hm'
        · rw [hb] at h'; cases h'
        · exact ⟨m', hm', h'⟩

theorem C17_superseeds_order {lp rp : Pred} {s : Sign} {la ra : List Term} (ms ms' : List Mapping)
    (hset : ∀ m, m ∈ ms ↔ m ∈ ms')
    (hok : ∀ m ∈ ms, ∃ b, fitsMapping m lp rp s la ra = .ok b) :
    anyFits lp rp s la ra ms = .ok true ↔ anyFits lp rp s la ra ms' = .ok true := by
  have hok' : ∀ m ∈ ms', ∃ b, fitsMapping m lp rp s la ra = .ok b := fun m hm => hok m ((hset m).mpr hm)
  rw [anyFits_true_iff ms hok, anyFits_true_iff ms' hok']
  constructor
  · rintro ⟨m, hm, h⟩; exact ⟨m, (hset m).mp hm, h⟩
  · rintro ⟨m, hm, h⟩; exact ⟨m, (hset m).mpr hm, h⟩

/-- the candidate search of the name generators only asks "is this name known?" -/
theorem findFree_set (mk : Nat → Pred) (known known' : List Pred) (h : ∀ p, p ∈ known ↔ p ∈ known') :
    ∀ fuel k, findFree mk known fuel k = findFree mk known' fuel k
  | 0, _ => rfl
  | fuel + 1, k => by
    unfold findFree
    have : known.contains (mk k) = known'.contains (mk k) := by
      rw [Bool.eq_iff_iff]; simp [h]
    rw [this, findFree_set mk known known' h fuel (k + 1)]

theorem C17_names_set (mk : Nat → Pred) (known known' : List Pred) (h : ∀ p, p ∈ known ↔ p ∈ known')
    (fuel k : Nat) : findFree mk known fuel k = findFree mk known' fuel k :=
  findFree_set mk known known' h fuel k

end NgoVerif
