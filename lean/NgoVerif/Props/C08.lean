import NgoVerif.Generated.Tables
import NgoVerif.Model.Cleanup
import NgoVerif.Meta.M6
import NgoVerif.Proofs.C08sem
import NgoVerif.Proofs.StrongEq
import NgoVerif.Proofs.C08impl
import NgoVerif.Proofs.C08trans
import NgoVerif.Proofs.C08anon
import NgoVerif.Proofs.C08anonStm
import NgoVerif.Proofs.C08anonObj
import NgoVerif.Proofs.C10multi
/-!
# C08 — cleanup deletes only literals and rules that cannot matter

Three layers:
* **semantic schema** (ground level, here-and-there): removing a positive body atom `b` next to `p` is
  stable-model preserving when every rule that can derive `p` (plain or choice head) carries `b` in its body —
  `C08_remove_implied_positive` (M6⁺, definite-reduct class: bodies monotone in `H`) and supportedness
  `C08_supported` (M5), which is what makes a mapping computed as an *intersection over all defining rules* sound;
* **decision kernel of the model of `cleanup.py`** (`Model/Cleanup.lean`, tied to the code by correspondence):
  `_superseeded` never lets a positive atom supersede the *negated* atom of the same predicate, respects argument
  positions, and uses a mapping only with the sign it was recorded with; boolean elimination is sound for any
  literal semantics in which `#true` holds and `#false` does not;
* what is **not** proved: the step from the syntactic mappings to the ground-level side condition of the schema
  (intersection over rules, transitive closure, instance facts over input predicates).  That step is validated on the
  real code by the clingo oracle; the defect classes found there are listed in `known_findings.json` (D24–D26).
-/
namespace NgoVerif
open Cleanup

/-- M5: in a stable model of a program of the definite-reduct class every true atom is derived by a rule whose body
holds. -/
theorem C08_supported {α : Type} [DecidableEq α] {P : M6.Prog α} (hmono : M6.Mono P) {T : M6.Interp α}
    (hS : M6.Stable P T) (p : α) (hp : T p) : ∃ r, P r ∧ M6.Derives r p ∧ r.body T T :=
  M6.supported hmono hS p hp

/-- M6⁺: deleting the body atom `b` from `hd ← p ∧ b ∧ rest` keeps the stable models when every rule deriving `p`
has `b` in its body. -/
theorem C08_remove_implied_positive {α : Type} [DecidableEq α] (P : M6.Prog α) (hmono : M6.Mono P) (p b : α)
    (rest : M6.Interp α → M6.Interp α → Prop) (hd : M6.GHead α) (hhd : hd ≠ .atom p ∧ hd ≠ .choice p)
    (hrestmono : ∀ H₁ H₂ T, M6.Sub H₁ H₂ → M6.Sub H₂ T → rest H₁ T → rest H₂ T)
    (r₀ : M6.GRule α) (hr₀ : r₀ = ⟨hd, fun H T => H p ∧ H b ∧ rest H T⟩) (hin : P r₀)
    (himp : ∀ r, P r → M6.Derives r p → ∀ H T, r.body H T → H b) (T : M6.Interp α) :
    M6.Stable P T ↔
      M6.Stable (fun r => (P r ∧ r ≠ r₀) ∨ r = (⟨hd, fun H T => H p ∧ rest H T⟩ : M6.GRule α)) T :=
  M6.remove_implied_pos P hmono p b rest hd hhd hrestmono r₀ hr₀ hin himp T

/-! ## decision kernel of `_superseeded` -/

theorem fitsMapping_guard {m : Mapping} {lp rp : Pred} {s : Sign} {la ra : List Term}
    (h : fitsMapping m lp rp s la ra = .ok true) :
    m.headPred = lp ∧ m.bodyPred.pred = rp ∧ m.bodyPred.sign = s := by
  unfold fitsMapping at h
  split at h
  · rename_i hg
    simp only [Bool.and_eq_true, beq_iff_eq] at hg
    exact ⟨hg.1.1, hg.1.2, hg.2⟩
  · cases h

theorem anyFits_exists {lp rp : Pred} {s : Sign} {la ra : List Term} :
    ∀ {ms : List Mapping}, anyFits lp rp s la ra ms = .ok true → ∃ m ∈ ms, fitsMapping m lp rp s la ra = .ok true
  | [], h => by simp [anyFits, pure, Except.pure] at h
  | m :: ms, h => by
    unfold anyFits at h
    cases hf : fitsMapping m lp rp s la ra with
    | error e => rw [hf] at h; simp [bind, Except.bind] at h
    | ok b =>
      rw [hf] at h
      cases b with
      | true => exact ⟨m, List.mem_cons_self, hf⟩
      | false =>
        simp only [bind, Except.bind, Bool.false_eq_true, if_false] at h
        obtain ⟨m', hm', hf'⟩ := anyFits_exists h
        exact ⟨m', List.mem_cons_of_mem _ hm', hf'⟩

/-- **A negative literal is never treated as implied by the positive atom of the same predicate; only positive
literals supersede; a recorded implication is used only with the sign it was recorded with.** -/
theorem C08_sign_respected (sups : List Mapping) (lhs rhs : Lit) (ln rn : String) (largs rargs : List Term)
    (hl : litSymbol? lhs = some (ln, largs)) (hr : litSymbol? rhs = some (rn, rargs))
    (h : superseededLit sups lhs rhs = .ok true) :
    lhs.1 = .pos ∧
    ((⟨ln, largs.length⟩ : Pred) = ⟨rn, rargs.length⟩ → rhs.1 ≠ .neg ∧ sameArgs largs rargs = true) ∧
    ((⟨ln, largs.length⟩ : Pred) ≠ ⟨rn, rargs.length⟩ →
      ∃ m ∈ sups, m.headPred = ⟨ln, largs.length⟩ ∧ m.bodyPred.pred = ⟨rn, rargs.length⟩ ∧ m.bodyPred.sign = rhs.1) := by
  unfold superseededLit at h
  rw [hl, hr] at h
  simp only at h
  by_cases hp : (lhs.1 != Sign.pos) = true
  · simp [hp, pure, Except.pure] at h
  · have hpos : lhs.1 = .pos := by simpa using hp
    simp only [hp, Bool.false_eq_true, if_false] at h
    refine ⟨hpos, ?_, ?_⟩
    · intro heq
      have hb : ((⟨ln, largs.length⟩ : Pred) == ⟨rn, rargs.length⟩) = true := by simpa using heq
      simp only [hb, if_true] at h
      by_cases hn : (rhs.1 == Sign.neg) = true
      · simp [hn, pure, Except.pure] at h
      · simp only [hn, Bool.false_eq_true, if_false, pure, Except.pure, Except.ok.injEq] at h
        exact ⟨by simpa using hn, h⟩
    · intro hne
      have hb : ((⟨ln, largs.length⟩ : Pred) == ⟨rn, rargs.length⟩) = false := by simpa using hne
      simp only [hb, Bool.false_eq_true, if_false] at h
      obtain ⟨m, hm, hf⟩ := anyFits_exists h
      exact ⟨m, hm, fitsMapping_guard hf⟩

/-- argument positions are respected in the same-predicate branch: position-wise equal or `_` on the right -/
theorem C08_same_args (l r : Term) (ls rs : List Term) (h : sameArgs (l :: ls) (r :: rs) = true) :
    (isAnonVar r = true ∨ (l == r) = true) ∧ sameArgs ls rs = true := by
  simpa [sameArgs] using h

/-! ## booleans: sound for every literal semantics in which `#true` holds and `#false` does not -/

theorem C08_remove_true_sound (sat : BLit → Prop) (htrue : ∀ l, blitTrue l = true → sat l) (body : List BLit) :
    (∀ l ∈ body, sat l) ↔ (∀ l ∈ removeTrueBLits body, sat l) := by
  unfold removeTrueBLits
  constructor
  · intro h l hl; exact h l (List.mem_filter.mp hl).1
  · intro h l hl
    by_cases ht : blitTrue l = true
    · exact htrue l ht
    · exact h l (List.mem_filter.mpr ⟨hl, by simpa using ht⟩)

theorem C08_contains_false_sound (sat : BLit → Prop) (hfalse : ∀ l, blitFalse l = true → ¬ sat l) (body : List BLit)
    (h : containsFalseBLits body = true) : ¬ ∀ l ∈ body, sat l := by
  unfold containsFalseBLits at h
  obtain ⟨l, hl, hf⟩ := List.any_eq_true.mp h
  exact fun hall => hfalse l hf (hall l hl)

/-- a literal is never both constant-true and constant-false -/
theorem C08_true_false_exclusive (l : Lit) : ¬ (litTrue l = true ∧ litFalse l = true) := by
  obtain ⟨s, a⟩ := l
  cases s <;> cases a <;> simp [litTrue, litFalse]

/-- non-vacuity: `p(X), not p(X)` keeps its negative literal, `p(X), p(_)` loses the weaker one -/
example :
    (match superseededLit [] (.pos, .sym (.fn "p" [.var "X"] false)) (.neg, .sym (.fn "p" [.var "X"] false)) with
      | .ok b => b == false | _ => false) = true ∧
    (match superseededLit [] (.pos, .sym (.fn "p" [.var "X"] false)) (.pos, .sym (.fn "p" [.var "_"] false)) with
      | .ok b => b == true | _ => false) = true := by
  decide


/-- **End-to-end for the model function `remove_boolean`** (the function the correspondence ties to `cleanup.py`):
for every environment, here-and-there pair and choice of semantic parameters, the cleaned body has the same
denotation as the original one (conditional literals and aggregate element conditions included), and a body is
discarded — the statement deleted — only if it can never hold. -/
theorem C08_remove_boolean_sound (P : Sem.Params) (G : String → Prop) (e : Sem.Env) (H T : Sem.Interp) (b : List BLit) :
    match removeBooleanBody b with
    | some b' => (Sem.bodySat P G e H T b' ↔ Sem.bodySat P G e H T b)
    | none => ¬ Sem.bodySat P G e H T b :=
  Proofs.C08sem.removeBooleanBody_sound P G e H T b


/-- **Program level**: the boolean step of `cleanup` (`remove_boolean` on every statement, statements whose body
contains `#false` dropped) is a strong equivalence for every head semantics: "a statement is deleted only if its body
can never hold" and nothing else changes meaning. -/
theorem C08_remove_boolean_strongeq (P : Sem.PParams) (prg : Prog) :
    Sem.StrongEq P prg (prg.filterMap removeBoolean) :=
  Proofs.StrongEq.removeBoolean_strongEq P prg


/-! ## the implied-literal step, for typed programs (`Proofs/C08impl.lean`) -/
open Proofs.C08impl in
/-- **deleting a positive body literal that another body literal implies keeps the answer sets**, from an executable
check on the syntax.  `R.src` is `pre ++ [head :- q(t̄), body] ++ post`, `R.res` the same with `q(t̄)` deleted; the check
(`impliedCheck`) says: every statement is in the fragment (heads: a plain literal, or a choice `lg { a : c̄ ; … } rg` of
positive atoms under plain conditions; bodies and conditions: symbolic literals of any sign, comparisons, boolean
constants), `p(s̄)` is among the remaining body literals, `q(t̄)` has no variable of its own, and every rule whose head is an
atom of `p/|s̄|` - every choice element whose atom is one - has a positive literal `q(w̄)` in its body (its condition) in
which each `w_j` is a variable standing at a position of the derived atom where `p(s̄)` carries `t_j`, or the constant
`t_j`.  Standard head semantics, every choice of the arithmetic / comparison parameters in which the bounds of a choice
(double negation) are evaluated in the total interpretation (`DnegOld`).
The literal may stand anywhere in the body (`bb` has the same literals as `q(t̄) :: body`).  The proof is the argument of
`C08_remove_implied_positive` (ground level, one rule) redone for all instances of the rewritten rule at once:
supportedness of stable models in this fragment and the least model below `T`. -/
theorem C08_remove_implied_typed (P : Sem.Params) (hdn : DnegOld P) (R : Rewrite) (bb : List BLit)
    (hsame : sameLits bb (R.qLit :: R.body) = true) (h : impliedCheck R = true) (T : Sem.Interp) :
    Sem.Stable (Sem.stdParams P) (R.pre ++ .rule R.line R.col R.head bb :: R.post) T ↔
      Sem.Stable (Sem.stdParams P) R.res T := by
  rw [(Proofs.C10stm.models_swap P (.rule R.line R.col R.head bb) (.rule R.line R.col R.head (R.qLit :: R.body))
    (fun H T' => Proofs.C10multi.stmSat_same_body P R.line R.col R.line R.col R.head bb (R.qLit :: R.body)
      (sameLits_sound _ _ hsame) H T')
    R.pre R.post).stable]
  exact remove_implied_of_check P hdn R h T


open Proofs.C08impl Proofs.C08trans in
/-- **… also when the implication runs through a chain of predicates** (`transitive_closure` of cleanup): `impliedCheckT fuel`
follows `p ⟸ r ⟸ … ⟸ q` to depth `fuel`, composing the argument maps (position `i` of the implying atom, or a constant) along
the way; stable models and the least model below one are supported interpretations, in which the chain can be followed -/
theorem C08_remove_implied_typed_chain (P : Sem.Params) (hdn : DnegOld P) (fuel : Nat) (R : Rewrite) (bb : List BLit)
    (hsame : sameLits bb (R.qLit :: R.body) = true) (h : impliedCheckT fuel R = true) (T : Sem.Interp) :
    Sem.Stable (Sem.stdParams P) (R.pre ++ .rule R.line R.col R.head bb :: R.post) T ↔
      Sem.Stable (Sem.stdParams P) R.res T := by
  rw [(Proofs.C10stm.models_swap P (.rule R.line R.col R.head bb) (.rule R.line R.col R.head (R.qLit :: R.body))
    (fun H T' => Proofs.C10multi.stmSat_same_body P R.line R.col R.line R.col R.head bb (R.qLit :: R.body)
      (sameLits_sound _ _ hsame) H T')
    R.pre R.post).stable]
  exact remove_implied_of_checkT P hdn fuel R h T

open Proofs.C08impl in
/-- the executable check implies the semantic side condition -/
theorem C08_implied_check_sound (P : Sem.Params) (R : Rewrite) (h : impliedCheck R = true) : Ok R.src ∧ Implied P R :=
  impliedCheck_sound P R h

open Proofs.C08impl in
/-- in the fragment every atom of an answer set is supported by a rule instance whose body holds -/
theorem C08_supported_typed (P : Sem.Params) (hdn : DnegOld P) (prg : Prog) (hok : Ok prg) (T : Sem.Interp)
    (hS : Sem.Stable (Sem.stdParams P) prg T) (a : Sem.GAtom) (ha : T a) : Derives P prg a T T :=
  supported P hdn prg hok hS a ha

/-! non-vacuity: `b(X) :- a(X).  foo(X) :- a(X), b(X).` - cleanup deletes `a(X)` from the second rule (the stored demo of
the README); the check passes, so the theorem applies -/
namespace C08ex
open Proofs.C08impl Sem
def atomL (n : String) (vs : List String) : BLit := .lit (.pos, .sym (.fn n (vs.map Term.var) false))
def headL (n : String) (vs : List String) : Head := .lit (.pos, .sym (.fn n (vs.map Term.var) false))
def R : Rewrite :=
  { pre := [.rule 1 1 (headL "b" ["X"]) [atomL "a" ["X"]],
            -- `{ b(X) : a(X) } :- c(X).`: a second way to derive `b`, through a choice element whose condition carries `a(X)`
            .rule 1 2 (.agg none [((.pos, .sym (.fn "b" [.var "X"] false)), [(.pos, .sym (.fn "a" [.var "X"] false))])] none) [atomL "c" ["X"]]], post := [.rule 3 1 (.lit (.pos, .bool false)) [atomL "foo" ["Y"], .lit (.pos, .cmp (.var "Y") [⟨.gt, .sym (.num 3)⟩])]],
    line := 2, col := 1, head := headL "foo" ["X"], body := [atomL "b" ["X"]], pn := "b", pargs := [.var "X"], qn := "a", qargs := [.var "X"] }
set_option maxRecDepth 4000 in
theorem check : impliedCheck R = true := by
  simp [impliedCheck, R, Rewrite.src, Rewrite.pLit, Rewrite.qLit, okStm, plainHead, plainBody, plainBLit, plainLit, plainElem, headL, atomL,
    ruleImplies, qMatch, qVarsOk, posArgOk, blitMem, blitEqb, litEqb, atomEqb, termsEqb, termEqb, stdHeadGlobals, bodyGlobals, blitGlobals,
    litVars, litTerms, Atom.terms, Term.vars]
example (P : Params) (hdn : DnegOld P) (T : Interp) :
    Stable (stdParams P) (R.pre ++ .rule 2 1 (headL "foo" ["X"]) [atomL "a" ["X"], atomL "b" ["X"]] :: R.post) T ↔ Stable (stdParams P) R.res T :=
  C08_remove_implied_typed P hdn R [atomL "a" ["X"], atomL "b" ["X"]]
    (by simp [sameLits, R, Rewrite.qLit, atomL, blitMem, blitEqb, litEqb, atomEqb, termsEqb, termEqb]) check T
end C08ex



open Proofs.C08impl in
/-- **an implied literal deleted from the body of an objective** (fragment and check as for rules): the program has the
same stable models, and in every stable model the objective contributes the same cost tuples (C02) -/
theorem C08_remove_implied_in_objective (P : Sem.Params) (hdn : DnegOld P) (R : ObjRewrite) (bb : List BLit)
    (hsame : sameLits bb (R.qLit :: R.body) = true) (h : objImpliedCheck R = true) (T : Sem.Interp) :
    (Sem.Stable (Sem.stdParams P) R.src T ↔ Sem.Stable (Sem.stdParams P) R.res T) ∧
      (Sem.Stable (Sem.stdParams P) R.src T →
        ∀ tup, Sem.costTuples (Sem.stdParams P) T (.minimize R.line R.col R.weight R.prio R.terms bb) tup ↔
          Sem.costTuples (Sem.stdParams P) T R.resStm tup) :=
  ⟨(obj_of_check P hdn R h T).1, fun hS tup =>
    (Proofs.C08anonObj.costTuples_same_body (Sem.stdParams P) R.line R.col R.line R.col R.weight R.prio R.terms bb (R.qLit :: R.body)
      (sameLits_sound _ _ hsame) T tup).trans ((obj_of_check P hdn R h T).2 hS tup)⟩

/-! ## a weaker copy of a body literal (`p(X), p(_)`), for every program (`Proofs/C08anon.lean`) -/
open Proofs.C08anon in
/-- **deleting `p(t̄)` next to `p(s̄)` is a strong equivalence** when `t̄` is `s̄` with some arguments replaced by distinct
variables that occur nowhere else in the rule (the anonymous variables, renamed apart): from the executable `anonCheck`,
in ANY program - aggregates, conditional literals, disjunctive and choice heads included - under the standard head
semantics and every choice of the parameters.  `bb` is the body before the deletion, with the literal anywhere. -/
theorem C08_remove_weaker_copy_strongeq (P : Sem.Params) (A : Anon) (bb : List BLit)
    (hsame : Proofs.C08impl.sameLits bb (A.qLit :: A.body) = true) (h : anonCheck A = true) (pre post : Prog) :
    Sem.StrongEq (Sem.stdParams P) (pre ++ .rule A.line A.col A.head bb :: post) (pre ++ A.res :: post) := by
  intro H T
  rw [(Proofs.C10stm.models_swap P (.rule A.line A.col A.head bb) A.src
    (fun H' T' => Proofs.C10multi.stmSat_same_body P A.line A.col A.line A.col A.head bb (A.qLit :: A.body)
      (Proofs.C08impl.sameLits_sound _ _ hsame) H' T') pre post) H T]
  exact anon_strongEq P A h pre post H T

/-! non-vacuity: `c(X) :- b(X,Y), b(X,_).` (the anonymous variable renamed to `_#1`) -/
namespace C08anonEx
open Proofs.C08anon Sem
def A : Anon :=
  { line := 1, col := 1, head := .lit (.pos, .sym (.fn "c" [.var "X"] false)),
    body := [.lit (.pos, .sym (.fn "b" [.var "X", .var "Y"] false)), .lit (.neg, .sym (.fn "e" [.var "Y"] false))],
    pn := "b", sargs := [.var "X", .var "Y"], targs := [.var "X", .var "_#1"], F := ["_#1"] }
set_option maxRecDepth 4000 in
theorem check : anonCheck A = true := by
  simp [anonCheck, A, Anon.pLit, fresh?, isFresh, freshNames, blitMem, blitEqb, litEqb, atomEqb, termsEqb, termEqb, BLit.vars,
    BLit.terms, litTerms, Atom.terms, Term.vars, Head.vars, Head.terms]
example (P : Params) (pre post : Prog) : StrongEq (stdParams P) (pre ++ A.src :: post) (pre ++ A.res :: post) :=
  anon_strongEq P A check pre post
end C08anonEx


open Proofs.C08anonCond Proofs.C08anonStm in
/-- **the same inside a condition**: a weaker copy deleted from the condition of a conditional literal of the body, or
from the condition of an element of a body aggregate, is a strong equivalence in any program - the local environment of
the condition gives the fresh variables the values of the stronger copy.  `condCheck` gets the variables of the rule
outside of the shortened condition (`outsideClit` / `outsideBagg`): the fresh ones are in none of them. -/
theorem C08_remove_weaker_copy_in_condition (P : Sem.Params) (A : CondAnon) (l c : Nat) (h : Head) (pre post : List BLit)
    (cfull : List Lit) (hsame : sameLitList cfull (A.qLit :: A.cond) = true) (ctxPre ctxPost : Prog) :
    (∀ hd, condCheck A (outsideClit h pre post hd) = true →
      Sem.StrongEq (Sem.stdParams P) (ctxPre ++ .rule l c h (pre ++ .clit (hd, cfull) :: post) :: ctxPost)
        (ctxPre ++ .rule l c h (pre ++ .clit (hd, A.cond) :: post) :: ctxPost)) ∧
    (∀ s ln cl lg rg f epre epost ts, condCheck A (outsideBagg h pre post lg rg epre epost ts) = true →
      Sem.StrongEq (Sem.stdParams P)
        (ctxPre ++ .rule l c h (pre ++ .lit (s, .bagg ln cl lg f (epre ++ (ts, cfull) :: epost) rg) :: post) :: ctxPost)
        (ctxPre ++ .rule l c h (pre ++ .lit (s, .bagg ln cl lg f (epre ++ (ts, A.cond) :: epost) rg) :: post) :: ctxPost)) :=
  ⟨fun hd hc => Proofs.C10stm.models_swap P _ _ (fun H T => clit_stmSat P A l c h pre post hd cfull hsame hc H T) ctxPre ctxPost,
   fun s ln cl lg rg f epre epost ts hc =>
    Proofs.C10stm.models_swap P _ _ (fun H T => bagg_stmSat P A l c h pre post s ln cl lg rg f epre epost ts cfull hsame hc H T)
      ctxPre ctxPost⟩


open Proofs.C08anonObj in
/-- **in an objective**: `:~ …, p(s̄), p(t̄), … . [w@p,t̄']` and the statement without the weaker copy `p(t̄)` contribute the
same ground cost tuples in EVERY total interpretation (so the cost of every answer set is kept, C02), from the executable
`objCheck` -/
theorem C08_weaker_copy_in_objective_costs (P : Sem.PParams) (A : ObjAnon) (bb : List BLit)
    (hsame : Proofs.C08impl.sameLits bb (A.qLit :: A.body) = true) (h : objCheck A = true) (T : Sem.Interp)
    (tup : Sym × Sym × List Sym) :
    Sem.costTuples P T (.minimize A.line A.col A.weight A.prio A.terms bb) tup ↔ Sem.costTuples P T A.res tup :=
  (costTuples_same_body P A.line A.col A.line A.col A.weight A.prio A.terms bb (A.qLit :: A.body)
    (Proofs.C08impl.sameLits_sound _ _ hsame) T tup).trans (obj_costs_of_check P A h T tup)

/-! non-vacuity: `ok(X) :- d(X), 1 <= #sum { 1,Y : b(X,Y), b(X,_) }.` -/
namespace C08condEx
open Proofs.C08anonCond Proofs.C08anonStm Proofs.C08anon Sem
def A : CondAnon :=
  { cond := [(.pos, .sym (.fn "b" [.var "X", .var "Y"] false))], pn := "b", sargs := [.var "X", .var "Y"],
    targs := [.var "X", .var "_#1"], F := ["_#1"] }
def hd : Head := .lit (.pos, .sym (.fn "ok" [.var "X"] false))
def pre : List BLit := [.lit (.pos, .sym (.fn "d" [.var "X"] false))]
set_option maxRecDepth 4000 in
theorem check : condCheck A (outsideBagg hd pre [] (some ⟨.le, .sym (.num 1)⟩) none [] [] [.sym (.num 1), .var "Y"]) = true ∧
    sameLitList [(.pos, .sym (.fn "b" [.var "X", .var "Y"] false)), A.qLit] (A.qLit :: A.cond) = true := by
  simp [condCheck, sameLitList, A, hd, pre, CondAnon.pLit, CondAnon.qLit, outsideBagg, isFresh, freshNames, litEqb, atomEqb, termsEqb,
    termEqb, litsTerms, litTerms, Atom.terms, Term.vars, Head.vars, Head.terms, BLit.vars, BLit.terms, optGuardTerms, bElemsTerms]
example (P : Params) (ctx : Prog) :
    StrongEq (stdParams P)
      (ctx ++ .rule 1 1 hd (pre ++ .lit (.pos, .bagg 1 1 (some ⟨.le, .sym (.num 1)⟩) .sum
        ([] ++ ([.sym (.num 1), .var "Y"], [(.pos, .sym (.fn "b" [.var "X", .var "Y"] false)), A.qLit]) :: []) none) :: []) :: [])
      (ctx ++ .rule 1 1 hd (pre ++ .lit (.pos, .bagg 1 1 (some ⟨.le, .sym (.num 1)⟩) .sum
        ([] ++ ([.sym (.num 1), .var "Y"], A.cond) :: []) none) :: []) :: []) :=
  (C08_remove_weaker_copy_in_condition P A 1 1 hd pre [] _ check.2 ctx []).2 .pos 1 1 _ none .sum [] [] _ check.1
end C08condEx


/-! non-vacuity of the chain: `b(X) :- d(X).  a(X) :- b(X).  c(X) :- a(X), d(X).` - `d(X)` follows from `a(X)` through `b(X)` -/
namespace C08chainEx
open Proofs.C08impl Proofs.C08trans Sem
def atomL (n : String) (vs : List String) : BLit := .lit (.pos, .sym (.fn n (vs.map Term.var) false))
def headL (n : String) (vs : List String) : Head := .lit (.pos, .sym (.fn n (vs.map Term.var) false))
def R : Rewrite :=
  { pre := [.rule 1 1 (headL "b" ["X"]) [atomL "d" ["X"]], .rule 2 1 (headL "a" ["X"]) [atomL "b" ["X"]]], post := [],
    line := 3, col := 1, head := headL "c" ["X"], body := [atomL "a" ["X"]], pn := "a", pargs := [.var "X"], qn := "d", qargs := [.var "X"] }
set_option maxRecDepth 8000 in
theorem check : impliedCheckT 2 R = true := by
  simp [impliedCheckT, entCheck, stmYields, litYields, mapOfArgs, argSrc, pullback, pullArg, compose, composeArg, mapEqb, ArgSrc.eqb,
    R, Rewrite.src, Rewrite.pLit, Rewrite.qLit, okStm, plainHead, plainBody, plainBLit, plainLit, headL, atomL, qVarsOk, blitMem, blitEqb,
    litEqb, atomEqb, termsEqb, termEqb, stdHeadGlobals, bodyGlobals, blitGlobals, litVars, litTerms, Atom.terms, Term.vars,
    List.findIdx?_cons]
example (P : Params) (hdn : DnegOld P) (T : Interp) :
    Stable (stdParams P) (R.pre ++ .rule 3 1 (headL "c" ["X"]) [atomL "a" ["X"], atomL "d" ["X"]] :: R.post) T ↔ Stable (stdParams P) R.res T :=
  C08_remove_implied_typed_chain P hdn 2 R [atomL "a" ["X"], atomL "d" ["X"]]
    (by simp [sameLits, R, Rewrite.qLit, atomL, blitMem, blitEqb, litEqb, atomEqb, termsEqb, termEqb]) check T
end C08chainEx

/-- `api.optimize` (read from the source on every run) constructs this pass with the current program and the caller's
own declaration lists, under the parameter names the class declares, and replaces the current program by its result -/
theorem C08_wiring :
    Tables.API_ARGS.lookup "cleanup" = some (["input_predicates"], "input_", "input_") ∧
    Tables.CTOR_PARAMS.lookup "cleanup" = some ["input_predicates"] := by decide

end NgoVerif
