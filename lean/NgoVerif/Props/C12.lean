import NgoVerif.Meta.Algebra
import NgoVerif.Meta.M4
import NgoVerif.Generated.Tables
import NgoVerif.Proofs.C12pos
/-!
# C12 — minmax_chains: chains compute the same #min/#max, including the empty case

Ground-level content of the chain encoding over a finite domain `D` with covering relation `next`:
`chain(v)` ⇔ some selected element is ≥ v ⇔ v ≤ max (`C12_chain`); the result rule
`max(v) :- chain(v), not chain(n) : next(v,n)` picks exactly the maximum (`C12_result_is_max`), *provided a selected
element exists*: with none selected no chain atom holds and the result must come from the `#inf/#sup` rule, whose body
needs the domain's extreme element — on an empty domain nothing is derived (finding D1).  The chain and next
predicates are positive-recursive definitions: their least-fixpoint extension is stable (`C12_chain_rules_sound`,
M4 ⇒).  Differences along the chain add up to the extreme value (`C12_telescope`).
-/
namespace NgoVerif

theorem C12_chain (S : Finset Int) (m : Int) (hm : m ∈ S) (hmax : ∀ s ∈ S, s ≤ m) (v : Int) :
    Alg.chainAt S v ↔ v ≤ m :=
  Alg.chain_iff_le_max S m hm hmax v

theorem C12_result_is_max (D S : Finset Int) (hSD : S ⊆ D) (m : Int) (hm : m ∈ S) (hmax : ∀ s ∈ S, s ≤ m)
    (next : Int → Int → Prop)
    (hnext : ∀ a b, next a b ↔ a ∈ D ∧ b ∈ D ∧ a < b ∧ ∀ c ∈ D, ¬ (a < c ∧ c < b)) (v : Int) (hv : v ∈ D) :
    (Alg.chainAt S v ∧ ∀ n, next v n → ¬ Alg.chainAt S n) ↔ v = m :=
  Alg.result_is_max D S hSD m hm hmax next hnext v hv

/-- the empty case: with no selected element there is no chain atom at all, so the chain rules alone derive no
result — the `#inf/#sup` rule has to (and cannot on an empty domain: D1) -/
theorem C12_empty_no_chain (v : Int) : ¬ Alg.chainAt ∅ v := by
  rintro ⟨s, hs, _⟩; simp at hs

theorem C12_chain_rules_sound {α : Type} (P : HT.Prog α) (D : HT.RDefs α) (hP : ∀ r, P r → HT.Indep D.A r)
    (T : HT.Interp α) (hT : HT.Stable P T) (hno : ∀ a, D.A a → ¬ T a) :
    HT.Stable (HT.Union P D.prog) (HT.rext D T) :=
  HT.rdef_ext_sound P D hP T hT hno

theorem C12_telescope (a : Int) (l : List Int) : a + Alg.tele (a :: l) = (a :: l).getLast (List.cons_ne_nil _ _) :=
  Alg.tele_eq a l

/-- **The chain variable replaces the result, not a group variable**: `_create_replacement` overwrites position
`mapping[idx]` of the translated argument list, `idx` being the result's position in the old atom.  That position holds the
old atom's result argument (no later argument is mapped to it).  Before the repair ad92bf8 the position `idx` itself was
overwritten, which is a different one as soon as the result is not the last argument of the head (`res(X,P)`). -/
theorem C12_result_position (mapping : List (Option Nat)) (args : List Term) (out : List (Option Term)) (idx j : Nat)
    (h : MinMax.translateParameters mapping args = .ok out) (hidx : mapping[idx]? = some (some j))
    (hlast : ∀ k, idx < k → mapping[k]? ≠ some (some j)) :
    (out[j]?).join = args[idx]? :=
  Proofs.C12pos.go_position args mapping args [] out idx j h hidx hlast

/-- non-vacuity: `res(X,P)` over the chain predicate `chain(P,X)`: the result `X` (old position 0) sits at new position 1 -/
example : MinMax.translateParameters [some 1, some 0] [.var "X", .var "P"] = .ok [some (.var "P"), some (.var "X")] := by rfl

/-- `api.optimize` (read from the source on every run) constructs this pass with the current program and the caller's
own declaration lists, under the parameter names the class declares, and replaces the current program by its result -/
theorem C12_wiring :
    Tables.API_ARGS.lookup "minmax_chains" = some (["input_", "input_predicates"], "input_", "input_") ∧
    Tables.CTOR_PARAMS.lookup "minmax_chains" = some ["prg", "input_predicates"] := by decide

end NgoVerif
