import NgoVerif.Proofs.C10multi
import NgoVerif.Generated.Tables
import NgoVerif.Meta.Algebra
import NgoVerif.Meta.Meta2
/-!
# C15 — inline: unfolding an aggregate-defining rule into its one user keeps values

Unfolding `helper(V̄,S) :- body, S = #agg{…}` into the one element that uses `S` as its weight replaces a sum of
per-group sums by one sum over the union of the groups' tuple sets: exact iff those sets are pairwise disjoint, i.e.
iff the outer tuple determines the helper's arguments (`C15_sum_of_sums`; counterexample `C15_counterexample` = D11).
Removing the helper rule afterwards is definitional extension read backwards (`C15_remove_helper`).
-/
namespace NgoVerif

theorem C15_sum_of_sums {G T : Type} [DecidableEq T] (groups : Finset G) (elems : G → Finset T) (w : T → Int)
    (hdisj : ∀ g ∈ groups, ∀ g' ∈ groups, g ≠ g' → Disjoint (elems g) (elems g')) :
    ∑ t ∈ groups.biUnion elems, w t = ∑ g ∈ groups, ∑ t ∈ elems g, w t :=
  Alg.sum_flatten groups elems w hdisj

theorem C15_counterexample :
    ∃ (groups : Finset Bool) (elems : Bool → Finset Int) (w : Int → Int),
      ∑ t ∈ groups.biUnion elems, w t ≠ ∑ g ∈ groups, ∑ t ∈ elems g, w t :=
  Alg.sum_flatten_counterexample

theorem C15_remove_helper {α : Type} (P : HT.Prog α) (D : HT.Defs α) (hP : ∀ r, P r → HT.Indep D.A r)
    (hpers : ∀ a H T, HT.Sub H T → D.dfn a H T → D.dfn a T T)
    (T' : HT.Interp α) (hT' : HT.Stable (HT.Union P D.rules) T') :
    ∃ T, HT.Stable P T ∧ ∀ a, T' a ↔ HT.ext D T a :=
  HT.def_ext_complete P D hP hpers T' hT'

/-- `api.optimize` (read from the source on every run) constructs this pass with the current program and the caller's
own declaration lists, under the parameter names the class declares, and replaces the current program by its result -/
theorem C15_wiring :
    Tables.API_ARGS.lookup "inline" = some (["input_", "input_predicates", "output_predicates"], "input_", "input_") ∧
    Tables.CTOR_PARAMS.lookup "inline" = some ["prg", "input_predicates", "output_predicates"] := by decide

open Proofs.C10multi in
/-- **inlining a helper into positive body literals**: with the helper rule `s(V̄) :- B.` in the program, the rules `headᵢ :- restᵢ, s(σᵢ V̄).` (`after`) and the rules `headᵢ :- restᵢ ∪ σᵢ B.` (`beforeWith`) give the SAME stable models - all places of use at once, typed programs, standard head semantics, any parameters with persistent aggregates (`Proofs/C10multi.fold_all_existing`). Removing the helper afterwards is `C09_removal_*`. The aggregate branch of `inline` (sum of sums) is not covered by this statement. -/
theorem C15_inline_positive_body (P : Sem.Params) (hpers : Sem.AggPersistent P) (c : Canon) (ps : List Place) (hne : 0 < ps.length)
    (hps : ∀ p ∈ ps, PlaceOk c p) (ctx : Prog) (hctx : CtxAvoids c ctx) (T : Sem.Interp) :
    Sem.Stable (Sem.stdParams P) (after c ps ctx) T ↔ Sem.Stable (Sem.stdParams P) (beforeWith c ps ctx) T :=
  fold_all_existing P hpers c ps hne hps ctx hctx T

end NgoVerif
