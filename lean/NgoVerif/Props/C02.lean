import NgoVerif.Meta.Compose
import NgoVerif.Meta.Algebra
import NgoVerif.Props.C08
import NgoVerif.Props.C09
/-!
# C02 — optimisation statements keep the cost of every answer set

C02 is C01 with the cost vector added to the observation, so composition is the same theorem (`C02_compose`); the
cost-specific content is aggregate algebra over *sets* of weighted tuples:
telescoping chain weights add up to the original value (`C02_telescope`), unfolding a sum-valued weight into one
weak constraint per element is exact iff the produced tuples stay distinct (`C02_flatten`, counterexample
`C02_flatten_counterexample` = D11/D13).  The side conditions (tuple uniqueness, group arguments not anonymous) are
what the passes decide syntactically; that decision is validated on the real code by the cost-aware clingo oracle.
-/
namespace NgoVerif
open Compose

theorem C02_compose {Prog Inst Model Obs : Type} (AS : Prog → Inst → Model → Prop) (obsWithCost : Model → Obs)
    (P : Prog) (steps : List Prog) (h : Chain (EquivOn AS obsWithCost) P steps) :
    EquivOn AS obsWithCost P ((P :: steps).getLast (List.cons_ne_nil _ _)) :=
  chain_equiv P steps h

/-- base weight of the least domain value plus one difference per chain step = the chosen value -/
theorem C02_telescope (a : Int) (l : List Int) (k : Nat) (hk : k ≤ l.length) :
    a + Alg.tele ((a :: l).take (k + 1)) = (a :: l)[k]'(by simp; omega) :=
  Alg.tele_take a l k hk

theorem C02_flatten {G T : Type} [DecidableEq T] (groups : Finset G) (elems : G → Finset T) (w : T → Int)
    (hdisj : ∀ g ∈ groups, ∀ g' ∈ groups, g ≠ g' → Disjoint (elems g) (elems g')) :
    ∑ t ∈ groups.biUnion elems, w t = ∑ g ∈ groups, ∑ t ∈ elems g, w t :=
  Alg.sum_flatten groups elems w hdisj

theorem C02_flatten_counterexample :
    ∃ (groups : Finset Bool) (elems : Bool → Finset Int) (w : Int → Int),
      ∑ t ∈ groups.biUnion elems, w t ≠ ∑ g ∈ groups, ∑ t ∈ elems g, w t :=
  Alg.sum_flatten_counterexample

/-! ## costs are kept by the rewrites that are proved for typed programs -/

open Proofs.C08anonObj in
/-- `cleanup`, a weaker copy deleted from an objective: the same cost tuples in every total interpretation -/
theorem C02_cleanup_weaker_copy (P : Sem.PParams) (A : ObjAnon) (bb : List BLit)
    (hsame : Proofs.C08impl.sameLits bb (A.qLit :: A.body) = true) (h : objCheck A = true) (T : Sem.Interp)
    (tup : Sym × Sym × List Sym) :
    Sem.costTuples P T (.minimize A.line A.col A.weight A.prio A.terms bb) tup ↔ Sem.costTuples P T A.res tup :=
  C08_weaker_copy_in_objective_costs P A bb hsame h T tup

open Proofs.C08impl in
/-- `cleanup`, an implied literal deleted from an objective: the same cost tuples in every stable model -/
theorem C02_cleanup_implied (P : Sem.Params) (hdn : DnegOld P) (R : ObjRewrite) (bb : List BLit)
    (hsame : sameLits bb (R.qLit :: R.body) = true) (h : objImpliedCheck R = true) (T : Sem.Interp)
    (hS : Sem.Stable (Sem.stdParams P) R.src T) (tup : Sym × Sym × List Sym) :
    Sem.costTuples (Sem.stdParams P) T (.minimize R.line R.col R.weight R.prio R.terms bb) tup ↔
      Sem.costTuples (Sem.stdParams P) T R.resStm tup :=
  (C08_remove_implied_in_objective P hdn R bb hsame h T).2 hS tup

open Proofs.C09sem in
/-- `unused`, rules of an unobservable predicate removed: an objective that does not mention it has the same cost tuples in
two interpretations that agree off it (the answer sets correspond one-to-one by `C09_removal_sound/complete`) -/
theorem C02_unused_costs (P : Sem.Params) (n : Sem.Sig) (s : Stm) (hav : stmAvoids n s = true) (T T' : Sem.Interp)
    (hag : Sem.AgreeOffName n T T') (tup : Sym × Sym × List Sym) :
    Sem.costTuples (Sem.stdParams P) T s tup ↔ Sem.costTuples (Sem.stdParams P) T' s tup :=
  C09_removal_costs P n s hav T T' hag tup

end NgoVerif
