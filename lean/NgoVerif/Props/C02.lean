import NgoVerif.Meta.Compose
import NgoVerif.Meta.Algebra
/-!
# C02 — optimisation statements keep the cost of every answer set

C02 is C01 with the cost vector added to the observation, so composition is the same theorem (`C02_compose`); the
cost-specific content is aggregate algebra over *sets* of weighted tuples:
telescoping chain weights add up to the original value (`C02_telescope`), unfolding a sum-valued weight into one
weak constraint per element is exact iff the produced tuples stay distinct (`C02_flatten`, counterexample
`C02_flatten_counterexample` = D11/D13).  The side conditions (tuple uniqueness, group arguments not anonymous) are
what the passes decide syntactically; that decision is validated on the real code by the cost-aware clingo oracle.
-/
namespace NgoVerif
open Compose

theorem C02_compose {Prog Inst Model Obs : Type} (AS : Prog → Inst → Model → Prop) (obsWithCost : Model → Obs)
    (P : Prog) (steps : List Prog) (h : Chain (EquivOn AS obsWithCost) P steps) :
    EquivOn AS obsWithCost P ((P :: steps).getLast (List.cons_ne_nil _ _)) :=
  chain_equiv P steps h

/-- base weight of the least domain value plus one difference per chain step = the chosen value -/
theorem C02_telescope (a : Int) (l : List Int) (k : Nat) (hk : k ≤ l.length) :
    a + Alg.tele ((a :: l).take (k + 1)) = (a :: l)[k]'(by simp; omega) :=
  Alg.tele_take a l k hk

theorem C02_flatten {G T : Type} [DecidableEq T] (groups : Finset G) (elems : G → Finset T) (w : T → Int)
    (hdisj : ∀ g ∈ groups, ∀ g' ∈ groups, g ≠ g' → Disjoint (elems g) (elems g')) :
    ∑ t ∈ groups.biUnion elems, w t = ∑ g ∈ groups, ∑ t ∈ elems g, w t :=
  Alg.sum_flatten groups elems w hdisj

theorem C02_flatten_counterexample :
    ∃ (groups : Finset Bool) (elems : Bool → Finset Int) (w : Int → Int),
      ∑ t ∈ groups.biUnion elems, w t ≠ ∑ g ∈ groups, ∑ t ∈ elems g, w t :=
  Alg.sum_flatten_counterexample

end NgoVerif
