import NgoVerif.Proofs.C16stm
import NgoVerif.Proofs.C16heads
import NgoVerif.Generated.Tables
import NgoVerif.Model.Projection
import NgoVerif.Meta.Fold
import NgoVerif.Props.C07
import NgoVerif.Proofs.C16sem
/-!
# C16 — projection: a split rule derives exactly what the unsplit rule derived

* **semantic schema** (ground level): introducing fresh atoms by definitions whose bodies do not mention them, and
  folding those bodies inside other rules, keeps the stable models one-to-one (`C16_extension_sound`,
  `C16_extension_complete`, `C16_fold` = M3, M3 converse, M3f);
* **decision kernel of the model of `projection.py`**: whenever `good_split` accepts, the moved part binds all its
  variables (the auxiliary rule is safe by ngo's analysis), the remaining rule is safe given the interface variables,
  the interface is exactly `globals(new) ∩ (vars(rest) ∪ globals(head))`, no variable that is global in the rule is
  local inside the moved part, the rest keeps a positive atom, and aggregates are never on both sides
  (`C16_good_split_sound`); the emitted rules have the schema's shape with a fresh auxiliary predicate
  (`C16_split_shape`);
* not proved: that ngo's binding analysis agrees with gringo's safety and that the syntactic side condition implies
  the ground-level one; both are validated on the real code with clingo (`unsafe` rejection, answer sets one-to-one).
-/
namespace NgoVerif

/-- M3 ⇒ : a stable model of `P` extends to a stable model of `P ∪ D` -/
theorem C16_extension_sound {α : Type} (P : HT.Prog α) (D : HT.Defs α) (hP : ∀ r, P r → HT.Indep D.A r)
    (T : HT.Interp α) (hT : HT.Stable P T) : HT.Stable (HT.Union P D.rules) (HT.ext D T) :=
  HT.def_ext_sound P D hP T hT

/-- M3 ⇐ : every stable model of `P ∪ D` is the extension of a stable model of `P` (persistent definitions) -/
theorem C16_extension_complete {α : Type} (P : HT.Prog α) (D : HT.Defs α) (hP : ∀ r, P r → HT.Indep D.A r)
    (hpers : ∀ a H T, HT.Sub H T → D.dfn a H T → D.dfn a T T)
    (T' : HT.Interp α) (hT' : HT.Stable (HT.Union P D.rules) T') :
    ∃ T, HT.Stable P T ∧ ∀ a, T' a ↔ HT.ext D T a :=
  HT.def_ext_complete P D hP hpers T' hT'

/-- M3f : replacing the defining body of an auxiliary atom by the atom inside other rules keeps the stable models of
`P ∪ D`.  Together with the two theorems above: `{aux(t̄) :- N.  h :- R, aux(t̄).}` is a conservative, one-to-one
extension of `h :- N, R.` -/
theorem C16_fold {α : Type} (P Pf : HT.Prog α) (D : HT.Defs α) (hP : ∀ r, P r → HT.Indep D.A r)
    (hpers : ∀ a H T, HT.Sub H T → D.dfn a H T → D.dfn a T T)
    (hF : HT.Folding D P Pf) (T' : HT.Interp α) :
    HT.Stable (HT.Union P D.rules) T' ↔ HT.Stable (HT.Union Pf D.rules) T' :=
  HT.fold_stable P Pf D hP hpers hF T'

theorem C16_good_split_sound (new rest : List BLit) (head : Head) (body : List BLit) (t : List String)
    (h : goodSplit new rest head body = .ok (some t)) :
    ∃ gNew gHead globalOld bNew bRest,
      globalVarsInsideBody new = .ok gNew ∧ globalVarsInsideHead head = .ok gHead ∧
      globalVarsInsideBody body = .ok globalOld ∧
      bindingBody new = .ok (bNew, []) ∧
      bindingBody rest (some (vInter gNew (vUnion (varsOfNoAnon rest) gHead))) = .ok (bRest, []) ∧
      t = sortNames (vInter gNew (vUnion (varsOfNoAnon rest) gHead)) ∧
      vInter (vDiff (varsOfNoAnon new) gNew) globalOld = [] ∧
      rest.any BLit.isTruePredicate = true ∧
      (new.any BLit.hasBodyAgg && rest.any BLit.hasBodyAgg) = false := by
  unfold goodSplit at h
  simp only [bind, Except.bind, pure, Except.pure] at h
  split at h
  · cases h
  · cases hbn : bindingBody new with
    | error e => rw [hbn] at h; cases h
    | ok r1 =>
      obtain ⟨bNew, unb⟩ := r1
      rw [hbn] at h
      simp only at h
      split at h
      · cases h
      · rename_i hunb
        have hunb' : unb = [] := by simpa using hunb
        subst hunb'
        cases hgn : globalVarsInsideBody new with
        | error e => rw [hgn] at h; cases h
        | ok gNew =>
          rw [hgn] at h
          simp only at h
          cases hgh : globalVarsInsideHead head with
          | error e => rw [hgh] at h; cases h
          | ok gHead =>
            rw [hgh] at h
            simp only at h
            cases hbr : bindingBody rest (some (vInter gNew (vUnion (varsOfNoAnon rest) gHead))) with
            | error e => rw [hbr] at h; cases h
            | ok r2 =>
              obtain ⟨bRest, unbR⟩ := r2
              rw [hbr] at h
              simp only at h
              split at h
              · cases h
              · rename_i hunbR
                have hunbR' : unbR = [] := by simpa using hunbR
                subst hunbR'
                cases hgo : globalVarsInsideBody body with
                | error e => rw [hgo] at h; cases h
                | ok globalOld =>
                  rw [hgo] at h
                  simp only at h
                  split at h
                  · cases h
                  · rename_i hloc
                    split at h
                    · cases h
                    · split at h
                      · cases h
                      · split at h
                        · cases h
                        · rename_i htrue
                          split at h
                          · cases h
                          · rename_i hagg
                            split at h
                            · cases h
                            · simp only [Except.ok.injEq, Option.some.injEq] at h
                              refine ⟨gNew, gHead, globalOld, bNew, bRest, rfl, rfl, rfl, rfl, hbr, h.symm, ?_, ?_, ?_⟩
                              · simpa using hloc
                              · simpa using htrue
                              · simpa using hagg


/-- the rules emitted for an accepted split: the auxiliary rule's body is the moved part, its head is a *fresh*
predicate over the interface variables, and the original rule keeps its head and the rest of its body -/
theorem C16_split_shape (un un' : UniqueNames) (line col : Nat) (head : Head) (body : List BLit)
    (cands : List (List BLit)) (out : List Stm)
    (h : projectLoop un line col head body cands = .ok (out, un')) :
    out = [.rule line col head body] ∨
    ∃ new vars aux, new ∈ cands ∧
      goodSplit new (body.filter fun x => !x.memAst new) head body = .ok (some vars) ∧
      un.newAux vars.length = some (aux, un') ∧ aux ∉ un.preds ∧
      out = [.rule 1 1 (.lit (.pos, .sym (.fn aux.name (vars.map Term.var) false))) new,
             .rule line col head ((body.filter fun x => !x.memAst new) ++
               [.lit (.pos, .sym (.fn aux.name (vars.map Term.var) false))])] := by
  induction cands with
  | nil =>
    simp only [projectLoop, pure, Except.pure, Except.ok.injEq, Prod.mk.injEq] at h
    exact Or.inl h.1.symm
  | cons new cands ih =>
    unfold projectLoop at h
    simp only [bind, Except.bind] at h
    cases hg : goodSplit new (body.filter fun x => !x.memAst new) head body with
    | error e => rw [hg] at h; cases h
    | ok r =>
      rw [hg] at h
      cases r with
      | none =>
        simp only at h
        rcases ih h with h1 | ⟨n, v, a, hn, h2⟩
        · exact Or.inl h1
        · exact Or.inr ⟨n, v, a, List.mem_cons_of_mem _ hn, h2⟩
      | some vars =>
        simp only at h
        cases hn : un.newAux vars.length with
        | none => rw [hn] at h; cases h
        | some r2 =>
          obtain ⟨aux, un2⟩ := r2
          rw [hn] at h
          simp only [pure, Except.pure, Except.ok.injEq, Prod.mk.injEq] at h
          obtain ⟨h1, h2⟩ := h
          subst h2
          exact Or.inr ⟨new, vars, aux, List.mem_cons_self, hg, hn, (Proofs.C07.newAux_fresh hn).1, h1.symm⟩

/-- aggregates are never torn apart: an aggregate literal is one body literal, and an accepted split never has
aggregates on both sides -/
theorem C16_aggregates_whole (new rest : List BLit) (head : Head) (body : List BLit) (t : List String)
    (h : goodSplit new rest head body = .ok (some t)) :
    ¬ (new.any BLit.hasBodyAgg = true ∧ rest.any BLit.hasBodyAgg = true) := by
  obtain ⟨_, _, _, _, _, _, _, _, _, _, _, _, _, hagg⟩ := C16_good_split_sound new rest head body t h
  intro ⟨h1, h2⟩
  simp [h1, h2] at hagg


/- non-vacuity of `C16_good_split_sound`: the correspondence run reports, per run, how many `good_split` calls of
the real code returned a split and were reproduced by the model (evidence key `good_split:split`); e.g. the
maintainers' test input `p(A,D) :- q(A,B,C), r(A,D), t(E), not s(B,E).` splits off `q, t, not s` over `A`.  (The
kernel cannot evaluate `goodSplit` by `decide` because the binding fixpoints recurse on fuel over strings.) -/


/-! ## the split, from syntax to stable models (here-and-there semantics of the typed AST, `Sem/*`) -/

open Proofs.C16sem in
/-- **Soundness, end to end.**  `head :- body.` (body = `new` ∪ `rest`) versus `aux(V̄) :- new.` + `head :- rest, aux(V̄).`
in *any* ground context `P0` that does not mention the auxiliary predicate: every stable model of the original program
extends — by exactly the auxiliary atoms whose moved part holds — to a stable model of the split program.  The
hypotheses (`Cond`) are syntactic: the two parts cover the body, **every variable of the moved part that also occurs in
the rest or in the head is among `V̄`**, the auxiliary name occurs in neither part; plus the semantic parameters'
sanity (a plain atom head holds iff its atom is in `H`, the head depends only on its variables and not on aux atoms,
aggregates are persistent).  `G` (which variables are global) is the same for the three rules: no variable changes its
scope — what `good_split` checks with `local_new ∩ global_old = ∅`. -/
theorem C16_split_sound (P : Sem.PParams) (G : String → Prop) (S : Syn) (P0 : HT.Prog Sem.GAtom) (hc : Cond P G S)
    (hP0 : ∀ r, P0 r → HT.Indep (splitData P G S P0).A r) (T : Sem.Interp)
    (hT : HT.Stable (HT.Union P0 (instances P G S.head S.body)) T) :
    HT.Stable (splitProg P G S P0) (extend P G S T) :=
  split_sound P G S P0 hc hP0 T hT

open Proofs.C16sem in
/-- **Completeness, end to end**: every stable model of the split program is the extension of a stable model of the
original program (so the correspondence is one-to-one and restricted to the source vocabulary nothing changes). -/
theorem C16_split_complete (P : Sem.PParams) (G : String → Prop) (S : Syn) (P0 : HT.Prog Sem.GAtom) (hc : Cond P G S)
    (hP0 : ∀ r, P0 r → HT.Indep (splitData P G S P0).A r) (T' : Sem.Interp)
    (hT' : HT.Stable (splitProg P G S P0) T') :
    ∃ T, HT.Stable (HT.Union P0 (instances P G S.head S.body)) T ∧ ∀ a, T' a ↔ extend P G S T a :=
  split_complete P G S P0 hc hP0 T' hT'

/-- the ground-level schema with its exact side condition `Glue` (environments can be re-assembled across the
interface), of which the two theorems above are the syntactic instance -/
theorem C16_schema_sound {α E K : Type} (S : HT.SplitData α E K) (h : S.WF) (hg : S.Glue) (T : HT.Interp α)
    (hT : HT.Stable S.orig T) : HT.Stable (HT.Union S.folded (S.defs h).rules) (HT.ext (S.defs h) T) :=
  S.split_sound h hg T hT

/-- `api.optimize` (read from the source on every run) constructs this pass with the current program and the caller's
own declaration lists, under the parameter names the class declares, and replaces the current program by its result -/
theorem C16_wiring :
    Tables.API_ARGS.lookup "projection" = some (["input_", "input_predicates"], "input_", "input_") ∧
    Tables.CTOR_PARAMS.lookup "projection" = some ["prg", "input_predicates"] := by decide

/-- **projection keeps every head and adds only plain-headed auxiliary rules**: every statement of the result of the
model of `ProjectionTranslator.execute` is a source statement verbatim, a source rule with the same head over another
body, or a new rule whose head is a plain positive atom -/
theorem C16_heads_kept (prg : Prog) (inputs : List Pred) (out : Prog) (h : projection prg inputs = .ok out) :
    ∀ s ∈ out, ∃ o ∈ prg, Proofs.C16heads.FromStm o s :=
  Proofs.C16heads.projection_heads prg inputs out h

/-! ## end to end for typed programs and statements, from an executable check (`Proofs/C16stm.lean`)

`pre ++ [head :- body.] ++ post` and `pre ++ [aux(vs) :- new. ; head :- rest, aux(vs).] ++ post`, every statement under
its OWN global variables (`Sem/GCongr.lean` bridges the three different sets), standard head semantics, any parameter
choice with persistent aggregates.  `splitCheck` / `ctxCheck` are what the driver evaluates on every split the real
pass performs (anonymous variables renamed apart by the harness). -/
open Proofs.C16stm in
theorem C16_check_sound (S : Split) (pre post : Prog) (h1 : splitCheck S = true) (h2 : ctxCheck S pre post = true) :
    Ok S ∧ CtxOk S pre post :=
  ⟨splitCheck_sound S h1, ctxCheck_sound S pre post h2⟩

open Proofs.C16stm in
/-- **every answer set of the source extends to an answer set of the split program** -/
theorem C16_split_sound_prog (P : Sem.Params) (hp : Sem.AggPersistent P) (S : Split) (pre post : Prog)
    (h1 : splitCheck S = true) (h2 : ctxCheck S pre post = true) (T : Sem.Interp)
    (hT : Sem.Stable (Sem.stdParams P) (pre ++ S.orig :: post) T) :
    Sem.Stable (Sem.stdParams P) (pre ++ S.auxRule :: S.updRule :: post)
      (Proofs.C16sem.extend (Sem.stdParams P) (fun v => v ∈ S.G0) S.syn T) :=
  split_sound_prog P hp S (splitCheck_sound S h1) pre post (ctxCheck_sound S pre post h2) T hT

open Proofs.C16stm in
/-- **every answer set of the split program is such an extension**: the correspondence is one-to-one and the source
atoms are untouched -/
theorem C16_split_complete_prog (P : Sem.Params) (hp : Sem.AggPersistent P) (S : Split) (pre post : Prog)
    (h1 : splitCheck S = true) (h2 : ctxCheck S pre post = true) (T' : Sem.Interp)
    (hT' : Sem.Stable (Sem.stdParams P) (pre ++ S.auxRule :: S.updRule :: post) T') :
    ∃ T, Sem.Stable (Sem.stdParams P) (pre ++ S.orig :: post) T ∧
      ∀ a, T' a ↔ Proofs.C16sem.extend (Sem.stdParams P) (fun v => v ∈ S.G0) S.syn T a :=
  split_complete_prog P hp S (splitCheck_sound S h1) pre post (ctxCheck_sound S pre post h2) T' hT'

/-! non-vacuity of the executable checks: `h(X) :- p(X), q(X,Y), r(Y).` split into `__aux_1(X) :- q(X,Y), r(Y).` and
`h(X) :- p(X), __aux_1(X).` next to a fact passes them, so the two theorems above apply to it -/
namespace C16ex
open Proofs.C16stm Sem
def atomL (n : String) (vs : List String) : BLit := .lit (.pos, .sym (.fn n (vs.map Term.var) false))
def S : Split :=
  { line := 1, col := 1, head := .lit (.pos, .sym (.fn "h" [.var "X"] false)),
    body := [atomL "p" ["X"], atomL "q" ["X", "Y"], atomL "r" ["Y"]],
    new := [atomL "q" ["X", "Y"], atomL "r" ["Y"]], rest := [atomL "p" ["X"]], vs := ["X"], auxName := "__aux_1" }
def ctx : Prog := [.rule 2 1 (.lit (.pos, .sym (.fn "p" [.sym (.num 1)] false))) []]
set_option maxRecDepth 4000 in
theorem check : splitCheck S = true ∧ ctxCheck S ctx [] = true := by
  simp [splitCheck, ctxCheck, S, ctx, atomL, Split.G0, Split.Ga, Split.Gu, Split.auxB, Proofs.C16sem.auxLit,
    Proofs.C16sem.auxAtomTerm, iffB, blitMem, blitEqb, litEqb, atomEqb, termsEqb, termEqb, bodyAvoids, blitAvoids,
    atomAvoids, headAvoids, nameSig, bodyScoped, blitScoped, atomScoped, stdHeadGlobals, bodyGlobals, blitGlobals,
    litVars, litTerms, Atom.terms, Term.vars, BLit.vars, BLit.terms, Head.vars, Head.terms, Proofs.C09sem.stmAvoids]
example (P : Params) (hp : AggPersistent P) (T : Interp) (hT : Stable (stdParams P) (ctx ++ S.orig :: []) T) :
    Stable (stdParams P) (ctx ++ S.auxRule :: S.updRule :: []) (Proofs.C16sem.extend (stdParams P) (fun v => v ∈ S.G0) S.syn T) :=
  C16_split_sound_prog P hp S ctx [] check.1 check.2 T hT
end C16ex

end NgoVerif
