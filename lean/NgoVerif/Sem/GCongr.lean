import NgoVerif.Sem.Coincidence
/-!
# The set of global variables matters only on the variables that occur inside local scopes

`G` (the set of global variables of a statement) is consulted only where a local scope is opened: in the elements of an
aggregate and in a conditional literal, to decide which variables the local binding must leave alone.  If `G` and `G'`
agree on every variable that occurs inside such a scope of `x`, then `x` means the same under both.
This is what lets a rule be moved into another rule (or split in two) although "the global variables of the
statement" change: it suffices that the variables inside its aggregates / conditions keep their status.
-/
namespace NgoVerif.Sem
variable (P : Params)

/-- variables occurring inside a local scope (aggregate element) of an atom -/
def atomScoped : Atom → List String
  | .bagg _ _ _ _ es _ => (bElemsTerms es).flatMap Term.vars
  | .agg _ es _ => (cElemsTerms es).flatMap Term.vars
  | _ => []

theorem atomScoped_sub (a : Atom) : ∀ v ∈ atomScoped a, v ∈ (a.terms).flatMap Term.vars := by
  intro v hv
  cases a with
  | bagg l c lg f es rg =>
    simp only [atomScoped] at hv
    simp only [Atom.terms, List.flatMap_append, List.mem_append]; exact Or.inl (Or.inr hv)
  | agg lg es rg =>
    simp only [atomScoped] at hv
    simp only [Atom.terms, List.flatMap_append, List.mem_append]; exact Or.inl (Or.inr hv)
  | _ => simp [atomScoped] at hv

def litsScoped : List (Sign × Atom) → List String
  | [] => []
  | (_, a) :: ls => atomScoped a ++ litsScoped ls

def blitScoped : BLit → List String
  | .lit (_, a) => atomScoped a
  | .clit c => (condLitTerms c).flatMap Term.vars

def bodyScoped (b : List BLit) : List String := b.flatMap blitScoped

theorem agree_patch (G G' : String → Prop) (vs : List String) (hG : ∀ v ∈ vs, G v ↔ G' v) (e e' : Env)
    (ha : Agree G e e') : Agree G' e (patch vs e' e) := by
  intro v hv
  simp only [patch]
  by_cases hm : v ∈ vs
  · simp only [hm, if_true]; exact ha v ((hG v hm).mpr hv)
  · simp only [hm, if_false]

mutual
theorem atomSat_gcongr (G G' : String → Prop) (H T : Interp) (s : Sign) :
    ∀ (a : Atom) (e : Env), (∀ v ∈ atomScoped a, G v ↔ G' v) →
      (atomSat P G e H T s a ↔ atomSat P G' e H T s a)
  | .sym t, e, _ => by cases s <;> simp only [atomSat]
  | .cmp t gs, e, _ => by cases s <;> simp only [atomSat]
  | .bool b, e, _ => by cases s <;> simp only [atomSat]
  | .theory _, e, _ => by simp only [atomSat]
  | .bagg ln cl lg f es rg, e, h => by
    have hes : ∀ v ∈ (bElemsTerms es).flatMap Term.vars, G v ↔ G' v := fun v hv => h v (by simpa [atomScoped] using hv)
    have hH : bTuples P G e H H es = bTuples P G' e H H es := by
      funext tup; exact propext (bTuples_gcongr G G' H H es e hes tup)
    have hT : bTuples P G e T T es = bTuples P G' e T T es := by
      funext tup; exact propext (bTuples_gcongr G G' T T es e hes tup)
    simp only [atomSat, hH, hT]
  | .agg lg es rg, e, h => by
    have hes : ∀ v ∈ (cElemsTerms es).flatMap Term.vars, G v ↔ G' v := fun v hv => h v (by simpa [atomScoped] using hv)
    have hH : cCount P G e H H es = cCount P G' e H H es := by
      funext k; exact propext (cCount_gcongr G G' H H es e hes k)
    have hT : cCount P G e T T es = cCount P G' e T T es := by
      funext k; exact propext (cCount_gcongr G G' T T es e hes k)
    simp only [atomSat, hH, hT]
theorem litsSat_gcongr (G G' : String → Prop) (H T : Interp) :
    ∀ (ls : List (Sign × Atom)) (e : Env), (∀ v ∈ (litsTerms ls).flatMap Term.vars, G v ↔ G' v) →
      (litsSat P G e H T ls ↔ litsSat P G' e H T ls)
  | [], _, _ => by simp [litsSat]
  | (s, a) :: ls, e, h => by
    simp only [litsTerms, litTerms, List.flatMap_append, List.mem_append] at h
    simp only [litsSat, litSat]
    rw [atomSat_gcongr G G' H T s a e (fun v hv => h v (Or.inl (atomScoped_sub a v hv))),
        litsSat_gcongr G G' H T ls e (fun v hv => h v (Or.inr hv))]
theorem bTuples_gcongr (G G' : String → Prop) (H T : Interp) :
    ∀ (es : List (List Term × List (Sign × Atom))) (e : Env),
      (∀ v ∈ (bElemsTerms es).flatMap Term.vars, G v ↔ G' v) → ∀ tup, (bTuples P G e H T es tup ↔ bTuples P G' e H T es tup)
  | [], _, _, tup => by simp [bTuples]
  | (ts, c) :: es, e, h, tup => by
    simp only [bElemsTerms, List.flatMap_append, List.mem_append] at h
    have ih := bTuples_gcongr G G' H T es e (fun v hv => h v (Or.inr hv)) tup
    simp only [bTuples, ih]
    let vs := ts.flatMap Term.vars ++ (litsTerms c).flatMap Term.vars
    have hvs : ∀ v ∈ vs, G v ↔ G' v := by
      intro v hv
      rcases List.mem_append.mp hv with hv | hv
      · exact h v (Or.inl (Or.inl hv))
      · exact h v (Or.inl (Or.inr hv))
    have hc : ∀ v ∈ (litsTerms c).flatMap Term.vars, G v ↔ G' v := fun v hv => h v (Or.inl (Or.inr hv))
    constructor
    · rintro (⟨e', ha, ht, hcond⟩ | hrest)
      · left
        refine ⟨patch vs e' e, agree_patch G G' vs hvs e e' ha, ?_, ?_⟩
        · rw [← evalTerms_congr P e' _ ts (fun v hv => patch_eq vs e' e v (List.mem_append_left _ hv))]; exact ht
        · rw [← litsSat_gcongr G G' H T c _ hc]
          exact (litsSat_congr P G H T c e' _ (fun v hv => patch_eq vs e' e v (List.mem_append_right _ hv))).mp hcond
      · exact Or.inr hrest
    · rintro (⟨e', ha, ht, hcond⟩ | hrest)
      · left
        refine ⟨patch vs e' e, agree_patch G' G vs (fun v hv => (hvs v hv).symm) e e' ha, ?_, ?_⟩
        · rw [← evalTerms_congr P e' _ ts (fun v hv => patch_eq vs e' e v (List.mem_append_left _ hv))]; exact ht
        · rw [litsSat_gcongr G G' H T c _ hc]
          exact (litsSat_congr P G' H T c e' _ (fun v hv => patch_eq vs e' e v (List.mem_append_right _ hv))).mp hcond
      · exact Or.inr hrest
theorem cCount_gcongr (G G' : String → Prop) (H T : Interp) :
    ∀ (es : List ((Sign × Atom) × List (Sign × Atom))) (e : Env),
      (∀ v ∈ (cElemsTerms es).flatMap Term.vars, G v ↔ G' v) → ∀ k, (cCount P G e H T es k ↔ cCount P G' e H T es k)
  | [], _, _, k => by simp [cCount]
  | ((s, a), c) :: es, e, h, k => by
    simp only [cElemsTerms, litTerms, List.flatMap_append, List.mem_append] at h
    have ih := cCount_gcongr G G' H T es e (fun v hv => h v (Or.inr hv)) k
    simp only [cCount, ih, litSat]
    let vs := (a.terms).flatMap Term.vars ++ (litsTerms c).flatMap Term.vars
    have hvs : ∀ v ∈ vs, G v ↔ G' v := by
      intro v hv
      rcases List.mem_append.mp hv with hv | hv
      · exact h v (Or.inl (Or.inl hv))
      · exact h v (Or.inl (Or.inr hv))
    have ha' : ∀ v ∈ (a.terms).flatMap Term.vars, G v ↔ G' v := fun v hv => h v (Or.inl (Or.inl hv))
    have hc : ∀ v ∈ (litsTerms c).flatMap Term.vars, G v ↔ G' v := fun v hv => h v (Or.inl (Or.inr hv))
    constructor
    · rintro (⟨hk, e', ha, hl, hcond⟩ | hrest)
      · left
        refine ⟨hk, patch vs e' e, agree_patch G G' vs hvs e e' ha, ?_, ?_⟩
        · rw [← atomSat_gcongr G G' H T s a _ (fun v hv => ha' v (atomScoped_sub a v hv))]
          exact (atomSat_congr P G H T s a e' _ (fun v hv => patch_eq vs e' e v (List.mem_append_left _ hv))).mp hl
        · rw [← litsSat_gcongr G G' H T c _ hc]
          exact (litsSat_congr P G H T c e' _ (fun v hv => patch_eq vs e' e v (List.mem_append_right _ hv))).mp hcond
      · exact Or.inr hrest
    · rintro (⟨hk, e', ha, hl, hcond⟩ | hrest)
      · left
        refine ⟨hk, patch vs e' e, agree_patch G' G vs (fun v hv => (hvs v hv).symm) e e' ha, ?_, ?_⟩
        · rw [atomSat_gcongr G G' H T s a _ (fun v hv => ha' v (atomScoped_sub a v hv))]
          exact (atomSat_congr P G' H T s a e' _ (fun v hv => patch_eq vs e' e v (List.mem_append_left _ hv))).mp hl
        · rw [litsSat_gcongr G G' H T c _ hc]
          exact (litsSat_congr P G' H T c e' _ (fun v hv => patch_eq vs e' e v (List.mem_append_right _ hv))).mp hcond
      · exact Or.inr hrest
end

theorem blitSat_gcongr (G G' : String → Prop) (H T : Interp) (b : BLit) (e : Env)
    (h : ∀ v ∈ blitScoped b, G v ↔ G' v) : blitSat P G e H T b ↔ blitSat P G' e H T b := by
  cases b with
  | lit l =>
    obtain ⟨s, a⟩ := l
    simp only [blitSat, litSat]
    exact atomSat_gcongr P G G' H T s a e (by simpa [blitScoped] using h)
  | clit c =>
    obtain ⟨⟨s, a⟩, cond⟩ := c
    simp only [blitScoped, condLitTerms, litTerms, List.flatMap_append, List.mem_append] at h
    let vs := (a.terms).flatMap Term.vars ++ (litsTerms cond).flatMap Term.vars
    have hvs : ∀ v ∈ vs, G v ↔ G' v := by
      intro v hv
      rcases List.mem_append.mp hv with hv | hv
      · exact h v (Or.inl hv)
      · exact h v (Or.inr hv)
    have key : ∀ (Ga Gb : String → Prop), (∀ v ∈ vs, Ga v ↔ Gb v) →
        condLitSat P Ga e H T ((s, a), cond) → condLitSat P Gb e H T ((s, a), cond) := by
      intro Ga Gb hab hs e' ha
      have ha2 : Agree Ga e (patch vs e' e) := agree_patch Gb Ga vs (fun v hv => (hab v hv).symm) e e' ha
      have hp := hs (patch vs e' e) ha2
      have hl : ∀ W W', atomSat P Gb e' W W' s a ↔ atomSat P Ga (patch vs e' e) W W' s a := fun W W' => by
        rw [atomSat_gcongr P Ga Gb W W' s a _ (fun v hv => hab v (List.mem_append_left _ (atomScoped_sub a v hv)))]
        exact atomSat_congr P Gb W W' s a e' _ (fun v hv => patch_eq vs e' e v (List.mem_append_left _ hv))
      have hc : ∀ W W', litsSat P Gb e' W W' cond ↔ litsSat P Ga (patch vs e' e) W W' cond := fun W W' => by
        rw [litsSat_gcongr P Ga Gb W W' cond _ (fun v hv => hab v (List.mem_append_right _ hv))]
        exact litsSat_congr P Gb W W' cond e' _ (fun v hv => patch_eq vs e' e v (List.mem_append_right _ hv))
      simp only [litSat] at hp ⊢
      exact ⟨fun x => (hl H T).mpr (hp.1 ((hc H T).mp x)), fun x => (hl T T).mpr (hp.2 ((hc T T).mp x))⟩
    simp only [blitSat]
    exact ⟨key G G' hvs, key G' G (fun v hv => (hvs v hv).symm)⟩

/-- **`G`-congruence for bodies** -/
theorem bodySat_gcongr (G G' : String → Prop) (H T : Interp) (b : List BLit) (e : Env)
    (h : ∀ v ∈ bodyScoped b, G v ↔ G' v) : bodySat P G e H T b ↔ bodySat P G' e H T b := by
  simp only [bodySat]
  constructor
  · intro hs l hl
    exact (blitSat_gcongr P G G' H T l e (fun v hv => h v (List.mem_flatMap.mpr ⟨l, hl, hv⟩))).mp (hs l hl)
  · intro hs l hl
    exact (blitSat_gcongr P G G' H T l e (fun v hv => h v (List.mem_flatMap.mpr ⟨l, hl, hv⟩))).mpr (hs l hl)

theorem litSat_gcongr (G G' : String → Prop) (H T : Interp) (l : Sign × Atom) (e : Env)
    (h : ∀ v ∈ litVars l, G v ↔ G' v) : litSat P G e H T l ↔ litSat P G' e H T l := by
  obtain ⟨s, a⟩ := l
  simp only [litSat]
  exact atomSat_gcongr P G G' H T s a e (fun v hv => h v (by simpa [litVars, litTerms] using atomScoped_sub a v hv))

end NgoVerif.Sem
