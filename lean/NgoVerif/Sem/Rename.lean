import NgoVerif.Sem.Denote
import NgoVerif.Model.Collect
/-!
# Renaming: satisfaction of a renamed body under `e` is satisfaction of the body under `e ∘ σ`

`σ` renames variables.  For an involution (`σ (σ v) = v`, e.g. the swap of two variables) the renamed literal, element,
conditional literal or body holds at `(G, e)` iff the original holds at `(G ∘ σ, e ∘ σ)` - local variables included
(the witnesses of the local quantifiers are transported along `σ`).  This is what makes "the rest of the rule is
symmetric in X and Y" usable: a symmetric body cannot tell `e` from `e ∘ swap`.
-/
namespace NgoVerif.Sem
variable (P : Params)

mutual
def renameTerm (σ : String → String) : Term → Term
  | .var n => .var (σ n)
  | .sym s => .sym s
  | .un op a => .un op (renameTerm σ a)
  | .bin op l r => .bin op (renameTerm σ l) (renameTerm σ r)
  | .ival l r => .ival (renameTerm σ l) (renameTerm σ r)
  | .fn name args ext => .fn name (renameTerms σ args) ext
  | .pool args => .pool (renameTerms σ args)
def renameTerms (σ : String → String) : List Term → List Term
  | [] => []
  | t :: ts => renameTerm σ t :: renameTerms σ ts
end

def renameGuard (σ : String → String) (g : Guard) : Guard := ⟨g.op, renameTerm σ g.term⟩
def renameGuards (σ : String → String) : List Guard → List Guard
  | [] => []
  | g :: gs => renameGuard σ g :: renameGuards σ gs
def renameOptGuard (σ : String → String) : Option Guard → Option Guard
  | none => none
  | some g => some (renameGuard σ g)

mutual
def renameAtom (σ : String → String) : Atom → Atom
  | .sym t => .sym (renameTerm σ t)
  | .cmp t gs => .cmp (renameTerm σ t) (renameGuards σ gs)
  | .bool b => .bool b
  | .bagg l c lg f es rg => .bagg l c (renameOptGuard σ lg) f (renameBElems σ es) (renameOptGuard σ rg)
  | .agg lg es rg => .agg (renameOptGuard σ lg) (renameCElems σ es) (renameOptGuard σ rg)
  | .theory t => .theory t
def renameLits (σ : String → String) : List (Sign × Atom) → List (Sign × Atom)
  | [] => []
  | (s, a) :: ls => (s, renameAtom σ a) :: renameLits σ ls
def renameBElems (σ : String → String) : List (List Term × List (Sign × Atom)) → List (List Term × List (Sign × Atom))
  | [] => []
  | (ts, c) :: es => (renameTerms σ ts, renameLits σ c) :: renameBElems σ es
def renameCElems (σ : String → String) :
    List ((Sign × Atom) × List (Sign × Atom)) → List ((Sign × Atom) × List (Sign × Atom))
  | [] => []
  | ((s, a), c) :: es => ((s, renameAtom σ a), renameLits σ c) :: renameCElems σ es
end

def renameLit (σ : String → String) (l : Sign × Atom) : Sign × Atom := (l.1, renameAtom σ l.2)

def renameBLit (σ : String → String) : BLit → BLit
  | .lit l => .lit (renameLit σ l)
  | .clit c => .clit (renameLit σ c.1, renameLits σ c.2)

def renameBody (σ : String → String) (b : List BLit) : List BLit := b.map (renameBLit σ)

/-! ### terms -/
mutual
theorem evalTerm_rename (σ : String → String) (e : Env) :
    ∀ t : Term, evalTerm P e (renameTerm σ t) = evalTerm P (fun v => e (σ v)) t
  | .var n => by simp [renameTerm, evalTerm]
  | .sym s => by simp [renameTerm, evalTerm]
  | .un op a => by simp only [renameTerm, evalTerm, evalTerm_rename σ e a]
  | .bin op l r => by simp only [renameTerm, evalTerm, evalTerm_rename σ e l, evalTerm_rename σ e r]
  | .ival _ _ => by simp [renameTerm, evalTerm]
  | .fn name args ext => by simp only [renameTerm, evalTerm, evalTerms_rename σ e args]
  | .pool _ => by simp [renameTerm, evalTerm]
theorem evalTerms_rename (σ : String → String) (e : Env) :
    ∀ ts : List Term, evalTerms P e (renameTerms σ ts) = evalTerms P (fun v => e (σ v)) ts
  | [] => by simp [renameTerms, evalTerms]
  | t :: ts => by simp only [renameTerms, evalTerms, evalTerm_rename σ e t, evalTerms_rename σ e ts]
end

theorem groundAtom_rename (σ : String → String) (e : Env) (t : Term) :
    groundAtom P e (renameTerm σ t) = groundAtom P (fun v => e (σ v)) t := by
  cases t with
  | fn name args ext =>
    cases ext with
    | false => simp only [renameTerm, groundAtom, evalTerms_rename]
    | true => simp [renameTerm, groundAtom]
  | _ => simp [renameTerm, groundAtom]

theorem chainHolds_rename (σ : String → String) (e : Env) :
    ∀ (t : Term) (gs : List Guard),
      chainHolds P e (renameTerm σ t) (renameGuards σ gs) ↔ chainHolds P (fun v => e (σ v)) t gs
  | t, [] => by simp [renameGuards, chainHolds]
  | t, g :: gs => by
    simp only [renameGuards, chainHolds, renameGuard, evalTerm_rename]
    rw [← chainHolds_rename σ e g.term gs]

theorem guardVal_rename (σ : String → String) (e : Env) (g : Option Guard) :
    guardVal P e (renameOptGuard σ g) = guardVal P (fun v => e (σ v)) g := by
  cases g with
  | none => simp [renameOptGuard, guardVal]
  | some g => simp only [renameOptGuard, guardVal, renameGuard, evalTerm_rename]

/-! ### literals, elements -/

/-- the global-variable test seen through the renaming -/
def renameG (σ : String → String) (G : String → Prop) : String → Prop := fun v => G (σ v)

theorem agree_push {σ : String → String} {G : String → Prop} {e e' : Env} (h : Agree G e e') :
    Agree (renameG σ G) (fun v => e (σ v)) (fun v => e' (σ v)) := fun v hv => h (σ v) hv

theorem agree_pull {σ : String → String} (hinv : ∀ v, σ (σ v) = v) {G : String → Prop} {e e'' : Env}
    (h : Agree (renameG σ G) (fun v => e (σ v)) e'') : Agree G e (fun v => e'' (σ v)) := by
  intro v hv
  have := h (σ v) (by simpa [renameG, hinv] using hv)
  simpa [hinv] using this

theorem comp_inv {σ : String → String} (hinv : ∀ v, σ (σ v) = v) (e'' : Env) :
    (fun v => (fun w => e'' (σ w)) (σ v)) = e'' := by
  funext v; simp [hinv]

mutual
theorem atomSat_rename (σ : String → String) (hinv : ∀ v, σ (σ v) = v) (G : String → Prop) (H T : Interp) (s : Sign) :
    ∀ (a : Atom) (e : Env),
      atomSat P G e H T s (renameAtom σ a) ↔ atomSat P (renameG σ G) (fun v => e (σ v)) H T s a
  | .sym t, e => by cases s <;> simp only [renameAtom, atomSat, groundAtom_rename]
  | .cmp t gs, e => by cases s <;> simp only [renameAtom, atomSat, chainHolds_rename]
  | .bool b, e => by cases s <;> simp [renameAtom, atomSat]
  | .theory _, e => by simp [renameAtom, atomSat]
  | .bagg ln cl lg f es rg, e => by
    have hH : bTuples P G e H H (renameBElems σ es) = bTuples P (renameG σ G) (fun v => e (σ v)) H H es := by
      funext tup; exact propext (bTuples_rename σ hinv G H H es e tup)
    have hT : bTuples P G e T T (renameBElems σ es) = bTuples P (renameG σ G) (fun v => e (σ v)) T T es := by
      funext tup; exact propext (bTuples_rename σ hinv G T T es e tup)
    simp only [renameAtom, atomSat, guardVal_rename, hH, hT]
  | .agg lg es rg, e => by
    have hH : cCount P G e H H (renameCElems σ es) = cCount P (renameG σ G) (fun v => e (σ v)) H H es := by
      funext k; exact propext (cCount_rename σ hinv G H H es e k)
    have hT : cCount P G e T T (renameCElems σ es) = cCount P (renameG σ G) (fun v => e (σ v)) T T es := by
      funext k; exact propext (cCount_rename σ hinv G T T es e k)
    simp only [renameAtom, atomSat, guardVal_rename, hH, hT]
theorem litsSat_rename (σ : String → String) (hinv : ∀ v, σ (σ v) = v) (G : String → Prop) (H T : Interp) :
    ∀ (ls : List (Sign × Atom)) (e : Env),
      litsSat P G e H T (renameLits σ ls) ↔ litsSat P (renameG σ G) (fun v => e (σ v)) H T ls
  | [], e => by simp [renameLits, litsSat]
  | (s, a) :: ls, e => by
    simp only [renameLits, litsSat, litSat]
    rw [atomSat_rename σ hinv G H T s a e, litsSat_rename σ hinv G H T ls e]
theorem bTuples_rename (σ : String → String) (hinv : ∀ v, σ (σ v) = v) (G : String → Prop) (H T : Interp) :
    ∀ (es : List (List Term × List (Sign × Atom))) (e : Env) (tup : List Sym),
      bTuples P G e H T (renameBElems σ es) tup ↔ bTuples P (renameG σ G) (fun v => e (σ v)) H T es tup
  | [], e, tup => by simp [renameBElems, bTuples]
  | (ts, c) :: es, e, tup => by
    simp only [renameBElems, bTuples]
    rw [bTuples_rename σ hinv G H T es e tup]
    constructor
    · rintro (⟨e', ha, ht, hc⟩ | h)
      · refine Or.inl ⟨fun v => e' (σ v), agree_push ha, ?_, (litsSat_rename σ hinv G H T c e').mp hc⟩
        rw [← evalTerms_rename]; exact ht
      · exact Or.inr h
    · rintro (⟨e'', ha, ht, hc⟩ | h)
      · refine Or.inl ⟨fun v => e'' (σ v), agree_pull hinv ha, ?_, ?_⟩
        · rw [evalTerms_rename, comp_inv hinv]; exact ht
        · rw [litsSat_rename σ hinv G H T c, comp_inv hinv]; exact hc
      · exact Or.inr h
theorem cCount_rename (σ : String → String) (hinv : ∀ v, σ (σ v) = v) (G : String → Prop) (H T : Interp) :
    ∀ (es : List ((Sign × Atom) × List (Sign × Atom))) (e : Env) (k : Nat),
      cCount P G e H T (renameCElems σ es) k ↔ cCount P (renameG σ G) (fun v => e (σ v)) H T es k
  | [], e, k => by simp [renameCElems, cCount]
  | ((s, a), c) :: es, e, k => by
    have hlen : (renameCElems σ es).length = es.length := by
      induction es with
      | nil => rfl
      | cons x xs ih => obtain ⟨⟨s', a'⟩, c'⟩ := x; simp [renameCElems, ih]
    simp only [renameCElems, cCount, litSat, hlen]
    rw [cCount_rename σ hinv G H T es e k]
    constructor
    · rintro (⟨hk, e', ha, hl, hc⟩ | h)
      · exact Or.inl ⟨hk, fun v => e' (σ v), agree_push ha, (atomSat_rename σ hinv G H T s a e').mp hl,
          (litsSat_rename σ hinv G H T c e').mp hc⟩
      · exact Or.inr h
    · rintro (⟨hk, e'', ha, hl, hc⟩ | h)
      · refine Or.inl ⟨hk, fun v => e'' (σ v), agree_pull hinv ha, ?_, ?_⟩
        · rw [atomSat_rename σ hinv G H T s a, comp_inv hinv]; exact hl
        · rw [litsSat_rename σ hinv G H T c, comp_inv hinv]; exact hc
      · exact Or.inr h
end

theorem litSat_rename (σ : String → String) (hinv : ∀ v, σ (σ v) = v) (G : String → Prop) (H T : Interp)
    (l : Sign × Atom) (e : Env) :
    litSat P G e H T (renameLit σ l) ↔ litSat P (renameG σ G) (fun v => e (σ v)) H T l := by
  obtain ⟨s, a⟩ := l
  simp only [renameLit, litSat]
  exact atomSat_rename P σ hinv G H T s a e

theorem blitSat_rename (σ : String → String) (hinv : ∀ v, σ (σ v) = v) (G : String → Prop) (H T : Interp)
    (b : BLit) (e : Env) :
    blitSat P G e H T (renameBLit σ b) ↔ blitSat P (renameG σ G) (fun v => e (σ v)) H T b := by
  cases b with
  | lit l => simp only [renameBLit, blitSat]; exact litSat_rename P σ hinv G H T l e
  | clit c =>
    simp only [renameBLit, blitSat, condLitSat]
    constructor
    · intro h e'' ha
      have := h (fun v => e'' (σ v)) (agree_pull hinv ha)
      rw [litsSat_rename P σ hinv G H T c.2, litSat_rename P σ hinv G H T c.1,
        litsSat_rename P σ hinv G T T c.2, litSat_rename P σ hinv G T T c.1, comp_inv hinv] at this
      exact this
    · intro h e' ha
      have := h (fun v => e' (σ v)) (agree_push ha)
      rw [litsSat_rename P σ hinv G H T c.2, litSat_rename P σ hinv G H T c.1,
        litsSat_rename P σ hinv G T T c.2, litSat_rename P σ hinv G T T c.1]
      exact this

/-- **renaming lemma for bodies** -/
theorem bodySat_rename (σ : String → String) (hinv : ∀ v, σ (σ v) = v) (G : String → Prop) (H T : Interp)
    (b : List BLit) (e : Env) :
    bodySat P G e H T (renameBody σ b) ↔ bodySat P (renameG σ G) (fun v => e (σ v)) H T b := by
  simp only [bodySat, renameBody, List.mem_map]
  constructor
  · intro h l hl
    exact (blitSat_rename P σ hinv G H T l e).mp (h _ ⟨l, hl, rfl⟩)
  · rintro h _ ⟨l, hl, rfl⟩
    exact (blitSat_rename P σ hinv G H T l e).mpr (h l hl)

end NgoVerif.Sem
