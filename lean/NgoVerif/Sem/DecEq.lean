import NgoVerif.Syntax
/-!
# A decidable, *proved* equality test for the AST mirror

The derived `BEq` instances of the nested inductive types (`Sym`, `Term`, `Atom`, …) come without `LawfulBEq`.  The
checks whose `true` answer is used as a hypothesis of a theorem (`DriverSem.lean`) therefore use the explicit tests
below; `…Eqb_eq` shows that `true` means equality.
-/
namespace NgoVerif

mutual
def symEqb : Sym → Sym → Bool
  | .num a, .num b => a == b
  | .str a, .str b => a == b
  | .fn n as p, .fn m bs q => n == m && p == q && symsEqb as bs
  | .inf, .inf => true
  | .sup, .sup => true
  | _, _ => false
def symsEqb : List Sym → List Sym → Bool
  | [], [] => true
  | a :: as, b :: bs => symEqb a b && symsEqb as bs
  | _, _ => false
end

mutual
theorem symEqb_eq : ∀ a b : Sym, symEqb a b = true → a = b
  | .num a, .num b, h => by simp only [symEqb, beq_iff_eq] at h; rw [h]
  | .str a, .str b, h => by simp only [symEqb, beq_iff_eq] at h; rw [h]
  | .fn n as p, .fn m bs q, h => by
    simp only [symEqb, Bool.and_eq_true, beq_iff_eq] at h
    rw [h.1.1, h.1.2, symsEqb_eq as bs h.2]
  | .inf, .inf, _ => rfl
  | .sup, .sup, _ => rfl
  | .num _, .str _, h | .num _, .fn .., h | .num _, .inf, h | .num _, .sup, h
  | .str _, .num _, h | .str _, .fn .., h | .str _, .inf, h | .str _, .sup, h
  | .fn .., .num _, h | .fn .., .str _, h | .fn .., .inf, h | .fn .., .sup, h
  | .inf, .num _, h | .inf, .str _, h | .inf, .fn .., h | .inf, .sup, h
  | .sup, .num _, h | .sup, .str _, h | .sup, .fn .., h | .sup, .inf, h => by simp [symEqb] at h
theorem symsEqb_eq : ∀ as bs : List Sym, symsEqb as bs = true → as = bs
  | [], [], _ => rfl
  | a :: as, b :: bs, h => by
    simp only [symsEqb, Bool.and_eq_true] at h
    rw [symEqb_eq a b h.1, symsEqb_eq as bs h.2]
  | [], _ :: _, h | _ :: _, [], h => by simp [symsEqb] at h
end

mutual
def termEqb : Term → Term → Bool
  | .var a, .var b => a == b
  | .sym a, .sym b => symEqb a b
  | .un o a, .un p b => o == p && termEqb a b
  | .bin o a1 a2, .bin p b1 b2 => o == p && termEqb a1 b1 && termEqb a2 b2
  | .ival a1 a2, .ival b1 b2 => termEqb a1 b1 && termEqb a2 b2
  | .fn n as e, .fn m bs f => n == m && e == f && termsEqb as bs
  | .pool as, .pool bs => termsEqb as bs
  | _, _ => false
def termsEqb : List Term → List Term → Bool
  | [], [] => true
  | a :: as, b :: bs => termEqb a b && termsEqb as bs
  | _, _ => false
end

mutual
theorem termEqb_eq : ∀ a b : Term, termEqb a b = true → a = b
  | .var a, .var b, h => by simp only [termEqb, beq_iff_eq] at h; rw [h]
  | .sym a, .sym b, h => by simp only [termEqb] at h; rw [symEqb_eq a b h]
  | .un o a, .un p b, h => by
    simp only [termEqb, Bool.and_eq_true, beq_iff_eq] at h; rw [h.1, termEqb_eq a b h.2]
  | .bin o a1 a2, .bin p b1 b2, h => by
    simp only [termEqb, Bool.and_eq_true, beq_iff_eq] at h
    rw [h.1.1, termEqb_eq a1 b1 h.1.2, termEqb_eq a2 b2 h.2]
  | .ival a1 a2, .ival b1 b2, h => by
    simp only [termEqb, Bool.and_eq_true] at h
    rw [termEqb_eq a1 b1 h.1, termEqb_eq a2 b2 h.2]
  | .fn n as e, .fn m bs f, h => by
    simp only [termEqb, Bool.and_eq_true, beq_iff_eq] at h
    rw [h.1.1, h.1.2, termsEqb_eq as bs h.2]
  | .pool as, .pool bs, h => by simp only [termEqb] at h; rw [termsEqb_eq as bs h]
  | .var _, .sym _, h | .var _, .un .., h | .var _, .bin .., h | .var _, .ival .., h | .var _, .fn .., h | .var _, .pool _, h
  | .sym _, .var _, h | .sym _, .un .., h | .sym _, .bin .., h | .sym _, .ival .., h | .sym _, .fn .., h | .sym _, .pool _, h
  | .un .., .var _, h | .un .., .sym _, h | .un .., .bin .., h | .un .., .ival .., h | .un .., .fn .., h | .un .., .pool _, h
  | .bin .., .var _, h | .bin .., .sym _, h | .bin .., .un .., h | .bin .., .ival .., h | .bin .., .fn .., h | .bin .., .pool _, h
  | .ival .., .var _, h | .ival .., .sym _, h | .ival .., .un .., h | .ival .., .bin .., h | .ival .., .fn .., h | .ival .., .pool _, h
  | .fn .., .var _, h | .fn .., .sym _, h | .fn .., .un .., h | .fn .., .bin .., h | .fn .., .ival .., h | .fn .., .pool _, h
  | .pool _, .var _, h | .pool _, .sym _, h | .pool _, .un .., h | .pool _, .bin .., h | .pool _, .ival .., h | .pool _, .fn .., h => by
    simp [termEqb] at h
theorem termsEqb_eq : ∀ as bs : List Term, termsEqb as bs = true → as = bs
  | [], [], _ => rfl
  | a :: as, b :: bs, h => by
    simp only [termsEqb, Bool.and_eq_true] at h
    rw [termEqb_eq a b h.1, termsEqb_eq as bs h.2]
  | [], _ :: _, h | _ :: _, [], h => by simp [termsEqb] at h
end

def guardEqb (a b : Guard) : Bool := a.op == b.op && termEqb a.term b.term

theorem guardEqb_eq (a b : Guard) (h : guardEqb a b = true) : a = b := by
  cases a; cases b
  simp only [guardEqb, Bool.and_eq_true, beq_iff_eq] at h
  simp only [Guard.mk.injEq]
  exact ⟨h.1, termEqb_eq _ _ h.2⟩

def guardsEqb : List Guard → List Guard → Bool
  | [], [] => true
  | a :: as, b :: bs => guardEqb a b && guardsEqb as bs
  | _, _ => false

theorem guardsEqb_eq : ∀ as bs : List Guard, guardsEqb as bs = true → as = bs
  | [], [], _ => rfl
  | a :: as, b :: bs, h => by
    simp only [guardsEqb, Bool.and_eq_true] at h
    rw [guardEqb_eq a b h.1, guardsEqb_eq as bs h.2]
  | [], _ :: _, h | _ :: _, [], h => by simp [guardsEqb] at h

def optGuardEqb : Option Guard → Option Guard → Bool
  | none, none => true
  | some a, some b => guardEqb a b
  | _, _ => false

theorem optGuardEqb_eq : ∀ a b : Option Guard, optGuardEqb a b = true → a = b
  | none, none, _ => rfl
  | some a, some b, h => by simp only [optGuardEqb] at h; rw [guardEqb_eq a b h]
  | none, some _, h | some _, none, h => by simp [optGuardEqb] at h

mutual
def atomEqb : Atom → Atom → Bool
  | .sym a, .sym b => termEqb a b
  | .cmp a gs, .cmp b hs => termEqb a b && guardsEqb gs hs
  | .bool a, .bool b => a == b
  | .bagg l c lg f es rg, .bagg l' c' lg' f' es' rg' =>
    l == l' && c == c' && optGuardEqb lg lg' && f == f' && bElemsEqb es es' && optGuardEqb rg rg'
  | .agg lg es rg, .agg lg' es' rg' => optGuardEqb lg lg' && cElemsEqb es es' && optGuardEqb rg rg'
  | .theory a, .theory b => a == b
  | _, _ => false
def litsEqb : List (Sign × Atom) → List (Sign × Atom) → Bool
  | [], [] => true
  | (s, a) :: as, (t, b) :: bs => s == t && atomEqb a b && litsEqb as bs
  | _, _ => false
def bElemsEqb : List (List Term × List (Sign × Atom)) → List (List Term × List (Sign × Atom)) → Bool
  | [], [] => true
  | (ts, c) :: es, (us, d) :: fs => termsEqb ts us && litsEqb c d && bElemsEqb es fs
  | _, _ => false
def cElemsEqb : List ((Sign × Atom) × List (Sign × Atom)) → List ((Sign × Atom) × List (Sign × Atom)) → Bool
  | [], [] => true
  | ((s, a), c) :: es, ((t, b), d) :: fs => s == t && atomEqb a b && litsEqb c d && cElemsEqb es fs
  | _, _ => false
end

mutual
theorem atomEqb_eq : ∀ a b : Atom, atomEqb a b = true → a = b
  | .sym a, .sym b, h => by simp only [atomEqb] at h; rw [termEqb_eq a b h]
  | .cmp a gs, .cmp b hs, h => by
    simp only [atomEqb, Bool.and_eq_true] at h; rw [termEqb_eq a b h.1, guardsEqb_eq gs hs h.2]
  | .bool a, .bool b, h => by simp only [atomEqb, beq_iff_eq] at h; rw [h]
  | .bagg l c lg f es rg, .bagg l' c' lg' f' es' rg', h => by
    simp only [atomEqb, Bool.and_eq_true, beq_iff_eq] at h
    rw [h.1.1.1.1.1, h.1.1.1.1.2, optGuardEqb_eq lg lg' h.1.1.1.2, h.1.1.2, bElemsEqb_eq es es' h.1.2,
      optGuardEqb_eq rg rg' h.2]
  | .agg lg es rg, .agg lg' es' rg', h => by
    simp only [atomEqb, Bool.and_eq_true] at h
    rw [optGuardEqb_eq lg lg' h.1.1, cElemsEqb_eq es es' h.1.2, optGuardEqb_eq rg rg' h.2]
  | .theory a, .theory b, h => by simp only [atomEqb, beq_iff_eq] at h; rw [h]
  | .sym _, .cmp .., h | .sym _, .bool _, h | .sym _, .bagg .., h | .sym _, .agg .., h | .sym _, .theory _, h
  | .cmp .., .sym _, h | .cmp .., .bool _, h | .cmp .., .bagg .., h | .cmp .., .agg .., h | .cmp .., .theory _, h
  | .bool _, .sym _, h | .bool _, .cmp .., h | .bool _, .bagg .., h | .bool _, .agg .., h | .bool _, .theory _, h
  | .bagg .., .sym _, h | .bagg .., .cmp .., h | .bagg .., .bool _, h | .bagg .., .agg .., h | .bagg .., .theory _, h
  | .agg .., .sym _, h | .agg .., .cmp .., h | .agg .., .bool _, h | .agg .., .bagg .., h | .agg .., .theory _, h
  | .theory _, .sym _, h | .theory _, .cmp .., h | .theory _, .bool _, h | .theory _, .bagg .., h | .theory _, .agg .., h => by
    simp [atomEqb] at h
theorem litsEqb_eq : ∀ as bs : List (Sign × Atom), litsEqb as bs = true → as = bs
  | [], [], _ => rfl
  | (s, a) :: as, (t, b) :: bs, h => by
    simp only [litsEqb, Bool.and_eq_true, beq_iff_eq] at h
    rw [h.1.1, atomEqb_eq a b h.1.2, litsEqb_eq as bs h.2]
  | [], _ :: _, h | _ :: _, [], h => by simp [litsEqb] at h
theorem bElemsEqb_eq : ∀ es fs : List (List Term × List (Sign × Atom)), bElemsEqb es fs = true → es = fs
  | [], [], _ => rfl
  | (ts, c) :: es, (us, d) :: fs, h => by
    simp only [bElemsEqb, Bool.and_eq_true] at h
    rw [termsEqb_eq ts us h.1.1, litsEqb_eq c d h.1.2, bElemsEqb_eq es fs h.2]
  | [], _ :: _, h | _ :: _, [], h => by simp [bElemsEqb] at h
theorem cElemsEqb_eq : ∀ es fs : List ((Sign × Atom) × List (Sign × Atom)), cElemsEqb es fs = true → es = fs
  | [], [], _ => rfl
  | ((s, a), c) :: es, ((t, b), d) :: fs, h => by
    simp only [cElemsEqb, Bool.and_eq_true, beq_iff_eq] at h
    rw [h.1.1.1, atomEqb_eq a b h.1.1.2, litsEqb_eq c d h.1.2, cElemsEqb_eq es fs h.2]
  | [], _ :: _, h | _ :: _, [], h => by simp [cElemsEqb] at h
end

def litEqb (a b : Sign × Atom) : Bool := a.1 == b.1 && atomEqb a.2 b.2

theorem litEqb_eq (a b : Sign × Atom) (h : litEqb a b = true) : a = b := by
  obtain ⟨s, a⟩ := a; obtain ⟨t, b⟩ := b
  simp only [litEqb, Bool.and_eq_true, beq_iff_eq] at h
  rw [h.1, atomEqb_eq a b h.2]

def blitEqb : BLit → BLit → Bool
  | .lit a, .lit b => litEqb a b
  | .clit a, .clit b => litEqb a.1 b.1 && litsEqb a.2 b.2
  | _, _ => false

theorem blitEqb_eq : ∀ a b : BLit, blitEqb a b = true → a = b
  | .lit a, .lit b, h => by simp only [blitEqb] at h; rw [litEqb_eq a b h]
  | .clit (a, c), .clit (b, d), h => by
    simp only [blitEqb, Bool.and_eq_true] at h; rw [litEqb_eq a b h.1, litsEqb_eq c d h.2]
  | .lit _, .clit _, h | .clit _, .lit _, h => by simp [blitEqb] at h

/-- `x ∈ l`, decided with the proved test -/
def blitMem (x : BLit) (l : List BLit) : Bool := l.any (blitEqb x)

theorem blitMem_mem {x : BLit} {l : List BLit} (h : blitMem x l = true) : x ∈ l := by
  simp only [blitMem, List.any_eq_true] at h
  obtain ⟨y, hy, he⟩ := h
  rw [blitEqb_eq x y he]; exact hy

end NgoVerif
