import NgoVerif.Sem.Denote
import NgoVerif.Model.Collect
/-!
# Programs: here-and-there models, stable models, strong equivalence (for the typed AST)

The head semantics is a *parameter* (`headSat`): the rewrites proved here only touch bodies, so the theorems hold for
plain, disjunctive, choice and aggregate heads alike.  A statement is satisfied at `(H,T)` iff for every environment
the body implies the head at `(H,T)` and at `(T,T)`.  `StrongEq` = same HT models, hence the same stable models
whatever statements (e.g. facts over any predicate) are added.
-/
namespace NgoVerif.Sem

/-- syntactic global variables of a body: those occurring in a literal outside aggregate elements, or in an
aggregate's guards (conditional literals and aggregate elements have local scope) -/
def blitGlobals : BLit → List String
  | .lit (_, .bagg _ _ lg _ _ rg) => (optGuardTerms lg ++ optGuardTerms rg).flatMap Term.vars
  | .lit (_, .agg lg _ rg) => (optGuardTerms lg ++ optGuardTerms rg).flatMap Term.vars
  | .lit l => litVars l
  | .clit _ => []

def bodyGlobals (b : List BLit) : List String := b.flatMap blitGlobals

structure PParams extends Params where
  /-- satisfaction of a head at an HT pair under an environment (the first argument is the set of global variables
  of the rule: head elements quantify their local ones) -/
  headSat : (String → Prop) → Env → Interp → Interp → Head → Prop
  /-- global variables contributed by the head -/
  headGlobals : Head → List String

variable (P : PParams)

def ruleGlobals (h : Head) (b : List BLit) : List String := P.headGlobals h ++ bodyGlobals b

/-- satisfaction of a statement at `(H,T)`; objectives and directives constrain nothing -/
def stmSat (H T : Interp) : Stm → Prop
  | .rule _ _ h b => ∀ e : Env,
      (bodySat P.toParams (fun v => v ∈ ruleGlobals P h b) e H T b →
        P.headSat (fun v => v ∈ ruleGlobals P h b) e H T h) ∧
      (bodySat P.toParams (fun v => v ∈ ruleGlobals P h b) e T T b →
        P.headSat (fun v => v ∈ ruleGlobals P h b) e T T h)
  | _ => True

def Models (prg : Prog) (H T : Interp) : Prop := ∀ s ∈ prg, stmSat P H T s

def Sub (H T : Interp) : Prop := ∀ a, H a → T a

def Stable (prg : Prog) (T : Interp) : Prop :=
  Models P prg T T ∧ ∀ H, Sub H T → (∃ a, T a ∧ ¬ H a) → ¬ Models P prg H T

/-- the ground tuples an objective contributes in the total interpretation `T` (set semantics) -/
def costTuples (T : Interp) : Stm → (Sym × Sym × List Sym) → Prop
  | .minimize _ _ w p ts b, (wv, pv, tv) => ∃ e : Env,
      bodySat P.toParams (fun v => v ∈ bodyGlobals b ++ (w :: p :: ts).flatMap Term.vars) e T T b ∧
      evalTerm P.toParams e w = some wv ∧ evalTerm P.toParams e p = some pv ∧ evalTerms P.toParams e ts = some tv
  | _, _ => False

def StrongEq (prg prg' : Prog) : Prop := ∀ H T, Models P prg H T ↔ Models P prg' H T

theorem StrongEq.stable {prg prg' : Prog} (h : StrongEq P prg prg') (T : Interp) : Stable P prg T ↔ Stable P prg' T := by
  unfold Stable
  constructor
  · rintro ⟨h1, h2⟩; exact ⟨(h T T).mp h1, fun H hs hp hm => h2 H hs hp ((h H T).mpr hm)⟩
  · rintro ⟨h1, h2⟩; exact ⟨(h T T).mpr h1, fun H hs hp hm => h2 H hs hp ((h H T).mp hm)⟩

/-- strong equivalence is a congruence for program union: adding the same statements on both sides keeps it -/
theorem StrongEq.append {prg prg' : Prog} (h : StrongEq P prg prg') (extra : Prog) :
    StrongEq P (prg ++ extra) (prg' ++ extra) := by
  intro H T
  simp only [Models, List.mem_append]
  constructor
  · intro hm s hs
    rcases hs with hs | hs
    · exact (h H T).mp (fun s' hs' => hm s' (Or.inl hs')) s hs
    · exact hm s (Or.inr hs)
  · intro hm s hs
    rcases hs with hs | hs
    · exact (h H T).mpr (fun s' hs' => hm s' (Or.inl hs')) s hs
    · exact hm s (Or.inr hs)

/-- a statement-wise rewrite that keeps the satisfaction relation of every statement is a strong equivalence -/
theorem strongEq_of_map (f : Stm → Stm) (prg : Prog) (h : ∀ s ∈ prg, ∀ H T, stmSat P H T (f s) ↔ stmSat P H T s) :
    StrongEq P prg (prg.map f) := by
  intro H T
  simp only [Models, List.mem_map]
  constructor
  · rintro hm _ ⟨s, hs, rfl⟩; exact (h s hs H T).mpr (hm s hs)
  · intro hm s hs; exact (h s hs H T).mp (hm _ ⟨s, hs, rfl⟩)

end NgoVerif.Sem
