import NgoVerif.Sem.Denote
import NgoVerif.Model.Collect
/-!
# Coincidence: satisfaction depends only on the values of the variables that occur
-/
namespace NgoVerif.Sem
variable (P : Params)

mutual
theorem evalTerm_congr (e1 e2 : Env) : ∀ t : Term, (∀ v ∈ t.vars, e1 v = e2 v) → evalTerm P e1 t = evalTerm P e2 t
  | .var n, h => by simp [evalTerm, h n (by simp [Term.vars])]
  | .sym s, _ => by simp [evalTerm]
  | .un op a, h => by
    simp only [evalTerm]
    rw [evalTerm_congr e1 e2 a (fun v hv => h v (by simpa [Term.vars] using hv))]
  | .bin op l r, h => by
    simp only [evalTerm]
    rw [evalTerm_congr e1 e2 l (fun v hv => h v (by simp [Term.vars, hv])),
        evalTerm_congr e1 e2 r (fun v hv => h v (by simp [Term.vars, hv]))]
  | .ival _ _, _ => by simp [evalTerm]
  | .fn name args ext, h => by
    simp only [evalTerm]
    rw [evalTerms_congr e1 e2 args (fun v hv => h v (by simpa [Term.vars] using hv))]
  | .pool _, _ => by simp [evalTerm]
theorem evalTerms_congr (e1 e2 : Env) :
    ∀ ts : List Term, (∀ v ∈ ts.flatMap Term.vars, e1 v = e2 v) → evalTerms P e1 ts = evalTerms P e2 ts
  | [], _ => by simp [evalTerms]
  | t :: ts, h => by
    simp only [evalTerms]
    rw [evalTerm_congr e1 e2 t (fun v hv => h v (by simp [hv])),
        evalTerms_congr e1 e2 ts (fun v hv => h v (by simp only [List.flatMap_cons, List.mem_append]; exact Or.inr hv))]
end

theorem groundAtom_congr (e1 e2 : Env) (t : Term) (h : ∀ v ∈ t.vars, e1 v = e2 v) :
    groundAtom P e1 t = groundAtom P e2 t := by
  cases t with
  | fn name args ext =>
    cases ext with
    | false =>
      simp only [groundAtom]
      rw [evalTerms_congr P e1 e2 args (fun v hv => h v (by simpa [Term.vars] using hv))]
    | true => simp [groundAtom]
  | _ => simp [groundAtom]

theorem chainHolds_congr (e1 e2 : Env) :
    ∀ (t : Term) (gs : List Guard), (∀ v ∈ t.vars ++ (gs.map (·.term)).flatMap Term.vars, e1 v = e2 v) →
      (chainHolds P e1 t gs ↔ chainHolds P e2 t gs)
  | t, [], _ => by simp [chainHolds]
  | t, g :: gs, h => by
    simp only [chainHolds]
    rw [evalTerm_congr P e1 e2 t (fun v hv => h v (by simp [hv])),
        evalTerm_congr P e1 e2 g.term (fun v hv => h v (by simp [hv])),
        chainHolds_congr e1 e2 g.term gs (fun v hv => h v (by
          simp only [List.map_cons, List.flatMap_cons, List.mem_append] at hv ⊢
          rcases hv with hv | hv
          · exact Or.inr (Or.inl hv)
          · exact Or.inr (Or.inr hv)))]

theorem guardVal_congr (e1 e2 : Env) (g : Option Guard) (h : ∀ v ∈ (optGuardTerms g).flatMap Term.vars, e1 v = e2 v) :
    guardVal P e1 g = guardVal P e2 g := by
  cases g with
  | none => simp [guardVal]
  | some g =>
    simp only [guardVal]
    rw [evalTerm_congr P e1 e2 g.term (fun v hv => h v (by simpa [optGuardTerms] using hv))]

/-- re-assemble a local environment: `e1'` on the variables `vs`, `e2` elsewhere -/
def patch (vs : List String) (e1' e2 : Env) : Env := fun v => if v ∈ vs then e1' v else e2 v

theorem patch_agree (G : String → Prop) (vs : List String) (e1 e2 e1' : Env)
    (h12 : ∀ v ∈ vs, e1 v = e2 v) (ha : Agree G e1 e1') : Agree G e2 (patch vs e1' e2) := by
  intro v hv
  simp only [patch]
  by_cases hm : v ∈ vs
  · simp only [hm, if_true]; rw [ha v hv, h12 v hm]
  · simp only [hm, if_false]

theorem patch_eq (vs : List String) (e1' e2 : Env) : ∀ v ∈ vs, e1' v = patch vs e1' e2 v := by
  intro v hv; simp [patch, hv]

mutual
theorem litSat_congr (G : String → Prop) (H T : Interp) :
    ∀ (l : Sign × Atom) (e1 e2 : Env), (∀ v ∈ litVars l, e1 v = e2 v) → (litSat P G e1 H T l ↔ litSat P G e2 H T l)
  | (s, a), e1, e2, h => by
    simp only [litSat]
    exact atomSat_congr G H T s a e1 e2 (by simpa [litVars, litTerms] using h)
theorem atomSat_congr (G : String → Prop) (H T : Interp) (s : Sign) :
    ∀ (a : Atom) (e1 e2 : Env), (∀ v ∈ a.terms.flatMap Term.vars, e1 v = e2 v) →
      (atomSat P G e1 H T s a ↔ atomSat P G e2 H T s a)
  | .sym t, e1, e2, h => by
    have := groundAtom_congr P e1 e2 t (by simpa [Atom.terms] using h)
    cases s <;> simp only [atomSat, this]
  | .cmp t gs, e1, e2, h => by
    have := chainHolds_congr P e1 e2 t gs (by simpa [Atom.terms] using h)
    cases s <;> simp only [atomSat, this]
  | .bool b, _, _, _ => by cases s <;> simp [atomSat]
  | .theory _, _, _, _ => by simp [atomSat]
  | .bagg ln cl lg f elems rg, e1, e2, h => by
    simp only [Atom.terms, List.flatMap_append, List.mem_append] at h
    have hl := guardVal_congr P e1 e2 lg (fun v hv => h v (Or.inl (Or.inl hv)))
    have hr := guardVal_congr P e1 e2 rg (fun v hv => h v (Or.inr hv))
    have hH : bTuples P G e1 H H elems = bTuples P G e2 H H elems := by
      funext tup; exact propext (bTuples_congr G H H elems e1 e2 (fun v hv => h v (Or.inl (Or.inr hv))) tup)
    have hT : bTuples P G e1 T T elems = bTuples P G e2 T T elems := by
      funext tup; exact propext (bTuples_congr G T T elems e1 e2 (fun v hv => h v (Or.inl (Or.inr hv))) tup)
    simp only [atomSat, hl, hr, hH, hT]
  | .agg lg elems rg, e1, e2, h => by
    simp only [Atom.terms, List.flatMap_append, List.mem_append] at h
    have hl := guardVal_congr P e1 e2 lg (fun v hv => h v (Or.inl (Or.inl hv)))
    have hr := guardVal_congr P e1 e2 rg (fun v hv => h v (Or.inr hv))
    have hH : cCount P G e1 H H elems = cCount P G e2 H H elems := by
      funext k; exact propext (cCount_congr G H H elems e1 e2 (fun v hv => h v (Or.inl (Or.inr hv))) k)
    have hT : cCount P G e1 T T elems = cCount P G e2 T T elems := by
      funext k; exact propext (cCount_congr G T T elems e1 e2 (fun v hv => h v (Or.inl (Or.inr hv))) k)
    simp only [atomSat, hl, hr, hH, hT]
theorem litsSat_congr (G : String → Prop) (H T : Interp) :
    ∀ (ls : List (Sign × Atom)) (e1 e2 : Env), (∀ v ∈ (litsTerms ls).flatMap Term.vars, e1 v = e2 v) →
      (litsSat P G e1 H T ls ↔ litsSat P G e2 H T ls)
  | [], _, _, _ => by simp [litsSat]
  | l :: ls, e1, e2, h => by
    simp only [litsTerms, List.flatMap_append, List.mem_append] at h
    simp only [litsSat]
    rw [litSat_congr G H T l e1 e2 (fun v hv => h v (Or.inl (by simpa [litVars] using hv))),
        litsSat_congr G H T ls e1 e2 (fun v hv => h v (Or.inr hv))]
theorem bTuples_congr (G : String → Prop) (H T : Interp) :
    ∀ (es : List (List Term × List (Sign × Atom))) (e1 e2 : Env),
      (∀ v ∈ (bElemsTerms es).flatMap Term.vars, e1 v = e2 v) → ∀ tup, (bTuples P G e1 H T es tup ↔ bTuples P G e2 H T es tup)
  | [], _, _, _, tup => by simp [bTuples]
  | (ts, c) :: es, e1, e2, h, tup => by
    simp only [bElemsTerms, List.flatMap_append, List.mem_append] at h
    have ih := bTuples_congr G H T es e1 e2 (fun v hv => h v (Or.inr hv)) tup
    simp only [bTuples, ih]
    -- the variables of this element
    let vs := ts.flatMap Term.vars ++ (litsTerms c).flatMap Term.vars
    have h12 : ∀ v ∈ vs, e1 v = e2 v := by
      intro v hv
      rcases List.mem_append.mp hv with hv | hv
      · exact h v (Or.inl (Or.inl hv))
      · exact h v (Or.inl (Or.inr hv))
    constructor
    · rintro (⟨e', ha, ht, hc⟩ | hrest)
      · left
        refine ⟨patch vs e' e2, patch_agree G vs e1 e2 e' h12 ha, ?_, ?_⟩
        · rw [← evalTerms_congr P e' _ ts (fun v hv => patch_eq vs e' e2 v (List.mem_append_left _ hv))]; exact ht
        · exact (litsSat_congr G H T c e' _ (fun v hv => patch_eq vs e' e2 v (List.mem_append_right _ hv))).mp hc
      · exact Or.inr hrest
    · rintro (⟨e', ha, ht, hc⟩ | hrest)
      · left
        have h21 : ∀ v ∈ vs, e2 v = e1 v := fun v hv => (h12 v hv).symm
        refine ⟨patch vs e' e1, patch_agree G vs e2 e1 e' h21 ha, ?_, ?_⟩
        · rw [← evalTerms_congr P e' _ ts (fun v hv => patch_eq vs e' e1 v (List.mem_append_left _ hv))]; exact ht
        · exact (litsSat_congr G H T c e' _ (fun v hv => patch_eq vs e' e1 v (List.mem_append_right _ hv))).mp hc
      · exact Or.inr hrest
theorem cCount_congr (G : String → Prop) (H T : Interp) :
    ∀ (es : List ((Sign × Atom) × List (Sign × Atom))) (e1 e2 : Env),
      (∀ v ∈ (cElemsTerms es).flatMap Term.vars, e1 v = e2 v) → ∀ k, (cCount P G e1 H T es k ↔ cCount P G e2 H T es k)
  | [], _, _, _, k => by simp [cCount]
  | (l, c) :: es, e1, e2, h, k => by
    simp only [cElemsTerms, List.flatMap_append, List.mem_append] at h
    have ih := cCount_congr G H T es e1 e2 (fun v hv => h v (Or.inr hv)) k
    simp only [cCount, ih]
    let vs := (litTerms l).flatMap Term.vars ++ (litsTerms c).flatMap Term.vars
    have h12 : ∀ v ∈ vs, e1 v = e2 v := by
      intro v hv
      rcases List.mem_append.mp hv with hv | hv
      · exact h v (Or.inl (Or.inl hv))
      · exact h v (Or.inl (Or.inr hv))
    constructor
    · rintro (⟨hk, e', ha, hl, hc⟩ | hrest)
      · left
        refine ⟨hk, patch vs e' e2, patch_agree G vs e1 e2 e' h12 ha, ?_, ?_⟩
        · exact (litSat_congr G H T l e' _ (fun v hv => patch_eq vs e' e2 v (List.mem_append_left _ (by simpa [litVars] using hv)))).mp hl
        · exact (litsSat_congr G H T c e' _ (fun v hv => patch_eq vs e' e2 v (List.mem_append_right _ hv))).mp hc
      · exact Or.inr hrest
    · rintro (⟨hk, e', ha, hl, hc⟩ | hrest)
      · left
        have h21 : ∀ v ∈ vs, e2 v = e1 v := fun v hv => (h12 v hv).symm
        refine ⟨hk, patch vs e' e1, patch_agree G vs e2 e1 e' h21 ha, ?_, ?_⟩
        · exact (litSat_congr G H T l e' _ (fun v hv => patch_eq vs e' e1 v (List.mem_append_left _ (by simpa [litVars] using hv)))).mp hl
        · exact (litsSat_congr G H T c e' _ (fun v hv => patch_eq vs e' e1 v (List.mem_append_right _ hv))).mp hc
      · exact Or.inr hrest
end

theorem condLitSat_congr (G : String → Prop) (H T : Interp) (c : CondLit) (e1 e2 : Env)
    (h : ∀ v ∈ (condLitTerms c).flatMap Term.vars, e1 v = e2 v) :
    condLitSat P G e1 H T c ↔ condLitSat P G e2 H T c := by
  have key : ∀ (ea eb : Env), (∀ v ∈ (condLitTerms c).flatMap Term.vars, ea v = eb v) →
      condLitSat P G ea H T c → condLitSat P G eb H T c := by
    intro ea eb hab hs e' ha
    let vs := (condLitTerms c).flatMap Term.vars
    have hba : ∀ v ∈ vs, eb v = ea v := fun v hv => (hab v hv).symm
    have hp := hs (patch vs e' ea) (patch_agree G vs eb ea e' hba ha)
    have hl : ∀ W W', litSat P G e' W W' c.1 ↔ litSat P G (patch vs e' ea) W W' c.1 := fun W W' =>
      litSat_congr P G W W' c.1 e' _ (fun v hv => patch_eq vs e' ea v (by
        simp only [vs, condLitTerms, List.flatMap_append, List.mem_append]; exact Or.inl (by simpa [litVars] using hv)))
    have hc : ∀ W W', litsSat P G e' W W' c.2 ↔ litsSat P G (patch vs e' ea) W W' c.2 := fun W W' =>
      litsSat_congr P G W W' c.2 e' _ (fun v hv => patch_eq vs e' ea v (by
        simp only [vs, condLitTerms, List.flatMap_append, List.mem_append]; exact Or.inr hv))
    exact ⟨fun x => (hl H T).mpr (hp.1 ((hc H T).mp x)), fun x => (hl T T).mpr (hp.2 ((hc T T).mp x))⟩
  exact ⟨key e1 e2 h, key e2 e1 (fun v hv => (h v hv).symm)⟩

theorem blitSat_congr (G : String → Prop) (H T : Interp) (b : BLit) (e1 e2 : Env)
    (h : ∀ v ∈ b.vars, e1 v = e2 v) : blitSat P G e1 H T b ↔ blitSat P G e2 H T b := by
  cases b with
  | lit l => simp only [blitSat]; exact litSat_congr P G H T l e1 e2 (by simpa [BLit.vars, BLit.terms, litVars] using h)
  | clit c => simp only [blitSat]; exact condLitSat_congr P G H T c e1 e2 (by simpa [BLit.vars, BLit.terms] using h)

/-- **coincidence for bodies** -/
theorem bodySat_congr (G : String → Prop) (H T : Interp) (b : List BLit) (e1 e2 : Env)
    (h : ∀ v ∈ b.flatMap BLit.vars, e1 v = e2 v) : bodySat P G e1 H T b ↔ bodySat P G e2 H T b := by
  simp only [bodySat]
  constructor
  · intro hs l hl
    exact (blitSat_congr P G H T l e1 e2 (fun v hv => h v (List.mem_flatMap.mpr ⟨l, hl, hv⟩))).mp (hs l hl)
  · intro hs l hl
    exact (blitSat_congr P G H T l e1 e2 (fun v hv => h v (List.mem_flatMap.mpr ⟨l, hl, hv⟩))).mpr (hs l hl)

end NgoVerif.Sem
