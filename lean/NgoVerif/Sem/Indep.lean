import NgoVerif.Sem.Denote
/-!
# Independence and persistence of body satisfaction

* a body that mentions no atom of predicate name `n` has the same satisfaction at interpretations that differ only on
  atoms named `n` (`bodySat_indep`);
* satisfaction at `(H,T)` with `H ⊆ T` implies satisfaction at `(T,T)` (`bodySat_pers`), given that the aggregate
  semantics is persistent.
-/
namespace NgoVerif.Sem
variable (P : Params)

/-- a set of predicate signatures, as a decidable test on (name, arity) -/
abbrev Sig := String → Nat → Bool

/-- all predicates of one name, whatever the arity -/
def nameSig (n : String) : Sig := fun m _ => m == n
/-- one predicate `n/k` -/
def predSig (n : String) (k : Nat) : Sig := fun m j => m == n && j == k

def named (n : Sig) : GAtom → Prop := fun a => n a.name a.args.length = true

/-- interpretations that agree on every atom whose predicate is not in `n` -/
def AgreeOffName (n : Sig) (I J : Interp) : Prop := ∀ a, ¬ named n a → (I a ↔ J a)

mutual
/-- no symbolic atom below has predicate name `n` -/
def atomAvoids (n : Sig) : Atom → Bool
  | .sym (.fn name args _) => !n name args.length
  | .sym _ => true
  | .cmp _ _ => true
  | .bool _ => true
  | .theory _ => true
  | .bagg _ _ _ _ es _ => bElemsAvoid n es
  | .agg _ es _ => cElemsAvoid n es
def litsAvoid (n : Sig) : List (Sign × Atom) → Bool
  | [] => true
  | (_, a) :: ls => atomAvoids n a && litsAvoid n ls
def bElemsAvoid (n : Sig) : List (List Term × List (Sign × Atom)) → Bool
  | [] => true
  | (_, c) :: es => litsAvoid n c && bElemsAvoid n es
def cElemsAvoid (n : Sig) : List ((Sign × Atom) × List (Sign × Atom)) → Bool
  | [] => true
  | ((_, a), c) :: es => atomAvoids n a && litsAvoid n c && cElemsAvoid n es
end

def blitAvoids (n : Sig) : BLit → Bool
  | .lit (_, a) => atomAvoids n a
  | .clit ((_, a), c) => atomAvoids n a && litsAvoid n c

def bodyAvoids (n : Sig) (b : List BLit) : Bool := b.all (blitAvoids n)

theorem evalTerms_length (e : Env) : ∀ (ts : List Term) (as : List Sym), evalTerms P e ts = some as → as.length = ts.length
  | [], as, h => by simp only [evalTerms, Option.some.injEq] at h; subst h; rfl
  | t :: ts, as, h => by
    simp only [evalTerms] at h
    split at h
    · rename_i x xs hx hxs
      simp only [Option.some.injEq] at h; subst h
      simp [evalTerms_length e ts xs hxs]
    · cases h

theorem groundAtom_name (e : Env) (t : Term) (a : GAtom) (h : groundAtom P e t = some a) :
    ∃ name args ext, t = .fn name args ext ∧ a.name = name ∧ a.args.length = args.length := by
  cases t with
  | fn name args ext =>
    cases ext with
    | false =>
      simp only [groundAtom, Option.map_eq_some_iff] at h
      obtain ⟨as, has, rfl⟩ := h
      exact ⟨name, args, false, rfl, rfl, evalTerms_length P e args as has⟩
    | true => simp [groundAtom] at h
  | _ => simp [groundAtom] at h

mutual
theorem atomSat_indep (n : Sig) (G : String → Prop) (s : Sign) :
    ∀ (a : Atom), atomAvoids n a = true → ∀ (e : Env) (H T H' T' : Interp),
      AgreeOffName n H H' → AgreeOffName n T T' → (atomSat P G e H T s a ↔ atomSat P G e H' T' s a)
  | .sym t, hav, e, H, T, H', T', aH, aT => by
    have key : ∀ a, groundAtom P e t = some a → ¬ named n a := by
      intro a ha
      obtain ⟨name, args, ext, rfl, hn, hl⟩ := groundAtom_name P e _ a ha
      simp only [atomAvoids, Bool.not_eq_true'] at hav
      simp only [named, hn, hl, hav]
      exact Bool.false_ne_true
    cases s <;> simp only [atomSat]
    · constructor
      · rintro ⟨a, ha, h⟩; exact ⟨a, ha, (aH a (key a ha)).mp h⟩
      · rintro ⟨a, ha, h⟩; exact ⟨a, ha, (aH a (key a ha)).mpr h⟩
    · constructor
      · rintro ⟨a, ha, h⟩; exact ⟨a, ha, fun x => h ((aT a (key a ha)).mpr x)⟩
      · rintro ⟨a, ha, h⟩; exact ⟨a, ha, fun x => h ((aT a (key a ha)).mp x)⟩
    · constructor
      · rintro ⟨a, ha, h⟩; exact ⟨a, ha, (aT a (key a ha)).mp h⟩
      · rintro ⟨a, ha, h⟩; exact ⟨a, ha, (aT a (key a ha)).mpr h⟩
  | .cmp _ _, _, _, _, _, _, _, _, _ => by cases s <;> simp [atomSat]
  | .bool _, _, _, _, _, _, _, _, _ => by cases s <;> simp [atomSat]
  | .theory _, _, _, _, _, _, _, _, _ => by simp [atomSat]
  | .bagg ln cl lg f es rg, hav, e, H, T, H', T', aH, aT => by
    simp only [atomAvoids] at hav
    have hH : bTuples P G e H H es = bTuples P G e H' H' es := by
      funext tup; exact propext (bTuples_indep n G es hav e H H H' H' aH aH tup)
    have hT : bTuples P G e T T es = bTuples P G e T' T' es := by
      funext tup; exact propext (bTuples_indep n G es hav e T T T' T' aT aT tup)
    simp only [atomSat, hH, hT]
  | .agg lg es rg, hav, e, H, T, H', T', aH, aT => by
    simp only [atomAvoids] at hav
    have hH : cCount P G e H H es = cCount P G e H' H' es := by
      funext k; exact propext (cCount_indep n G es hav e H H H' H' aH aH k)
    have hT : cCount P G e T T es = cCount P G e T' T' es := by
      funext k; exact propext (cCount_indep n G es hav e T T T' T' aT aT k)
    simp only [atomSat, hH, hT]
theorem litsSat_indep (n : Sig) (G : String → Prop) :
    ∀ (ls : List (Sign × Atom)), litsAvoid n ls = true → ∀ (e : Env) (H T H' T' : Interp),
      AgreeOffName n H H' → AgreeOffName n T T' → (litsSat P G e H T ls ↔ litsSat P G e H' T' ls)
  | [], _, _, _, _, _, _, _, _ => by simp [litsSat]
  | (s, a) :: ls, hav, e, H, T, H', T', aH, aT => by
    simp only [litsAvoid, Bool.and_eq_true] at hav
    simp only [litsSat, litSat]
    rw [atomSat_indep n G s a hav.1 e H T H' T' aH aT, litsSat_indep n G ls hav.2 e H T H' T' aH aT]
theorem bTuples_indep (n : Sig) (G : String → Prop) :
    ∀ (es : List (List Term × List (Sign × Atom))), bElemsAvoid n es = true → ∀ (e : Env) (H T H' T' : Interp),
      AgreeOffName n H H' → AgreeOffName n T T' → ∀ tup, (bTuples P G e H T es tup ↔ bTuples P G e H' T' es tup)
  | [], _, _, _, _, _, _, _, _, _ => by simp [bTuples]
  | (ts, c) :: es, hav, e, H, T, H', T', aH, aT, tup => by
    simp only [bElemsAvoid, Bool.and_eq_true] at hav
    simp only [bTuples]
    rw [bTuples_indep n G es hav.2 e H T H' T' aH aT tup]
    constructor
    · rintro (⟨e', ha, ht, hc⟩ | h)
      · exact Or.inl ⟨e', ha, ht, (litsSat_indep n G c hav.1 e' H T H' T' aH aT).mp hc⟩
      · exact Or.inr h
    · rintro (⟨e', ha, ht, hc⟩ | h)
      · exact Or.inl ⟨e', ha, ht, (litsSat_indep n G c hav.1 e' H T H' T' aH aT).mpr hc⟩
      · exact Or.inr h
theorem cCount_indep (n : Sig) (G : String → Prop) :
    ∀ (es : List ((Sign × Atom) × List (Sign × Atom))), cElemsAvoid n es = true → ∀ (e : Env) (H T H' T' : Interp),
      AgreeOffName n H H' → AgreeOffName n T T' → ∀ k, (cCount P G e H T es k ↔ cCount P G e H' T' es k)
  | [], _, _, _, _, _, _, _, _, _ => by simp [cCount]
  | ((s, a), c) :: es, hav, e, H, T, H', T', aH, aT, k => by
    simp only [cElemsAvoid, Bool.and_eq_true] at hav
    simp only [cCount]
    rw [cCount_indep n G es hav.2 e H T H' T' aH aT k]
    constructor
    · rintro (⟨hk, e', ha, hl, hc⟩ | h)
      · exact Or.inl ⟨hk, e', ha, (atomSat_indep n G s a hav.1.1 e' H T H' T' aH aT).mp hl,
          (litsSat_indep n G c hav.1.2 e' H T H' T' aH aT).mp hc⟩
      · exact Or.inr h
    · rintro (⟨hk, e', ha, hl, hc⟩ | h)
      · exact Or.inl ⟨hk, e', ha, (atomSat_indep n G s a hav.1.1 e' H T H' T' aH aT).mpr hl,
          (litsSat_indep n G c hav.1.2 e' H T H' T' aH aT).mpr hc⟩
      · exact Or.inr h
end

theorem blitSat_indep (n : Sig) (G : String → Prop) (b : BLit) (hav : blitAvoids n b = true) (e : Env)
    (H T H' T' : Interp) (aH : AgreeOffName n H H') (aT : AgreeOffName n T T') :
    blitSat P G e H T b ↔ blitSat P G e H' T' b := by
  cases b with
  | lit l =>
    obtain ⟨s, a⟩ := l
    simp only [blitSat, litSat]
    exact atomSat_indep P n G s a (by simpa [blitAvoids] using hav) e H T H' T' aH aT
  | clit c =>
    obtain ⟨⟨s, a⟩, cond⟩ := c
    simp only [blitAvoids, Bool.and_eq_true] at hav
    simp only [blitSat, condLitSat, litSat]
    constructor
    · intro h e' ha
      obtain ⟨h1, h2⟩ := h e' ha
      exact ⟨fun x => (atomSat_indep P n G s a hav.1 e' H T H' T' aH aT).mp
               (h1 ((litsSat_indep P n G cond hav.2 e' H T H' T' aH aT).mpr x)),
             fun x => (atomSat_indep P n G s a hav.1 e' T T T' T' aT aT).mp
               (h2 ((litsSat_indep P n G cond hav.2 e' T T T' T' aT aT).mpr x))⟩
    · intro h e' ha
      obtain ⟨h1, h2⟩ := h e' ha
      exact ⟨fun x => (atomSat_indep P n G s a hav.1 e' H T H' T' aH aT).mpr
               (h1 ((litsSat_indep P n G cond hav.2 e' H T H' T' aH aT).mp x)),
             fun x => (atomSat_indep P n G s a hav.1 e' T T T' T' aT aT).mpr
               (h2 ((litsSat_indep P n G cond hav.2 e' T T T' T' aT aT).mp x))⟩

theorem bodySat_indep (n : Sig) (G : String → Prop) (b : List BLit) (hav : bodyAvoids n b = true) (e : Env)
    (H T H' T' : Interp) (aH : AgreeOffName n H H') (aT : AgreeOffName n T T') :
    bodySat P G e H T b ↔ bodySat P G e H' T' b := by
  simp only [bodyAvoids, List.all_eq_true] at hav
  simp only [bodySat]
  constructor
  · intro h l hl; exact (blitSat_indep P n G l (hav l hl) e H T H' T' aH aT).mp (h l hl)
  · intro h l hl; exact (blitSat_indep P n G l (hav l hl) e H T H' T' aH aT).mpr (h l hl)

/-! ### persistence -/

/-- the aggregate semantics is persistent: holding at `(H,T)` implies holding at `(T,T)` -/
structure AggPersistent : Prop where
  agg : ∀ s lg f rg X Y, P.aggRel s lg f rg X Y → P.aggRel s lg f rg Y Y
  old : ∀ s lg rg X Y, P.oldAggRel s lg rg X Y → P.oldAggRel s lg rg Y Y

theorem litSat_pers (hp : AggPersistent P) (G : String → Prop) (e : Env) (H T : Interp) (hs : ∀ a, H a → T a) :
    ∀ l : Sign × Atom, litSat P G e H T l → litSat P G e T T l
  | (s, .sym t), h => by
    cases s <;> simp only [litSat, atomSat] at h ⊢
    · obtain ⟨a, ha, hh⟩ := h; exact ⟨a, ha, hs a hh⟩
    · exact h
    · exact h
  | (s, .cmp _ _), h => by cases s <;> simpa [litSat, atomSat] using h
  | (s, .bool _), h => by cases s <;> simpa [litSat, atomSat] using h
  | (s, .theory _), h => by simp [litSat, atomSat] at h
  | (s, .bagg ..), h => by simp only [litSat, atomSat] at h ⊢; exact hp.agg _ _ _ _ _ _ h
  | (s, .agg ..), h => by simp only [litSat, atomSat] at h ⊢; exact hp.old _ _ _ _ _ h

theorem bodySat_pers (hp : AggPersistent P) (G : String → Prop) (e : Env) (H T : Interp) (hs : ∀ a, H a → T a)
    (b : List BLit) (h : bodySat P G e H T b) : bodySat P G e T T b := by
  intro l hl
  have := h l hl
  cases l with
  | lit l => exact litSat_pers P hp G e H T hs l this
  | clit c =>
    intro e' ha
    have h2 := (this e' ha).2
    exact ⟨h2, h2⟩

end NgoVerif.Sem
