import NgoVerif.Sem.Program
import NgoVerif.Meta.Basic
/-!
# A typed program denotes a ground here-and-there program

`denote prg` is the set of satisfaction relations of the statements of `prg`; models and stable models of the typed
program are those of its denotation, so every theorem of the ground-level meta theory (`Meta/*`) applies to programs.
-/
namespace NgoVerif.Sem
variable (P : PParams)

def denote (prg : Prog) : HT.Prog GAtom := fun r => ∃ s ∈ prg, r = fun H T => stmSat P H T s

theorem models_denote (prg : Prog) (H T : Interp) : HT.Models (denote P prg) H T ↔ Models P prg H T := by
  constructor
  · intro h s hs; exact h _ ⟨s, hs, rfl⟩
  · rintro h r ⟨s, hs, rfl⟩; exact h s hs

theorem stable_denote (prg : Prog) (T : Interp) : HT.Stable (denote P prg) T ↔ Stable P prg T := by
  unfold HT.Stable Stable HT.SSub
  rw [models_denote]
  constructor
  · rintro ⟨h1, h2⟩
    exact ⟨h1, fun H hs hp hm => h2 H ⟨hs, hp⟩ ((models_denote P prg H T).mpr hm)⟩
  · rintro ⟨h1, h2⟩
    exact ⟨h1, fun H hs hm => h2 H hs.1 hs.2 ((models_denote P prg H T).mp hm)⟩

theorem stable_of_models {A B : HT.Prog GAtom} (h : ∀ H T, HT.Models A H T ↔ HT.Models B H T) (T : Interp) :
    HT.Stable A T ↔ HT.Stable B T := by
  unfold HT.Stable
  rw [h T T]
  constructor
  · rintro ⟨h1, h2⟩; exact ⟨h1, fun H hs hm => h2 H hs ((h H T).mpr hm)⟩
  · rintro ⟨h1, h2⟩; exact ⟨h1, fun H hs hm => h2 H hs ((h H T).mp hm)⟩

end NgoVerif.Sem
