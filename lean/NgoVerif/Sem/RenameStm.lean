import NgoVerif.Sem.Rename
import NgoVerif.Sem.Head
/-!
# A rule with a plain head means the same after a bijective renaming of its variables

For an involution `σ` of the variables, `aux(vs) :- B.` and `aux(σ vs) :- σ B.` have the same here-and-there models
(the instance of the renamed rule at `e` is the instance of the original at `e ∘ σ`).  This lets the auxiliary rule
`duplication` emits (over canonical variable names) stand for the copy of the literal set at each place of use.
-/
namespace NgoVerif.Sem
variable (P : Params)

mutual
theorem vars_renameTerm (σ : String → String) : ∀ t : Term, (renameTerm σ t).vars = t.vars.map σ
  | .var n => by simp [renameTerm, Term.vars]
  | .sym s => by simp [renameTerm, Term.vars]
  | .un op a => by simp only [renameTerm, Term.vars, vars_renameTerm σ a]
  | .bin op l r => by simp only [renameTerm, Term.vars, vars_renameTerm σ l, vars_renameTerm σ r, List.map_append]
  | .ival l r => by simp only [renameTerm, Term.vars, vars_renameTerm σ l, vars_renameTerm σ r, List.map_append]
  | .fn name args ext => by simp only [renameTerm, Term.vars, vars_renameTerms σ args]
  | .pool args => by simp only [renameTerm, Term.vars, vars_renameTerms σ args]
theorem vars_renameTerms (σ : String → String) :
    ∀ ts : List Term, (renameTerms σ ts).flatMap Term.vars = (ts.flatMap Term.vars).map σ
  | [] => by simp [renameTerms]
  | t :: ts => by
    simp only [renameTerms, List.flatMap_cons, vars_renameTerm σ t, vars_renameTerms σ ts, List.map_append]
end

theorem vars_renameGuards (σ : String → String) :
    ∀ gs : List Guard, ((renameGuards σ gs).map (·.term)).flatMap Term.vars = ((gs.map (·.term)).flatMap Term.vars).map σ
  | [] => by simp [renameGuards]
  | g :: gs => by
    simp only [renameGuards, renameGuard, List.map_cons, List.flatMap_cons, vars_renameTerm, vars_renameGuards σ gs,
      List.map_append]

theorem vars_renameOptGuard (σ : String → String) (g : Option Guard) :
    (optGuardTerms (renameOptGuard σ g)).flatMap Term.vars = ((optGuardTerms g).flatMap Term.vars).map σ := by
  cases g with
  | none => simp [renameOptGuard, optGuardTerms]
  | some g => simp [renameOptGuard, renameGuard, optGuardTerms, vars_renameTerm]

theorem blitGlobals_rename (σ : String → String) (b : BLit) :
    blitGlobals (renameBLit σ b) = (blitGlobals b).map σ := by
  cases b with
  | clit c => simp [renameBLit, blitGlobals]
  | lit l =>
    obtain ⟨s, a⟩ := l
    cases a with
    | sym t => simp [renameBLit, renameLit, renameAtom, blitGlobals, litVars, litTerms, Atom.terms, vars_renameTerm]
    | cmp t gs =>
      simp only [renameBLit, renameLit, renameAtom, blitGlobals, litVars, litTerms, Atom.terms, List.flatMap_cons,
        vars_renameTerm, vars_renameGuards, List.map_append]
    | bool b => simp [renameBLit, renameLit, renameAtom, blitGlobals, litVars, litTerms, Atom.terms]
    | theory t => simp [renameBLit, renameLit, renameAtom, blitGlobals, litVars, litTerms, Atom.terms]
    | bagg l c lg f es rg =>
      simp only [renameBLit, renameLit, renameAtom, blitGlobals, List.flatMap_append, vars_renameOptGuard, List.map_append]
    | agg lg es rg =>
      simp only [renameBLit, renameLit, renameAtom, blitGlobals, List.flatMap_append, vars_renameOptGuard, List.map_append]

theorem bodyGlobals_rename (σ : String → String) (b : List BLit) :
    bodyGlobals (renameBody σ b) = (bodyGlobals b).map σ := by
  induction b with
  | nil => simp [renameBody, bodyGlobals]
  | cons x xs ih =>
    simp only [renameBody, bodyGlobals, List.map_cons, List.flatMap_cons, blitGlobals_rename, List.map_append] at ih ⊢
    rw [ih]

/-- a plain atom over variables -/
def varAtomHead (name : String) (vs : List String) : Head := .lit (.pos, .sym (.fn name (vs.map Term.var) false))

theorem evalTerms_vars' (e : Env) (vs : List String) : evalTerms P e (vs.map Term.var) = some (vs.map e) := by
  induction vs with
  | nil => simp [evalTerms]
  | cons v vs ih => simp [evalTerms, evalTerm, ih]

theorem varAtomHead_sat (G : String → Prop) (e : Env) (H T : Interp) (name : String) (vs : List String) :
    stdHeadSat P G e H T (varAtomHead name vs) ↔ H ⟨name, vs.map e⟩ := by
  simp only [varAtomHead, stdHeadSat, headLitSat, groundAtom, evalTerms_vars', Option.map_some, Option.some.injEq]
  constructor
  · intro h; exact h _ rfl
  · rintro h a rfl; exact h

theorem varAtomHead_globals (name : String) (vs : List String) : stdHeadGlobals (varAtomHead name vs) = vs := by
  simp only [varAtomHead, stdHeadGlobals, litVars, litTerms, Atom.terms, List.flatMap_cons, List.flatMap_nil,
    List.append_nil, Term.vars]
  induction vs with
  | nil => rfl
  | cons v vs ih => simp [Term.vars, ih]

/-- **renaming a rule with a variable-atom head** -/
theorem auxRule_rename (σ : String → String) (hinv : ∀ v, σ (σ v) = v) (l c l' c' : Nat) (name : String) (vs : List String)
    (b : List BLit) (H T : Interp) :
    stmSat (stdParams P) H T (.rule l c (varAtomHead name vs) b) ↔
      stmSat (stdParams P) H T (.rule l' c' (varAtomHead name (vs.map σ)) (renameBody σ b)) := by
  simp only [stmSat, stdParams_headSat, stdParams_toParams, varAtomHead_sat]
  have hG : renameG σ (fun v => v ∈ ruleGlobals (stdParams P) (varAtomHead name (vs.map σ)) (renameBody σ b)) =
      (fun v => v ∈ ruleGlobals (stdParams P) (varAtomHead name vs) b) := by
    funext v
    apply propext
    show σ v ∈ stdHeadGlobals (varAtomHead name (vs.map σ)) ++ bodyGlobals (renameBody σ b) ↔
      v ∈ stdHeadGlobals (varAtomHead name vs) ++ bodyGlobals b
    rw [varAtomHead_globals, varAtomHead_globals, bodyGlobals_rename, ← List.map_append]
    constructor
    · intro h
      obtain ⟨w, hw, hwv⟩ := List.mem_map.mp h
      have : w = v := by rw [← hinv w, hwv, hinv]
      rw [← this]; exact hw
    · intro h; exact List.mem_map.mpr ⟨v, h, rfl⟩
  have hb : ∀ (e : Env) (W W' : Interp),
      bodySat P (fun v => v ∈ ruleGlobals (stdParams P) (varAtomHead name (vs.map σ)) (renameBody σ b)) e W W' (renameBody σ b) ↔
      bodySat P (fun v => v ∈ ruleGlobals (stdParams P) (varAtomHead name vs) b) (fun v => e (σ v)) W W' b := by
    intro e W W'
    rw [bodySat_rename P σ hinv _ W W' b e, hG]
  have hm : ∀ e : Env, (vs.map σ).map e = vs.map (fun v => e (σ v)) := by
    intro e; simp [List.map_map, Function.comp_def]
  constructor
  · intro h e
    have := h (fun v => e (σ v))
    simp only [hb, hm]
    exact this
  · intro h e
    have := h (fun v => e (σ v))
    simp only [hb, hm] at this
    have he : (fun v => (fun w => e (σ w)) (σ v)) = e := by funext v; simp [hinv]
    simp only [he] at this
    exact this

end NgoVerif.Sem
