import NgoVerif.Syntax
/-!
# Here-and-there satisfaction for the typed AST (bodies) — the bridge from syntax to the ground-level meta theory

`Env` assigns ground terms (`Sym`) to variables; an interpretation is a set of ground atoms; `(H, T)` is a
here-and-there pair.  The semantics is parametric in
* `rel`    : the meaning of the six comparison operators on ground terms (clingo's total order — not needed by the
             theorems below, which hold for every `rel`),
* `arith`  : evaluation of unary/binary arithmetic on ground terms (`none` = undefined: the instance is dropped),
* `aggRel` : when an aggregate literal holds, as a function of its sign, guards, function and of the *sets of tuples*
             contributed at `H` and at `T` (Ferraris / Abstract-Gringo reading: both worlds are consulted),
* `G`      : the set of global variables of the statement, as a predicate on names (a local variable of an element /
             conditional literal is quantified inside it).
Theorems about rewrites of *conditions* and *comparison literals* are proved for all four parameters.
-/
namespace NgoVerif.Sem

abbrev Env := String → Sym

structure GAtom where
  name : String
  args : List Sym

abbrev Interp := GAtom → Prop

structure Params where
  rel : CmpOp → Sym → Sym → Prop
  un : UnOp → Sym → Option Sym
  bin : BinOp → Sym → Sym → Option Sym
  aggRel : Sign → Option (CmpOp × Option Sym) → AggFun → Option (CmpOp × Option Sym) →
    (List Sym → Prop) → (List Sym → Prop) → Prop
  oldAggRel : Sign → Option (CmpOp × Option Sym) → Option (CmpOp × Option Sym) →
    (Nat → Prop) → (Nat → Prop) → Prop

variable (P : Params)

mutual
/-- ground value of a term; intervals and pools have no single value (`none`) -/
def evalTerm (e : Env) : Term → Option Sym
  | .var n => some (e n)
  | .sym s => some s
  | .un op a => (evalTerm e a).bind (P.un op)
  | .bin op l r =>
    match evalTerm e l, evalTerm e r with
    | some x, some y => P.bin op x y
    | _, _ => none
  | .ival _ _ => none
  | .fn name args ext => if ext then none else (evalTerms e args).map fun as => Sym.fn name as true
  | .pool _ => none
def evalTerms (e : Env) : List Term → Option (List Sym)
  | [] => some []
  | t :: ts =>
    match evalTerm e t, evalTerms e ts with
    | some x, some xs => some (x :: xs)
    | _, _ => none
end

/-- the ground atom named by the symbol of a symbolic atom -/
def groundAtom (e : Env) : Term → Option GAtom
  | .fn name args false => (evalTerms P e args).map fun as => ⟨name, as⟩
  | _ => none

/-- a comparison chain holds: every term is defined and every link is in relation -/
def chainHolds (e : Env) : Term → List Guard → Prop
  | _, [] => True
  | t, g :: gs =>
    (∃ x y, evalTerm P e t = some x ∧ evalTerm P e g.term = some y ∧ P.rel g.op x y) ∧ chainHolds e g.term gs

def guardVal (e : Env) : Option Guard → Option (CmpOp × Option Sym)
  | none => none
  | some g => some (g.op, evalTerm P e g.term)

/-- `e'` may differ from `e` only on local (non-global) variables -/
def Agree (G : String → Prop) (e e' : Env) : Prop := ∀ v, G v → e' v = e v

mutual
/-- satisfaction of a literal `(sign, atom)` at the here-and-there pair `(H, T)` -/
def litSat (G : String → Prop) (e : Env) (H T : Interp) : Sign × Atom → Prop
  | (s, a) => atomSat G e H T s a
def atomSat (G : String → Prop) (e : Env) (H T : Interp) (s : Sign) : Atom → Prop
  | .sym t =>
    match s with
    | .pos => ∃ a, groundAtom P e t = some a ∧ H a
    | .neg => ∃ a, groundAtom P e t = some a ∧ ¬ T a
    | .dneg => ∃ a, groundAtom P e t = some a ∧ T a
  | .cmp t gs =>
    match s with
    | .pos => chainHolds P e t gs
    | .neg => ¬ chainHolds P e t gs
    | .dneg => chainHolds P e t gs
  | .bool b =>
    match s with
    | .pos => b = true
    | .neg => b = false
    | .dneg => b = true
  | .bagg _ _ lg f elems rg =>
    P.aggRel s (guardVal P e lg) f (guardVal P e rg) (bTuples G e H H elems) (bTuples G e T T elems)
  | .agg lg elems rg =>
    P.oldAggRel s (guardVal P e lg) (guardVal P e rg) (cCount G e H H elems) (cCount G e T T elems)
  | .theory _ => False
def litsSat (G : String → Prop) (e : Env) (H T : Interp) : List (Sign × Atom) → Prop
  | [] => True
  | l :: ls => litSat G e H T l ∧ litsSat G e H T ls
/-- the tuples an aggregate's elements contribute at a world -/
def bTuples (G : String → Prop) (e : Env) (H T : Interp) : List (List Term × List (Sign × Atom)) → List Sym → Prop
  | [], _ => False
  | (ts, c) :: es, tup =>
    (∃ e', Agree G e e' ∧ evalTerms P e' ts = some tup ∧ litsSat G e' H T c) ∨ bTuples G e H T es tup
/-- old-style aggregates count satisfied elements; `k` indexes the element -/
def cCount (G : String → Prop) (e : Env) (H T : Interp) : List ((Sign × Atom) × List (Sign × Atom)) → Nat → Prop
  | [], _ => False
  | (l, c) :: es, k =>
    (k = es.length ∧ ∃ e', Agree G e e' ∧ litSat G e' H T l ∧ litsSat G e' H T c) ∨ cCount G e H T es k
end

/-- a conditional literal `l : c̄` in a body: for every binding of its local variables, at both worlds -/
def condLitSat (G : String → Prop) (e : Env) (H T : Interp) (c : CondLit) : Prop :=
  ∀ e', Agree G e e' →
    (litsSat P G e' H T c.2 → litSat P G e' H T c.1) ∧ (litsSat P G e' T T c.2 → litSat P G e' T T c.1)

def blitSat (G : String → Prop) (e : Env) (H T : Interp) : BLit → Prop
  | .lit l => litSat P G e H T l
  | .clit c => condLitSat P G e H T c

def bodySat (G : String → Prop) (e : Env) (H T : Interp) (b : List BLit) : Prop := ∀ l ∈ b, blitSat P G e H T l

/- realise the equation lemmas of the non-recursive definitions here, in their defining module, so that two proof
files that unfold them can be imported together -/
theorem condLitSat_iff (G : String → Prop) (e : Env) (H T : Interp) (c : CondLit) :
    condLitSat P G e H T c ↔ ∀ e', Agree G e e' →
      (litsSat P G e' H T c.2 → litSat P G e' H T c.1) ∧ (litsSat P G e' T T c.2 → litSat P G e' T T c.1) := by
  simp only [condLitSat]

theorem bodySat_iff (G : String → Prop) (e : Env) (H T : Interp) (b : List BLit) :
    bodySat P G e H T b ↔ ∀ l ∈ b, blitSat P G e H T l := by
  simp only [bodySat]

theorem blitSat_lit (G : String → Prop) (e : Env) (H T : Interp) (l : Sign × Atom) :
    blitSat P G e H T (.lit l) ↔ litSat P G e H T l := by
  simp only [blitSat]

theorem blitSat_clit (G : String → Prop) (e : Env) (H T : Interp) (c : CondLit) :
    blitSat P G e H T (.clit c) ↔ condLitSat P G e H T c := by
  simp only [blitSat]

theorem agree_iff (G : String → Prop) (e e' : Env) : Agree G e e' ↔ ∀ v, G v → e' v = e v := by
  simp only [Agree]

theorem guardVal_none (e : Env) : guardVal P e none = none := by simp only [guardVal]

theorem groundAtom_fn (e : Env) (name : String) (args : List Term) :
    groundAtom P e (.fn name args false) = (evalTerms P e args).map fun as => ⟨name, as⟩ := by
  simp only [groundAtom]

end NgoVerif.Sem
