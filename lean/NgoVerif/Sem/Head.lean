import NgoVerif.Sem.Program
import NgoVerif.Sem.Indep
import NgoVerif.Sem.Coincidence
import NgoVerif.Sem.GCongr
/-!
# A concrete head semantics (Abstract-Gringo reading) and its independence / persistence properties

`Sem/Program.lean` keeps the meaning of heads a parameter (`PParams.headSat`), because the rewrites proved there only
touch bodies.  The theorems that *add or delete whole rules* (definitional extensions: `unused`, `projection`,
`duplication`, the domain/order templates) need to know what a head means.  `stdHeadSat` is the reading clingo
implements:

* `a :- B.`          the instance is satisfied iff `a ∈ H`; an instance whose head term is undefined is dropped
                      (satisfied), `not a` / `not not a` in a head read `¬T a` / `T a`, `#false` is never satisfied;
* `l₁:c̄₁ ; … :- B.`  some instance of some element has its condition and its literal true (an element whose condition
                      is false contributes nothing: `a : b.` alone is unsatisfiable - checked against clingo 5.8);
* `lg { l:c̄ ; … } rg :- B.`  every instance whose condition holds is *free* (`l ∨ ¬l`), and the bounds hold in `T`
                      (a choice rule with bounds is the unbounded choice plus the constraint `:- B, not lg {…} rg`);
* `lg #f { t̄ : l : c̄ ; … } rg :- B.` likewise with the aggregate relation on tuples.

`stdParams P` packages it as a `PParams`; the lemmas below discharge the head-related fields of the side conditions
(`Cond` in `Proofs/C16sem.lean`, the hypotheses of `Proofs/C09sem.lean`) for it.
-/
namespace NgoVerif.Sem
variable (P : Params)

/-- a literal in head position -/
def headLitSat (G : String → Prop) (e : Env) (H T : Interp) : Sign × Atom → Prop
  | (.pos, .sym t) => ∀ a, groundAtom P e t = some a → H a
  | (.neg, .sym t) => ∀ a, groundAtom P e t = some a → ¬ T a
  | (.dneg, .sym t) => ∀ a, groundAtom P e t = some a → T a
  | (s, .cmp t gs) => litSat P G e H T (s, .cmp t gs)
  | (s, .bool b) => litSat P G e H T (s, .bool b)
  | (s, .bagg l c lg f es rg) => litSat P G e H T (s, .bagg l c lg f es rg)
  | (s, .agg lg es rg) => litSat P G e H T (s, .agg lg es rg)
  | (_, .theory _) => False

/-- every element instance whose condition holds is free: `l ∨ ¬ l` in here-and-there -/
def choiceOk (G : String → Prop) (e : Env) (H T : Interp) (elems : List CondLit) : Prop :=
  ∀ c ∈ elems, ∀ e', Agree G e e' → litsSat P G e' H T c.2 → (litSat P G e' H T c.1 ∨ ¬ litSat P G e' T T c.1)

def haggTuples (elems : List (List Term × CondLit)) : List (List Term × List (Sign × Atom)) :=
  elems.map fun x => (x.1, x.2.1 :: x.2.2)

def stdHeadSat (G : String → Prop) (e : Env) (H T : Interp) : Head → Prop
  | .lit l => headLitSat P G e H T l
  | .disj elems => ∃ c ∈ elems, ∃ e', Agree G e e' ∧ litsSat P G e' H T c.2 ∧ litSat P G e' H T c.1
  | .agg lg elems rg =>
    choiceOk P G e H T elems ∧
      P.oldAggRel .dneg (guardVal P e lg) (guardVal P e rg) (cCount P G e H H elems) (cCount P G e T T elems)
  | .hagg lg f elems rg =>
    choiceOk P G e H T (elems.map (·.2)) ∧
      P.aggRel .dneg (guardVal P e lg) f (guardVal P e rg) (bTuples P G e H H (haggTuples elems))
        (bTuples P G e T T (haggTuples elems))
  | .theory _ => False

/-! ### equation lemmas, realised once -/
theorem headLitSat_pos_sym (G : String → Prop) (e : Env) (H T : Interp) (t : Term) :
    headLitSat P G e H T (.pos, .sym t) ↔ ∀ a, groundAtom P e t = some a → H a := by simp only [headLitSat]

theorem stdHeadSat_lit (G : String → Prop) (e : Env) (H T : Interp) (l : Lit) :
    stdHeadSat P G e H T (.lit l) ↔ headLitSat P G e H T l := by simp only [stdHeadSat]

/-- **plain atom head**: when the head term is defined, the instance is satisfied iff its ground atom is in `H` -/
theorem stdHeadSat_atom (G : String → Prop) (e : Env) (H T : Interp) (t : Term) (a : GAtom)
    (ha : groundAtom P e t = some a) : stdHeadSat P G e H T (.lit (.pos, .sym t)) ↔ H a := by
  simp only [stdHeadSat, headLitSat]
  constructor
  · intro h; exact h a ha
  · intro h b hb; rw [ha] at hb; cases hb; exact h

/-! ### independence of atoms the head does not mention -/

def condLitAvoids (n : Sig) (c : CondLit) : Bool := atomAvoids n c.1.2 && litsAvoid n c.2

def headAvoids (n : Sig) : Head → Bool
  | .lit l => atomAvoids n l.2
  | .disj elems => elems.all (condLitAvoids n)
  | .agg _ elems _ => elems.all (condLitAvoids n)
  | .hagg _ _ elems _ => elems.all fun x => condLitAvoids n x.2
  | .theory _ => true

theorem cElemsAvoid_of_all (n : Sig) : ∀ (es : List CondLit), es.all (condLitAvoids n) = true → cElemsAvoid n es = true
  | [], _ => by simp [cElemsAvoid]
  | ((s, a), c) :: es, h => by
    simp only [List.all_cons, Bool.and_eq_true, condLitAvoids] at h
    simp only [cElemsAvoid, Bool.and_eq_true]
    exact ⟨⟨h.1.1, h.1.2⟩, cElemsAvoid_of_all n es h.2⟩

theorem bElemsAvoid_hagg (n : Sig) : ∀ (es : List (List Term × CondLit)),
    (es.all fun x => condLitAvoids n x.2) = true → bElemsAvoid n (haggTuples es) = true
  | [], _ => by simp [haggTuples, bElemsAvoid]
  | (ts, ((s, a), c)) :: es, h => by
    simp only [List.all_cons, Bool.and_eq_true, condLitAvoids] at h
    have ih := bElemsAvoid_hagg n es h.2
    simp only [haggTuples, List.map_cons, bElemsAvoid, litsAvoid, Bool.and_eq_true] at ih ⊢
    exact ⟨⟨h.1.1, h.1.2⟩, ih⟩

theorem litSat_indep (n : Sig) (G : String → Prop) (l : Sign × Atom) (hav : atomAvoids n l.2 = true) (e : Env)
    (H T H' T' : Interp) (aH : AgreeOffName n H H') (aT : AgreeOffName n T T') :
    litSat P G e H T l ↔ litSat P G e H' T' l := by
  obtain ⟨s, a⟩ := l
  simp only [litSat]
  exact atomSat_indep P n G s a hav e H T H' T' aH aT

theorem headLitSat_indep (n : Sig) (G : String → Prop) (l : Sign × Atom) (hav : atomAvoids n l.2 = true) (e : Env)
    (H T H' T' : Interp) (aH : AgreeOffName n H H') (aT : AgreeOffName n T T') :
    headLitSat P G e H T l ↔ headLitSat P G e H' T' l := by
  obtain ⟨s, a⟩ := l
  cases a with
  | sym t =>
    have key : ∀ a, groundAtom P e t = some a → ¬ named n a := by
      intro a ha
      obtain ⟨name, args, ext, rfl, hn, hl⟩ := groundAtom_name P e t a ha
      simp only [atomAvoids, Bool.not_eq_true'] at hav
      simp only [named, hn, hl, hav]
      exact Bool.false_ne_true
    cases s <;> simp only [headLitSat]
    · exact ⟨fun h a ha => (aH a (key a ha)).mp (h a ha), fun h a ha => (aH a (key a ha)).mpr (h a ha)⟩
    · exact ⟨fun h a ha hn => h a ha ((aT a (key a ha)).mpr hn), fun h a ha hn => h a ha ((aT a (key a ha)).mp hn)⟩
    · exact ⟨fun h a ha => (aT a (key a ha)).mp (h a ha), fun h a ha => (aT a (key a ha)).mpr (h a ha)⟩
  | cmp t gs => simp only [headLitSat]; exact litSat_indep P n G _ hav e H T H' T' aH aT
  | bool b => simp only [headLitSat]; exact litSat_indep P n G _ hav e H T H' T' aH aT
  | bagg l c lg f es rg => simp only [headLitSat]; exact litSat_indep P n G _ hav e H T H' T' aH aT
  | agg lg es rg => simp only [headLitSat]; exact litSat_indep P n G _ hav e H T H' T' aH aT
  | theory t => simp only [headLitSat]

theorem choiceOk_indep (n : Sig) (G : String → Prop) (elems : List CondLit)
    (hav : elems.all (condLitAvoids n) = true) (e : Env)
    (H T H' T' : Interp) (aH : AgreeOffName n H H') (aT : AgreeOffName n T T') :
    choiceOk P G e H T elems ↔ choiceOk P G e H' T' elems := by
  simp only [List.all_eq_true, condLitAvoids, Bool.and_eq_true] at hav
  simp only [choiceOk]
  constructor
  · intro h c hc e' ha hcond
    have := h c hc e' ha ((litsSat_indep P n G c.2 (hav c hc).2 e' H T H' T' aH aT).mpr hcond)
    rcases this with h1 | h1
    · exact Or.inl ((litSat_indep P n G c.1 (hav c hc).1 e' H T H' T' aH aT).mp h1)
    · exact Or.inr fun h2 => h1 ((litSat_indep P n G c.1 (hav c hc).1 e' T T T' T' aT aT).mpr h2)
  · intro h c hc e' ha hcond
    have := h c hc e' ha ((litsSat_indep P n G c.2 (hav c hc).2 e' H T H' T' aH aT).mp hcond)
    rcases this with h1 | h1
    · exact Or.inl ((litSat_indep P n G c.1 (hav c hc).1 e' H T H' T' aH aT).mpr h1)
    · exact Or.inr fun h2 => h1 ((litSat_indep P n G c.1 (hav c hc).1 e' T T T' T' aT aT).mp h2)

/-- **a head that does not mention predicate `n` does not depend on the atoms of `n`** -/
theorem stdHeadSat_indep (n : Sig) (G : String → Prop) (h : Head) (hav : headAvoids n h = true) (e : Env)
    (H T H' T' : Interp) (aH : AgreeOffName n H H') (aT : AgreeOffName n T T') :
    stdHeadSat P G e H T h ↔ stdHeadSat P G e H' T' h := by
  cases h with
  | lit l => simp only [stdHeadSat]; exact headLitSat_indep P n G l hav e H T H' T' aH aT
  | disj elems =>
    simp only [headAvoids, List.all_eq_true, condLitAvoids, Bool.and_eq_true] at hav
    simp only [stdHeadSat]
    constructor
    · rintro ⟨c, hc, e', ha, h1, h2⟩
      exact ⟨c, hc, e', ha, (litsSat_indep P n G c.2 (hav c hc).2 e' H T H' T' aH aT).mp h1,
        (litSat_indep P n G c.1 (hav c hc).1 e' H T H' T' aH aT).mp h2⟩
    · rintro ⟨c, hc, e', ha, h1, h2⟩
      exact ⟨c, hc, e', ha, (litsSat_indep P n G c.2 (hav c hc).2 e' H T H' T' aH aT).mpr h1,
        (litSat_indep P n G c.1 (hav c hc).1 e' H T H' T' aH aT).mpr h2⟩
  | agg lg elems rg =>
    simp only [headAvoids] at hav
    simp only [stdHeadSat]
    have hH : cCount P G e H H elems = cCount P G e H' H' elems := by
      funext k; exact propext (cCount_indep P n G elems (cElemsAvoid_of_all n elems hav) e H H H' H' aH aH k)
    have hT : cCount P G e T T elems = cCount P G e T' T' elems := by
      funext k; exact propext (cCount_indep P n G elems (cElemsAvoid_of_all n elems hav) e T T T' T' aT aT k)
    rw [hH, hT, choiceOk_indep P n G elems hav e H T H' T' aH aT]
  | hagg lg f elems rg =>
    simp only [headAvoids] at hav
    simp only [stdHeadSat]
    have hav' : (elems.map (·.2)).all (condLitAvoids n) = true := by
      simpa [List.all_map, Function.comp_def] using hav
    have hH : bTuples P G e H H (haggTuples elems) = bTuples P G e H' H' (haggTuples elems) := by
      funext k; exact propext (bTuples_indep P n G _ (bElemsAvoid_hagg n elems hav) e H H H' H' aH aH k)
    have hT : bTuples P G e T T (haggTuples elems) = bTuples P G e T' T' (haggTuples elems) := by
      funext k; exact propext (bTuples_indep P n G _ (bElemsAvoid_hagg n elems hav) e T T T' T' aT aT k)
    rw [hH, hT, choiceOk_indep P n G _ hav' e H T H' T' aH aT]
  | theory t => simp only [stdHeadSat]


/-! ### coincidence: a head depends only on the values of the variables that occur in it -/

theorem headLitSat_congr (G : String → Prop) (H T : Interp) (l : Sign × Atom) (e1 e2 : Env)
    (h : ∀ v ∈ litVars l, e1 v = e2 v) : headLitSat P G e1 H T l ↔ headLitSat P G e2 H T l := by
  obtain ⟨s, a⟩ := l
  cases a with
  | sym t =>
    have := groundAtom_congr P e1 e2 t (by simpa [litVars, litTerms, Atom.terms] using h)
    cases s <;> simp only [headLitSat, this]
  | cmp t gs => simp only [headLitSat]; exact litSat_congr P G H T _ e1 e2 h
  | bool b => simp only [headLitSat]; exact litSat_congr P G H T _ e1 e2 h
  | bagg l c lg f es rg => simp only [headLitSat]; exact litSat_congr P G H T _ e1 e2 h
  | agg lg es rg => simp only [headLitSat]; exact litSat_congr P G H T _ e1 e2 h
  | theory t => simp only [headLitSat]

theorem choiceOk_congr_aux (G : String → Prop) (H T : Interp) (elems : List CondLit) (ea eb : Env)
    (hab : ∀ v ∈ (elems.flatMap condLitTerms).flatMap Term.vars, ea v = eb v)
    (hs : choiceOk P G ea H T elems) : choiceOk P G eb H T elems := by
  intro c hc e' ha hcond
  let vs := (condLitTerms c).flatMap Term.vars
  have hsub : ∀ v ∈ vs, v ∈ (elems.flatMap condLitTerms).flatMap Term.vars := by
    intro v hv
    obtain ⟨t, ht, hvt⟩ := List.mem_flatMap.mp hv
    exact List.mem_flatMap.mpr ⟨t, List.mem_flatMap.mpr ⟨c, hc, ht⟩, hvt⟩
  have hba : ∀ v ∈ vs, eb v = ea v := fun v hv => (hab v (hsub v hv)).symm
  have hl : ∀ W W', litSat P G e' W W' c.1 ↔ litSat P G (patch vs e' ea) W W' c.1 := fun W W' =>
    litSat_congr P G W W' c.1 e' _ (fun v hv => patch_eq vs e' ea v (by
      simp only [vs, condLitTerms, List.flatMap_append, List.mem_append]; exact Or.inl (by simpa [litVars] using hv)))
  have hcc : ∀ W W', litsSat P G e' W W' c.2 ↔ litsSat P G (patch vs e' ea) W W' c.2 := fun W W' =>
    litsSat_congr P G W W' c.2 e' _ (fun v hv => patch_eq vs e' ea v (by
      simp only [vs, condLitTerms, List.flatMap_append, List.mem_append]; exact Or.inr hv))
  rcases hs c hc (patch vs e' ea) (patch_agree G vs eb ea e' hba ha) ((hcc H T).mp hcond) with h1 | h1
  · exact Or.inl ((hl H T).mpr h1)
  · exact Or.inr fun h2 => h1 ((hl T T).mp h2)

theorem choiceOk_congr (G : String → Prop) (H T : Interp) (elems : List CondLit) (e1 e2 : Env)
    (h : ∀ v ∈ (elems.flatMap condLitTerms).flatMap Term.vars, e1 v = e2 v) :
    choiceOk P G e1 H T elems ↔ choiceOk P G e2 H T elems :=
  ⟨choiceOk_congr_aux P G H T elems e1 e2 h, choiceOk_congr_aux P G H T elems e2 e1 (fun v hv => (h v hv).symm)⟩

theorem cElemsTerms_eq : ∀ (es : List CondLit), cElemsTerms es = es.flatMap condLitTerms
  | [] => by simp [cElemsTerms]
  | (l, c) :: es => by simp [cElemsTerms, condLitTerms, cElemsTerms_eq es]

theorem haggTuples_terms : ∀ (es : List (List Term × CondLit)),
    bElemsTerms (haggTuples es) = es.flatMap (fun e => e.1 ++ condLitTerms e.2)
  | [] => by simp [haggTuples, bElemsTerms]
  | (ts, (l, c)) :: es => by
    have ih := haggTuples_terms es
    simp only [haggTuples] at ih
    simp [haggTuples, bElemsTerms, litsTerms, condLitTerms, ih]

/-- **coincidence for heads** -/
theorem stdHeadSat_congr (G : String → Prop) (H T : Interp) (h : Head) (e1 e2 : Env)
    (hv : ∀ v ∈ h.vars, e1 v = e2 v) : stdHeadSat P G e1 H T h ↔ stdHeadSat P G e2 H T h := by
  cases h with
  | lit l => simp only [stdHeadSat]; exact headLitSat_congr P G H T l e1 e2 (by simpa [Head.vars, Head.terms, litVars] using hv)
  | disj elems =>
    simp only [Head.vars, Head.terms] at hv
    have key : ∀ ea eb : Env, (∀ v ∈ (elems.flatMap condLitTerms).flatMap Term.vars, ea v = eb v) →
        stdHeadSat P G ea H T (.disj elems) → stdHeadSat P G eb H T (.disj elems) := by
      intro ea eb hab
      simp only [stdHeadSat]
      rintro ⟨c, hc, e', ha, h1, h2⟩
      let vs := (condLitTerms c).flatMap Term.vars
      have hsub : ∀ v ∈ vs, ea v = eb v := by
        intro v hvv
        obtain ⟨t, ht, hvt⟩ := List.mem_flatMap.mp hvv
        exact hab v (List.mem_flatMap.mpr ⟨t, List.mem_flatMap.mpr ⟨c, hc, ht⟩, hvt⟩)
      refine ⟨c, hc, patch vs e' eb, patch_agree G vs ea eb e' hsub ha, ?_, ?_⟩
      · exact (litsSat_congr P G H T c.2 e' _ (fun v hv' => patch_eq vs e' eb v (by
          simp only [vs, condLitTerms, List.flatMap_append, List.mem_append]; exact Or.inr hv'))).mp h1
      · exact (litSat_congr P G H T c.1 e' _ (fun v hv' => patch_eq vs e' eb v (by
          simp only [vs, condLitTerms, List.flatMap_append, List.mem_append]; exact Or.inl (by simpa [litVars] using hv')))).mp h2
    exact ⟨key e1 e2 hv, key e2 e1 (fun v hv' => (hv v hv').symm)⟩
  | agg lg elems rg =>
    simp only [Head.vars, Head.terms, List.flatMap_append, List.mem_append] at hv
    have hl := guardVal_congr P e1 e2 lg (fun v hv' => hv v (Or.inl (Or.inl hv')))
    have hr := guardVal_congr P e1 e2 rg (fun v hv' => hv v (Or.inr hv'))
    have hc : ∀ W, cCount P G e1 W W elems = cCount P G e2 W W elems := by
      intro W; funext k
      exact propext (cCount_congr P G W W elems e1 e2 (fun v hv' => hv v (Or.inl (Or.inr (by rwa [cElemsTerms_eq] at hv')))) k)
    simp only [stdHeadSat, hl, hr, hc H, hc T]
    rw [choiceOk_congr P G H T elems e1 e2 (fun v hv' => hv v (Or.inl (Or.inr hv')))]
  | hagg lg f elems rg =>
    simp only [Head.vars, Head.terms, List.flatMap_append, List.mem_append] at hv
    have hl := guardVal_congr P e1 e2 lg (fun v hv' => hv v (Or.inl (Or.inl hv')))
    have hr := guardVal_congr P e1 e2 rg (fun v hv' => hv v (Or.inr hv'))
    have hc : ∀ W, bTuples P G e1 W W (haggTuples elems) = bTuples P G e2 W W (haggTuples elems) := by
      intro W; funext k
      exact propext (bTuples_congr P G W W _ e1 e2 (fun v hv' => hv v (Or.inl (Or.inr (by rwa [haggTuples_terms] at hv')))) k)
    simp only [stdHeadSat, hl, hr, hc H, hc T]
    rw [choiceOk_congr P G H T (elems.map (·.2)) e1 e2 (fun v hv' => hv v (Or.inl (Or.inr (by
      obtain ⟨t, ht, hvt⟩ := List.mem_flatMap.mp hv'
      obtain ⟨c, hc', htc⟩ := List.mem_flatMap.mp ht
      obtain ⟨x, hx, rfl⟩ := List.mem_map.mp hc'
      exact List.mem_flatMap.mpr ⟨t, List.mem_flatMap.mpr ⟨x, hx, List.mem_append_right _ htc⟩, hvt⟩))))]
  | theory t => simp only [stdHeadSat]


/-! ### `G`-congruence: a head depends on the set of global variables only through its own variables -/

theorem headLitSat_gcongr (G G' : String → Prop) (H T : Interp) (l : Sign × Atom) (e : Env)
    (h : ∀ v ∈ litVars l, G v ↔ G' v) : headLitSat P G e H T l ↔ headLitSat P G' e H T l := by
  obtain ⟨s, a⟩ := l
  cases a with
  | sym t => cases s <;> simp only [headLitSat]
  | cmp t gs => simp only [headLitSat]; exact litSat_gcongr P G G' H T _ e h
  | bool b => simp only [headLitSat]; exact litSat_gcongr P G G' H T _ e h
  | bagg l c lg f es rg => simp only [headLitSat]; exact litSat_gcongr P G G' H T _ e h
  | agg lg es rg => simp only [headLitSat]; exact litSat_gcongr P G G' H T _ e h
  | theory t => simp only [headLitSat]

theorem choiceOk_gcongr_aux (Ga Gb : String → Prop) (H T : Interp) (elems : List CondLit) (e : Env)
    (hab : ∀ v ∈ (elems.flatMap condLitTerms).flatMap Term.vars, Ga v ↔ Gb v)
    (hs : choiceOk P Ga e H T elems) : choiceOk P Gb e H T elems := by
  intro c hc e' ha hcond
  let vs := (condLitTerms c).flatMap Term.vars
  have hsub : ∀ v ∈ vs, Ga v ↔ Gb v := by
    intro v hv
    obtain ⟨t, ht, hvt⟩ := List.mem_flatMap.mp hv
    exact hab v (List.mem_flatMap.mpr ⟨t, List.mem_flatMap.mpr ⟨c, hc, ht⟩, hvt⟩)
  have ha2 : Agree Ga e (patch vs e' e) := agree_patch Gb Ga vs (fun v hv => (hsub v hv).symm) e e' ha
  have hl : ∀ W W', litSat P Gb e' W W' c.1 ↔ litSat P Ga (patch vs e' e) W W' c.1 := fun W W' => by
    rw [litSat_gcongr P Ga Gb W W' c.1 _ (fun v hv => hsub v (by
      simp only [vs, condLitTerms, List.flatMap_append, List.mem_append]; exact Or.inl (by simpa [litVars] using hv)))]
    exact litSat_congr P Gb W W' c.1 e' _ (fun v hv => patch_eq vs e' e v (by
      simp only [vs, condLitTerms, List.flatMap_append, List.mem_append]; exact Or.inl (by simpa [litVars] using hv)))
  have hcc : ∀ W W', litsSat P Gb e' W W' c.2 ↔ litsSat P Ga (patch vs e' e) W W' c.2 := fun W W' => by
    rw [litsSat_gcongr P Ga Gb W W' c.2 _ (fun v hv => hsub v (by
      simp only [vs, condLitTerms, List.flatMap_append, List.mem_append]; exact Or.inr hv))]
    exact litsSat_congr P Gb W W' c.2 e' _ (fun v hv => patch_eq vs e' e v (by
      simp only [vs, condLitTerms, List.flatMap_append, List.mem_append]; exact Or.inr hv))
  rcases hs c hc (patch vs e' e) ha2 ((hcc H T).mp hcond) with h1 | h1
  · exact Or.inl ((hl H T).mpr h1)
  · exact Or.inr fun h2 => h1 ((hl T T).mp h2)

/-- **`G`-congruence for heads** -/
theorem stdHeadSat_gcongr (G G' : String → Prop) (H T : Interp) (h : Head) (e : Env)
    (hv : ∀ v ∈ h.vars, G v ↔ G' v) : stdHeadSat P G e H T h ↔ stdHeadSat P G' e H T h := by
  cases h with
  | lit l => simp only [stdHeadSat]; exact headLitSat_gcongr P G G' H T l e (by simpa [Head.vars, Head.terms, litVars] using hv)
  | disj elems =>
    simp only [Head.vars, Head.terms] at hv
    have key : ∀ Ga Gb : String → Prop, (∀ v ∈ (elems.flatMap condLitTerms).flatMap Term.vars, Ga v ↔ Gb v) →
        stdHeadSat P Ga e H T (.disj elems) → stdHeadSat P Gb e H T (.disj elems) := by
      intro Ga Gb hab
      simp only [stdHeadSat]
      rintro ⟨c, hc, e', ha, h1, h2⟩
      let vs := (condLitTerms c).flatMap Term.vars
      have hsub : ∀ v ∈ vs, Ga v ↔ Gb v := by
        intro v hvv
        obtain ⟨t, ht, hvt⟩ := List.mem_flatMap.mp hvv
        exact hab v (List.mem_flatMap.mpr ⟨t, List.mem_flatMap.mpr ⟨c, hc, ht⟩, hvt⟩)
      refine ⟨c, hc, patch vs e' e, agree_patch Ga Gb vs hsub e e' ha, ?_, ?_⟩
      · rw [← litsSat_gcongr P Ga Gb H T c.2 _ (fun v hv' => hsub v (by
          simp only [vs, condLitTerms, List.flatMap_append, List.mem_append]; exact Or.inr hv'))]
        exact (litsSat_congr P Ga H T c.2 e' _ (fun v hv' => patch_eq vs e' e v (by
          simp only [vs, condLitTerms, List.flatMap_append, List.mem_append]; exact Or.inr hv'))).mp h1
      · rw [← litSat_gcongr P Ga Gb H T c.1 _ (fun v hv' => hsub v (by
          simp only [vs, condLitTerms, List.flatMap_append, List.mem_append]; exact Or.inl (by simpa [litVars] using hv')))]
        exact (litSat_congr P Ga H T c.1 e' _ (fun v hv' => patch_eq vs e' e v (by
          simp only [vs, condLitTerms, List.flatMap_append, List.mem_append]; exact Or.inl (by simpa [litVars] using hv')))).mp h2
    exact ⟨key G G' hv, key G' G (fun v hv' => (hv v hv').symm)⟩
  | agg lg elems rg =>
    simp only [Head.vars, Head.terms, List.flatMap_append, List.mem_append] at hv
    have hel : ∀ v ∈ (elems.flatMap condLitTerms).flatMap Term.vars, G v ↔ G' v := fun v hv' => hv v (Or.inl (Or.inr hv'))
    have hc : ∀ W, cCount P G e W W elems = cCount P G' e W W elems := by
      intro W; funext k
      exact propext (cCount_gcongr P G G' W W elems e (fun v hv' => hel v (by rwa [cElemsTerms_eq] at hv')) k)
    simp only [stdHeadSat, hc H, hc T]
    have : choiceOk P G e H T elems ↔ choiceOk P G' e H T elems :=
      ⟨choiceOk_gcongr_aux P G G' H T elems e hel, choiceOk_gcongr_aux P G' G H T elems e (fun v hv' => (hel v hv').symm)⟩
    rw [this]
  | hagg lg f elems rg =>
    simp only [Head.vars, Head.terms, List.flatMap_append, List.mem_append] at hv
    have hel : ∀ v ∈ (elems.flatMap (fun e => e.1 ++ condLitTerms e.2)).flatMap Term.vars, G v ↔ G' v :=
      fun v hv' => hv v (Or.inl (Or.inr hv'))
    have hc : ∀ W, bTuples P G e W W (haggTuples elems) = bTuples P G' e W W (haggTuples elems) := by
      intro W; funext k
      exact propext (bTuples_gcongr P G G' W W _ e (fun v hv' => hel v (by rwa [haggTuples_terms] at hv')) k)
    have hel2 : ∀ v ∈ ((elems.map (·.2)).flatMap condLitTerms).flatMap Term.vars, G v ↔ G' v := by
      intro v hv'
      apply hel
      obtain ⟨t, ht, hvt⟩ := List.mem_flatMap.mp hv'
      obtain ⟨c, hc', htc⟩ := List.mem_flatMap.mp ht
      obtain ⟨x, hx, rfl⟩ := List.mem_map.mp hc'
      exact List.mem_flatMap.mpr ⟨t, List.mem_flatMap.mpr ⟨x, hx, List.mem_append_right _ htc⟩, hvt⟩
    simp only [stdHeadSat, hc H, hc T]
    have : choiceOk P G e H T (elems.map (·.2)) ↔ choiceOk P G' e H T (elems.map (·.2)) :=
      ⟨choiceOk_gcongr_aux P G G' H T _ e hel2, choiceOk_gcongr_aux P G' G H T _ e (fun v hv' => (hel2 v hv').symm)⟩
    rw [this]
  | theory t => simp only [stdHeadSat]

/-- the head's global variables: those of a plain literal; elements are local -/
def stdHeadGlobals : Head → List String
  | .lit l => litVars l
  | .agg lg _ rg => (optGuardTerms lg ++ optGuardTerms rg).flatMap Term.vars
  | .hagg lg _ _ rg => (optGuardTerms lg ++ optGuardTerms rg).flatMap Term.vars
  | _ => []

/-- the standard parameters: the concrete head semantics above on top of `P` -/
def stdParams : PParams := { P with headSat := stdHeadSat P, headGlobals := stdHeadGlobals }

@[simp] theorem stdParams_headSat : (stdParams P).headSat = stdHeadSat P := rfl
@[simp] theorem stdParams_toParams : (stdParams P).toParams = P := rfl

end NgoVerif.Sem
