import NgoVerif.Model.Globals
/-!
# C18 — an independent specification of "open" and "shown" predicates

Written as one generic fold over the AST (every symbolic atom reachable from a rule or objective), *not* through
ngo's per-node-kind collectors; the theorems in `Props/C18.lean` relate the two.
-/
namespace NgoVerif.Spec

/-- signatures named by the symbol of a symbolic atom; a pool names all of its members -/
def sigs : Term → List Pred
  | .fn name args _ => [⟨name, args.length⟩]
  | .pool args => args.flatMap sigs
  | _ => []

mutual
/-- all symbolic atoms (with the sign of their literal) below a literal -/
def litAtoms : Sign × Atom → List (Sign × Term)
  | (s, a) => atomAtoms s a
def atomAtoms (s : Sign) : Atom → List (Sign × Term)
  | .sym t => [(s, t)]
  | .cmp _ _ => []
  | .bool _ => []
  | .theory _ => []
  | .bagg _ _ _ _ elems _ => bElemsAtoms elems
  | .agg _ elems _ => cElemsAtoms elems
def litsAtoms : List (Sign × Atom) → List (Sign × Term)
  | [] => []
  | l :: ls => litAtoms l ++ litsAtoms ls
def bElemsAtoms : List (List Term × List (Sign × Atom)) → List (Sign × Term)
  | [] => []
  | (_, c) :: es => litsAtoms c ++ bElemsAtoms es
def cElemsAtoms : List ((Sign × Atom) × List (Sign × Atom)) → List (Sign × Term)
  | [] => []
  | (l, c) :: es => litAtoms l ++ litsAtoms c ++ cElemsAtoms es
end

def condLitAtoms (c : CondLit) : List (Sign × Term) := litAtoms c.1 ++ litsAtoms c.2

def blitAtoms : BLit → List (Sign × Term)
  | .lit l => litAtoms l
  | .clit c => condLitAtoms c

def bodyAtoms (b : List BLit) : List (Sign × Term) := b.flatMap blitAtoms

def headAtoms : Head → List (Sign × Term)
  | .lit l => litAtoms l
  | .disj es => es.flatMap condLitAtoms
  | .agg _ es _ => es.flatMap condLitAtoms
  | .hagg _ _ es _ => es.flatMap fun e => condLitAtoms e.2
  | .theory _ => []

/-- the atoms that are *derived* by a head: the plain head literal, the literal of each choice / disjunction /
head-aggregate element (not their conditions) -/
def headDerivedAtoms : Head → List (Sign × Term)
  | .lit l => litAtoms l
  | .disj es => es.flatMap fun e => litAtoms e.1
  | .agg _ es _ => es.flatMap fun e => litAtoms e.1
  | .hagg _ _ es _ => es.flatMap fun e => litAtoms e.2.1
  | .theory _ => []

/-- `p` occurs in a rule or optimisation statement -/
def Occurs (s : Stm) (p : Pred) : Prop :=
  match s with
  | .rule _ _ h b => ∃ x ∈ headAtoms h ++ bodyAtoms b, p ∈ sigs x.2
  | .minimize _ _ _ _ _ b => ∃ x ∈ bodyAtoms b, p ∈ sigs x.2
  | _ => False

/-- `p` is a positive head atom of `s` -/
def PosHead (s : Stm) (p : Pred) : Prop :=
  match s with
  | .rule _ _ h _ => ∃ x ∈ headDerivedAtoms h, x.1 = Sign.pos ∧ p ∈ sigs x.2
  | _ => False

/-- `p` occurs in the body of the rule / objective `s` -/
def BodyOccurs (s : Stm) (p : Pred) : Prop :=
  match s with
  | .rule _ _ _ b => ∃ x ∈ bodyAtoms b, p ∈ sigs x.2
  | .minimize _ _ _ _ _ b => ∃ x ∈ bodyAtoms b, p ∈ sigs x.2
  | _ => False

/-- no symbolic atom of `s` has a pool (or anything but a function) as its symbol -/
def PlainAtoms (s : Stm) : Prop :=
  match s with
  | .rule _ _ h b => ∀ x ∈ headAtoms h ++ bodyAtoms b, x.2.isFn = true
  | .minimize _ _ _ _ _ b => ∀ x ∈ bodyAtoms b, x.2.isFn = true
  | _ => True

/-- `p` is displayed: named by a `#show p/n.` or occurring in the condition of a `#show t : cond.` -/
def Shown (prg : Prog) (p : Pred) : Prop :=
  ∃ s ∈ prg, match s with
    | .showSig n a _ => p = ⟨n, a⟩
    | .showTerm _ b => ∃ x ∈ bodyAtoms b, p ∈ sigs x.2
    | _ => False

end NgoVerif.Spec
