import NgoVerif.Sexp
import NgoVerif.Syntax
import NgoVerif.Model.SumRewrite
import NgoVerif.DriverDependency
/-!
# Driver ops for the rewriting part of `ngo/sum_aggregates.py` (class `SumAggregator`)

`<prog>` is the (preprocessed) program, `(<inputs>…)` the input predicates.  Programs with theory atoms or pools are
`(unsupported …)`.  A Python exception (in the constructor or in `execute`) is `(err "py: …")` / `(err "assert: …")` /
`(err "IndexError: …")`.

* `(sum_chains <prog> (<inputs>…))` → `(ok <prog>)`: `SumAggregator(prog, inputs).execute(prog)` for a program
  without shared nodes
* `(sum_chains <prog> (<inputs>…) (<group>…))` → `(ok <prog>)`: the same for a program whose
  `BodyAggregateElement` nodes are shared: `<group>` = `((stm blit elem) (stm blit elem) …)`, the addresses
  (statement index, body literal index, element index) that hold one and the same node (only for nodes that occur
  more than once)
* `(sum_chains_stats <prog> (<inputs>…) (<group>…))` → `(ok <rewritten elements> <rewritten objectives>)`

`(unsupported "order of _atmost_preds")`: `_atmost_preds` holds two different annotated predicates for one
predicate; which of them `_get_trigger` finds first depends on the iteration order of a Python `set`.
-/
namespace NgoVerif
open Sexp

namespace SumRewrite

def addrOfSexp : Sexp → Option Addr
  | .list [i, b, e] => do
    let i' ← i.toNat?
    let b' ← b.toNat?
    let e' ← e.toNat?
    pure ⟨i', b', e'⟩
  | _ => none

def groupsOfSexp (gs : List Sexp) : Option Groups :=
  gs.mapM fun g => match g with
    | .list as => as.mapM addrOfSexp
    | _ => none

def run (p : Sexp) (ins : List Sexp) (gs : List Sexp) (k : Prog × Nat × Nat → Sexp) : Sexp :=
  match Prog.ofSexp p, ins.mapM Pred.ofSexp, groupsOfSexp gs with
  | some prg, some inputs, some groups =>
    match Dep.progOutside prg with
    | some why => Dep.unsupportedS why
    | none =>
      match SumAgg.calcAtMost prg inputs with
      | .ok (atmost, _) =>
        -- the constructor may still raise in `DomainPredicates`; if it does not, the order of the list matters
        if orderDependent atmost && (Dep.DomState.init (UniqueNames.init prg inputs) prg).toBool then
          Dep.unsupportedS "order of _atmost_preds"
        else
          match execute prg inputs groups with
          | .ok r => k r
          | .error e => Dep.errAnswer e
      | .error _ =>
        match execute prg inputs groups with
        | .ok r => k r
        | .error e => Dep.errAnswer e
  | _, _, _ => Dep.unsupportedS "program, predicates or groups"

end SumRewrite

open SumRewrite in
def handleSumRewrite : Sexp → Option Sexp
  | .list [.atom "sum_chains", p, .list ins] => some <|
    run p ins [] fun r => Dep.okS [Prog.toSexp r.1]
  | .list [.atom "sum_chains", p, .list ins, .list gs] => some <|
    run p ins gs fun r => Dep.okS [Prog.toSexp r.1]
  | .list [.atom "sum_chains_stats", p, .list ins, .list gs] => some <|
    run p ins gs fun r => Dep.okS [ofNat r.2.1, ofNat r.2.2]
  | _ => none

end NgoVerif
