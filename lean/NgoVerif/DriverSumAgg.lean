import NgoVerif.Sexp
import NgoVerif.Syntax
import NgoVerif.Model.SumAgg
/-!
# Driver ops for `ngo/sum_aggregates.py` (decision part) and `AggAnalytics` / `potentially_unifying`

`<ap>` is an annotated predicate `("name" arity (position …))`.

* `(agg_analytics <atom or head> <n>)` → `(ok ("V"…) ((op <term>)…) <leq 0|1> <geq 0|1>)` | `(err "…")`
  `AggAnalytics(node)`: `equal_variable_bound`, `bounds`, `guaranteed_leq(n)`, `guaranteed_geq(n)`
* `(at_most_rule <stm>)`                  → `(ok (<ap>…) (<ap>…))` | `(err "…")`     `_calc_at_most_on_rule`
* `(at_most <prog> (<input pred>…))`      → `(ok (<ap>…) (<ap>…))` | `(err "…")`     sorted, duplicate free:
  `at_most_one_predicates()`, `at_least_one_predicates()` as sets
* `(pot_unify <term> <term>)`             → `(ok 0|1)`          `potentially_unifying`; `unsupported` with pools
* `(pot_unify_seq (<term>…) (<term>…))`   → `(ok 0|1)`          `potentially_unifying_sequence`
* `(elem_passes <body aggregate atom>)`   → `(ok (0|1|e …))`    `_element_passes(elem, elements)` per element,
  `e` = the call raises (empty tuple)
* `(get_trigger (<ap>…) <term> (<blit>…))` → `(ok none)` | `(ok (<lit idx> <trigger_index> <ap>))`
  `_get_trigger(term, body)` with `_atmost_preds` as given
* `(sum_eligible <prog> (<input pred>…))` → `(ok <decisions direct> <decisions as execute makes them>)` | `(err "…")`
  decisions = `((<stm idx> ((<body idx> ((<elem idx> <lit idx> <trigger_index> <ap>)…) (<dropped elem idx>…))…) <obj>)…)`
  for every Rule / Minimize, `<obj>` = `rule` | `(<"Var"|none> <none|(<lit idx> <trigger_index> <ap>)>)`
-/
namespace NgoVerif
open Sexp
open SumAgg

namespace SumAgg

def okS (xs : List Sexp) : Sexp := .list (.atom "ok" :: xs)
def unsupportedS (why : String) : Sexp := .list [.atom "unsupported", .str why]
def errorS (what : String) : Sexp := .list [.atom "err", .str what]

def APred.toSexp (p : APred) : Sexp := .list [.str p.pred.name, ofNat p.pred.arity, .list (p.positions.map ofNat)]

def APred.ofSexp : Sexp → Option APred
  | .list [.str n, a, .list ps] => do
    let a' ← a.toNat?
    let ps' ← ps.mapM Sexp.toNat?
    pure ⟨⟨n, a'⟩, ps'⟩
  | _ => none

def natListLe : List Nat → List Nat → Bool
  | [], _ => true
  | _ :: _, [] => false
  | a :: as, b :: bs => a < b || (a == b && natListLe as bs)

def APred.le (a b : APred) : Bool :=
  a.pred.name < b.pred.name || (a.pred.name == b.pred.name &&
    (a.pred.arity < b.pred.arity || (a.pred.arity == b.pred.arity && natListLe a.positions b.positions)))

def insertAPSorted (p : APred) : List APred → List APred
  | [] => [p]
  | q :: qs => if p == q then q :: qs else if APred.le p q then p :: q :: qs else q :: insertAPSorted p qs

def sortAPs (l : List APred) : List APred := l.foldr insertAPSorted []

def apsToSexp (l : List APred) : Sexp := .list (l.map APred.toSexp)

def hitToSexp : Option (Nat × Nat × APred) → Sexp
  | none => .atom "none"
  | some (l, p, ap) => .list [ofNat l, ofNat p, ap.toSexp]

def AggDecision.toSexp (a : AggDecision) : Sexp :=
  .list [ofNat a.bodyIdx,
         .list (a.hits.map fun h => .list [ofNat h.elem, ofNat h.lit, ofNat h.pos, h.ap.toSexp]),
         .list (a.dropped.map ofNat)]

def StmDecision.toSexp (d : StmDecision) : Sexp :=
  .list [ofNat d.idx, .list (d.aggs.map AggDecision.toSexp),
         match d.obj with
         | none => .atom "rule"
         | some o => .list [match o.var with | none => .atom "none" | some v => .str v, hitToSexp o.hit]]

def boolAnswer : Except String Bool → Sexp
  | .ok b => okS [ofBool b]
  | .error e => errorS e

def pairAnswer (sort : Bool) : Except String (List APred × List APred) → Sexp
  | .ok (a, b) => if sort then okS [apsToSexp (sortAPs a), apsToSexp (sortAPs b)] else okS [apsToSexp a, apsToSexp b]
  | .error e => errorS e

def analyticsAnswer (n : Int) : Except String Analytics → Sexp
  | .ok a => okS [.list (a.equalVars.map Sexp.str),
                  .list (a.bounds.map fun g => .list [g.op.toSexp, g.term.toSexp]),
                  ofBool (guaranteedLeq n a.bounds), ofBool (guaranteedGeq n a.bounds)]
  | .error e => errorS e

end SumAgg

def handleSumAgg (req : Sexp) : Option Sexp :=
  match req with
  | .list [.atom "agg_analytics", node, n] => some <|
    match n.toInt? with
    | none => unsupportedS "n"
    | some k =>
      match Atom.ofSexp node with
      | some a => analyticsAnswer k (atomAnalytics a)
      | none =>
        match Head.ofSexp node with
        | some h => analyticsAnswer k (headAnalytics h)
        | none => unsupportedS "node"
  | .list [.atom "at_most_rule", s] => some <|
    match Stm.ofSexp s with
    | some stm => pairAnswer false (calcAtMostOnStm stm)
    | none => unsupportedS "statement"
  | .list [.atom "at_most", p, .list ins] => some <|
    match Prog.ofSexp p, ins.mapM Pred.ofSexp with
    | some prg, some inputs => pairAnswer true (calcAtMost prg inputs)
    | _, _ => unsupportedS "program or predicates"
  | .list [.atom "pot_unify", a, b] => some <|
    match Term.ofSexp a, Term.ofSexp b with
    | some l, some r =>
      if termHasPool l || termHasPool r then unsupportedS "pool" else boolAnswer (potUnify l r)
    | _, _ => unsupportedS "term"
  | .list [.atom "pot_unify_seq", .list a, .list b] => some <|
    match Term.listOfSexp a, Term.listOfSexp b with
    | some l, some r =>
      if l.any termHasPool || r.any termHasPool then unsupportedS "pool" else boolAnswer (potUnifySeq l r)
    | _, _ => unsupportedS "terms"
  | .list [.atom "elem_passes", a] => some <|
    match Atom.ofSexp a with
    | some (.bagg _ _ _ _ elems _) =>
      if elems.any fun e => e.1.any termHasPool then unsupportedS "pool"
      else if bElemsHasTheory elems then unsupportedS "theory atom"
      else
        let slots := elems.map fun e => (e, false)
        let res : Except String (List Sexp) := elems.mapM fun e =>
          match elementPasses e slots with
          | .ok b => pure (ofBool b)
          | .error msg => if msg.startsWith "IndexError" then pure (.atom "e") else .error msg
        match res with
        | .ok xs => okS [.list xs]
        | .error e => errorS e
    | _ => unsupportedS "body aggregate"
  | .list [.atom "get_trigger", .list aps, v, .list b] => some <|
    match aps.mapM APred.ofSexp, Term.ofSexp v, b.mapM BLit.ofSexp with
    | some atmost, some var, some body =>
      match getTrigger atmost var body 0 with
      | .ok r => okS [hitToSexp r]
      | .error e => errorS e
    | _, _, _ => unsupportedS "arguments"
  | .list [.atom "sum_eligible", p, .list ins] => some <|
    match Prog.ofSexp p, ins.mapM Pred.ofSexp with
    | some prg, some inputs =>
      if prg.any stmHasTheory then unsupportedS "theory atom"
      else if prg.any stmHasPool then unsupportedS "pool"
      else
        match decisions prg inputs false, decisions prg inputs true with
        | .ok d, .ok s => okS [.list (d.map StmDecision.toSexp), .list (s.map StmDecision.toSexp)]
        | .error e, _ => errorS e
        | _, .error e => errorS e
    | _, _ => unsupportedS "program or predicates"
  | _ => none

end NgoVerif
