import NgoVerif.Sexp
import NgoVerif.Syntax
import NgoVerif.Model.Inline
/-!
# Driver ops for `ngo/inline.py` (class `InlineTranslator`)

`<prog>` is a program after `ngo.normalize.preprocess`; the object is
`InlineTranslator(prog, inputs, outputs)`.  Programs with theory atoms or pools are `(unsupported …)`.
If the constructor (`DomainPredicates.__init__`) or `execute` raises, the answer is `(err "…")`.

* `(inline <prog> (<input preds>…) (<output preds>…))` → `(ok <prog>)` | `(err "…")`:
  `InlineTranslator(prog, inputs, outputs).execute(prog)`
* `(inline_trace <prog> (<input preds>…) (<output preds>…))` → `(ok <prog> nAgg nBody nMin)` | `(err "…")`:
  the same result, the number of successful rounds of `inline_in_agg` (rules inlined into an aggregate element),
  of `inline_in_rulebody` (rules inlined into a body literal), and the number of objectives that
  `inline_minimize` replaced
* `(inline_single <prog> (<input preds>…) (<output preds>…))` → `(ok (i index)…)` | `(err "…")`:
  the statements (position `i` in the program) for which `is_single(stm, RuleDependency(prog))` is not `None`,
  with the returned index
-/
namespace NgoVerif
open Sexp

namespace Inline

def okS (xs : List Sexp) : Sexp := .list (.atom "ok" :: xs)
def unsupportedS (why : String) : Sexp := .list [.atom "unsupported", .str why]
def errorS (what : String) : Sexp := .list [.atom "err", .str what]

/-- an error of the model as an answer -/
def errAnswer (e : String) : Sexp :=
  if e.startsWith "unsupported" then unsupportedS e else errorS e

/-- build the object and answer with `k` -/
def withObject (p : Sexp) (ins outs : List Sexp) (k : Prog → Ctx → Sexp) : Sexp :=
  match Prog.ofSexp p, ins.mapM Pred.ofSexp, outs.mapM Pred.ofSexp with
  | some prg, some inputs, some outputs =>
    match Dep.progOutside prg with
    | some why => unsupportedS why
    | none =>
      match mkCtx prg inputs outputs with
      | .ok c => k prg c
      | .error e => errAnswer e
  | _, _, _ => unsupportedS "program or predicates"

end Inline

open Inline in
def handleInline : Sexp → Option Sexp
  | .list [.atom "inline", p, .list ins, .list outs] => some <|
    withObject p ins outs fun prg c =>
      match executeTrace c prg with
      | .ok (r, _) => okS [r.toSexp]
      | .error e => errAnswer e
  | .list [.atom "inline_trace", p, .list ins, .list outs] => some <|
    withObject p ins outs fun prg c =>
      match executeTrace c prg with
      | .ok (r, a, b, m) => okS [r.toSexp, ofNat a, ofNat b, ofNat m]
      | .error e => errAnswer e
  | .list [.atom "inline_single", p, .list ins, .list outs] => some <|
    withObject p ins outs fun prg c =>
      okS (((List.range prg.length).zip prg).filterMap fun (i, s) =>
        (isSingle c prg s).map fun sg => .list [ofNat i, ofNat sg.index])
  | _ => none

end NgoVerif
