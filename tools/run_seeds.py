#!/usr/bin/env python3
"""run registered checks against the seeded property-breaking changes, in a scratch copy of /verif and a scratch
worktree of /repo (so neither /repo nor /verif is disturbed).  usage: run_seeds.py [seed-name ...]   (default: all)
writes seeded/RESULTS.json: {seed: {property: {"exit": n, "violations": [...], "summary": "..."}}}"""
import json, os, subprocess, sys, shutil

VERIF = os.path.normpath(os.path.join(os.path.dirname(os.path.abspath(__file__)), ".."))
SCR = os.environ.get("SEED_SCR", "/tmp/vm")   # a second concurrent run uses another scratch dir and SEED_RESULTS file
EXTRA = {  # a change may also endanger the composite properties
    "C08": ["C01"], "C16": ["C01", "C06", "C04"], "C09": ["C01"], "C12": ["C01", "C02"], "C13": ["C02"], "C15": ["C02"],
}


FILE2PROP = {"projection.py": ["C16"], "sum_aggregates.py": ["C13"], "cleanup.py": ["C08"], "unused.py": ["C09"],
             "minmax_aggregates.py": ["C12"], "symmetry.py": ["C11"], "inline.py": ["C15"], "math_simplification.py": ["C14"],
             "literal_duplication.py": ["C10"], "dependency.py": ["C20"], "normalize.py": ["C05"]}


def sh(cmd, **kw):
    return subprocess.run(cmd, shell=True, stdout=subprocess.PIPE, stderr=subprocess.STDOUT, text=True, **kw)


def main():
    seeds = sys.argv[1:] or sorted(d for d in os.listdir(os.path.join(VERIF, "seeded")) if os.path.isdir(os.path.join(VERIF, "seeded", d)))
    os.makedirs(SCR, exist_ok=True)
    sh(f"rsync -a --delete --exclude .git {VERIF}/ {SCR}/verif/")
    respath = os.environ.get("SEED_RESULTS") or os.path.join(VERIF, "seeded", "RESULTS.json")
    results = json.load(open(respath)) if os.path.exists(respath) else {}
    manifest = json.load(open(os.path.join(VERIF, "MANIFEST.json")))
    claimed = {c["property_id"] for c in manifest["checks"]}
    for seed in seeds:
        pid = seed.split("-")[0]
        props = [p for p in [pid] + EXTRA.get(pid, []) if os.path.exists(os.path.join(VERIF, "harness", "props", p + ".py"))]
        # the check of the pass the change touches (a user runs every check on every change; the composite properties
        # C01/C02/C06 have a small quick budget per pass)
        try:
            files = json.load(open(os.path.join(VERIF, "seeded", seed, "meta.json"))).get("files", [])
        except Exception:
            files = []
        for f in files:
            for key, ps in FILE2PROP.items():
                if key in f:
                    props += [q for q in ps if q not in props]
        if os.environ.get("SEED_PROPS"):   # which checks besides the seed's own catch it: SEED_PROPS=C13,C02
            props = os.environ["SEED_PROPS"].split(",")
        wt = os.path.join(SCR, "wt")
        sh(f"git -C /repo worktree remove --force {wt}")
        sh(f"git -C /repo worktree add --detach {wt}")
        r = sh(f"git -C {wt} apply {VERIF}/seeded/{seed}/patch.diff")
        if r.returncode != 0:
            results[seed] = {"error": "patch does not apply: " + r.stdout[-300:]}
            continue
        results.setdefault(seed, {})
        for p in props:
            env = dict(os.environ, NGO_REPO=wt, VERIF_SEED=os.environ.get("VERIF_SEED", "0"))
            r = subprocess.run([f"{SCR}/verif/check", p, "--tier", os.environ.get("VERIF_TIER", "quick")], stdout=subprocess.PIPE,
                               stderr=subprocess.STDOUT, text=True, env=env, cwd=f"{SCR}/verif")
            lines = r.stdout.strip().splitlines()
            viol = [l for l in lines if l.startswith("VIOLATION")]
            results[seed][p] = {"exit": r.returncode, "violations": viol, "summary": lines[-1] if lines else "",
                                "caught": r.returncode == 1, "with_failing_input": any("no-failing-input-found" not in v for v in viol)}
            print(seed, p, "exit", r.returncode, "|", ("; ".join(viol))[:160], flush=True)
            json.dump(results, open(respath, "w"), indent=1)
        sh(f"git -C /repo worktree remove --force {wt}")
    json.dump(results, open(respath, "w"), indent=1)


if __name__ == "__main__":
    main()
