#!/bin/bash
# adopt_seed.sh <worktree with _seed/> <seed-name> [wave]: copy a sub-agent's change into seeded/<name>, confirm it (verify_seed.sh), record the confirmation
WT="$1"; NAME="$2"; WAVE="${3:-3}"
V="$(cd "$(dirname "$0")/.." && pwd)"
D="$V/seeded/$NAME"
mkdir -p "$D"; cp "$WT/_seed/patch.diff" "$WT/_seed/demo.py" "$WT/_seed/meta.json" "$D/" || exit 2
out="$("$V/tools/verify_seed.sh" "$D")"; echo "$out"
case "$out" in *": OK "*) ;; *) echo "NOT CONFIRMED"; exit 1;; esac
python3 - "$D" "$out" "$WAVE" "$NAME" <<'P'
import json, sys, subprocess
d, out, wave, name = sys.argv[1:5]
m = json.load(open(d + "/meta.json"))
head = subprocess.run("git -C /repo rev-parse --short HEAD", shell=True, capture_output=True, text=True).stdout.strip()
m["confirmed_by_me"] = {"how": f"tools/verify_seed.sh in a scratch worktree of /repo HEAD ({head}): demo on clean tree, git apply, full test-suite, demo on patched tree",
                        "result": out.split(": ", 1)[1].replace("OK ", "")}
m["breaks_property"] = name.split("-")[0]
m["wave"] = int(wave)
json.dump(m, open(d + "/meta.json", "w"), indent=1)
P
