#!/venv/bin/python
"""exploration tool (not a registered check): run the clingo oracle over corpus+mutations for one trait selection,
minimise every failing case and print it with the hypotheses it falsifies.  usage: sweep.py <trait|none|default|all> <seed> <n_mut>"""
import collections, json, os, sys
sys.path.insert(0, os.path.join(os.path.dirname(os.path.abspath(__file__)), "..", "harness"))
import core, semcheck, semprop, hyp

trait, seed, n = sys.argv[1], int(sys.argv[2]), int(sys.argv[3])
rel = {"none": "all", "unused": "inout", "inline": "inout", "default": "out", "all": "out"}.get(trait, "voc")
if trait == "none":
    flags = semcheck.flags_only()
elif trait == "default":
    flags = semcheck.flags_only(*[t for t in semcheck.ALL_TRAITS if t != "duplication"])
elif trait == "all":
    flags = semcheck.flags_only(*semcheck.ALL_TRAITS)
else:
    flags = semcheck.flags_only(trait)
ctx = core.Ctx("SWEEP", "thorough", seed)
cases = semprop.oracle_cases(ctx, [flags], rel, 10000, n, facts_over="any" if trait == "none" else "in")
res = semcheck.pool_map(semcheck.evaluate_case, cases, workers=int(os.environ.get("W", "8")))
c = collections.Counter(r.get("status") for r in res)
print(trait, dict(c), "changed", sum(1 for r in res if r.get("changed")), "compared", sum(r.get("compared", 0) for r in res), flush=True)
bad = [r for r in res if r.get("status") in ("mismatch", "broken-result", "crash")]
out = []
seen = set()
for r in bad:
    if r["status"] == "crash":
        small = r
        keys = set()
    else:
        small = semcheck.minimise(r)
        keys = hyp.falsified(small["program"], small["flags"], small)
    sig = (small["program"], small.get("instance"))
    if sig in seen:
        continue
    seen.add(sig)
    out.append({"status": small["status"], "keys": sorted(keys), "program": small["program"], "instance": small.get("instance"),
                "why": small.get("why") or small.get("error"), "result": small.get("result"), "label": r.get("label"),
                "src": small.get("source_models"), "res": small.get("result_models")})
json.dump(out, open(f"/tmp/scratch/sw_{trait}_{seed}.json", "w"), indent=1)
for o in out:
    print("----", o["status"], o["keys"], o["label"], (o["why"] or "")[:150])
    print("  P:", o["program"].replace("\n", " | ")[:400])
    print("  I:", o["instance"])
    print("  R:", (o["result"] or "").replace("\n", " | ")[:400])
