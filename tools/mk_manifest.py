#!/usr/bin/env python3
"""writes MANIFEST.json from the table below (kept in one place so it stays valid)"""
import json, os
VERIF = os.path.normpath(os.path.join(os.path.dirname(os.path.abspath(__file__)), ".."))
CLAIMED = {
 "C18": ("Lean 4 theorems (model of auto_detect_input/output vs an independent generic-fold specification) + model/implementation correspondence + specification-on-real-return-value search",
         "Proved for all programs (model): completeness (partial: atoms with pooled symbols, counterexample theorem D9), exclusion, output exactness, duplicate freeness. Tie: both run on ~950 (quick) / ~6700 (thorough) parsed programs and diffed. Known findings D9, D18.",
         "Model is hand-written and tied by correspondence on generated inputs only; the specification is ours; classical negation and theory atoms are outside the fragment.", "§9 C18"),
 "C19": ("Lean 4 theorems over option tables regenerated from parser.py/__main__.py/api.py on every run + argparse/CLI correspondence",
         "Proved for every --enable list of any length: expansion equals the documented meaning (C19_enable), rejection characterised (C19_reject), keyword wiring is the identity and covers the nine traits once (C19_wiring, table theorem by decide over generated tables), API defaults = default selection. Tie: argparse actions in-process on 500 option vectors, `python -m ngo` in 48 (quick)/600 (thorough) subprocesses: recorded optimize kwargs vs model, stdout vs optimize().",
         "argparse itself, int()'s non-ASCII grammar and process I/O are observed, not modelled.", "§9 C19"),
 "C07": ("Lean 4 theorems over all op sequences of the UniqueNames/UniqueVariables state machines + op-sequence correspondence + pass-level observation",
         "Proved for every vocabulary and every request sequence: the naming loops terminate (pigeonhole + injectivity of base++str(n)), returned predicates/variables are pairwise distinct and disjoint from source and declarations (C07_fresh_pred, C07_fresh_var, C07_names_total, C07_vars_total). Tie: identical op sequences on globals.py and the model (700 quick / 30k thorough). Pass-level clauses (inputs get no new rules, invented heads are new, non-rule statements verbatim, layout metamorphosis) are observed on the real optimize; known findings D10, D15, D20, D21.",
         "Names produced outside UniqueNames (__min_0_<line>, template variables X/P/N..) are not covered by the theorems: D15 and D7 are findings; `single purpose' is semantic and decided by the equivalence checks.", "§9 C07"),
 "C03": ("Lean 4 theorems (cycle => divergence, exit => fixpoint, totality of modelled loops, pass-order table) + NGO_VERIF trace correspondence + exception/cycle/time-out observation of the real optimize",
         "Proved: C03_cycle_diverges (a repeated non-fixpoint state of a deterministic loop never exits), C03_exit_is_fixpoint for the model of api.optimize, C03_pass_order / C03_iteration_stages over the generated API_ORDER, termination of the naming loops. NOT proved: termination of the composed outer loop (depends on all passes and sympy). Tie: the stage sequence of the NGO_VERIF trace equals the model's schedule for each flag vector and iteration count; loop exits exactly at the first fixpoint. Observed on the real code: exceptions, repeated states (reported with the theorem as justification), time-outs (skipped, never a verdict). Known finding D22 (classical negation); five crash defects repaired by fix: commits.",
         "No model exhibits recursion depth, sympy run time or wall time; a time-out without a repeated state is not a verdict.", "§9 C03"),
 "C08": ("Lean 4 theorems (HT schema M5/M6+, decision kernel of the cleanup model) + exact-output correspondence of the whole pass + clingo differential oracle as failing-input search",
         "Proved (ground level, all programs of the definite-reduct class): supportedness and removal of an implied positive body atom; proved about the executable model of cleanup.py: a negated literal is never superseded by the positive atom of its predicate, only positive literals supersede, mappings are used with their recorded sign, argument positions are respected, boolean elimination is sound. Tie: the 443-line model reproduces CleanupTranslator.execute (after inline_arithmetic) token for token on ~3000 quick / ~80000 thorough cases (39% change the program). Not proved: mappings => schema side condition (validated by clingo on the real code; findings D24, D25, and the normal-form findings D3, D8, D19).",
         "Semantics is ours (published HT/Abstract-Gringo reading); the oracle trusts clingo; instance facts only over input predicates.", "§9 C08"),
 "C16": ("Lean 4 theorems (HT schema M3/M3-converse/M3f; decision kernel of good_split / project_rule in the model) + exact-output correspondence of binding analysis and projection + clingo oracle (one-to-one, safety) as failing-input search",
         "Proved (ground level): definitional extension is sound and complete and folding keeps stable models => a split is a conservative one-to-one extension. Proved about the model of projection.py: C16_good_split_sound (accepted split => aux body binds all its variables, rest safe given the interface, interface = globals(new) ∩ (vars(rest) ∪ globals(head)), no global variable becomes local, rest keeps a positive atom, aggregates whole), C16_split_shape (schema shape, fresh aux via C07). Tie: Binding.lean (370 lines) and Projection.lean (125 lines) reproduce the Python functions exactly on 8k quick / 480k thorough evaluations (~19% of pipeline programs split). Not proved: binding analysis = gringo safety; syntactic => ground side condition (validated by clingo).",
         "Oracle trusts clingo; normal-form findings D3, D8, D19 are shared with C05.", "§9 C16"),
 'C01': ('Lean 4 composition theorems (M10) + schedule of the api.optimize model + clingo differential oracle end-to-end under trait subsets',
         'Proved: composition of observation-preserving steps of any length, coarsening to OUT, conservative extension => OUT equivalence, satisfiability preserved, schedule = enabled passes in documented order. Partial: the per-pass premises are C05/C08-C16 (proved as far as those files say). Validated on the real optimize under default/all/random traits with auto/explicit declarations.',
         "Semantics is ours (published HT / Abstract-Gringo reading, ground level); the pass's syntactic decisions are tied to the schema's side conditions only through the clingo oracle on the real code; instance facts only over the declared/auto-detected inputs; findings per known_findings.json.", '§9 C01'),
 'C02': ('Lean 4 theorems (composition with cost; telescoping; sum-of-sums iff distinct tuples, with counterexample) + cost-aware clingo oracle',
         "Proved: cost-carrying composition, telescoping chain weights, flattening exact iff tuple sets disjoint. The passes' tuple decisions are validated with (answer set on OUT, cost per priority) pairs on objective-bearing programs.",
         "Semantics is ours (published HT / Abstract-Gringo reading, ground level); the pass's syntactic decisions are tied to the schema's side conditions only through the clingo oracle on the real code; instance facts only over the declared/auto-detected inputs; findings per known_findings.json.", '§9 C02'),
 'C05': ('Lean 4 theorems (comparison tables regenerated from utils/ast.py; chain splitting with counterexample; #count = #sum+) + exact-output correspondence of the normalize.py model + clingo oracle with facts over any predicate',
         'Proved: rhs2lhs/negate/compare table theorems (total, correct over Int), chain expansion preserves denotation for non-negated literals (negated chains: counterexample D8), #count=#sum+ over arbitrary tuple sets, tag injectivity. Tie: Normalize.lean (650 lines: preprocess up to unpool, exline, inline_arithmetic) vs normalize.py exactly, unpool and global_vars as parameters from the real run.',
         "Semantics is ours (published HT / Abstract-Gringo reading, ground level); the pass's syntactic decisions are tied to the schema's side conditions only through the clingo oracle on the real code; instance facts only over the declared/auto-detected inputs; findings per known_findings.json.", '§9 C05'),
 'C06': ('Lean 4 theorems (conservative extensions compose, projection injective, M3 both directions, M4 =>) + clingo oracle (voc(P) content and answer-set count)',
         'Proved: ConsExt transitivity and injectivity (same number of answer sets), auxiliary definitions are one-to-one extensions (non-recursive: both directions; positive-recursive: soundness only, partial). Observed on the real code under subsets of the seven traits.',
         "Semantics is ours (published HT / Abstract-Gringo reading, ground level); the pass's syntactic decisions are tied to the schema's side conditions only through the clingo oracle on the real code; instance facts only over the declared/auto-detected inputs; findings per known_findings.json.", '§9 C06'),
 'C09': ('Lean 4 theorems (definitional extension read backwards) + clingo oracle on IN u OUT with costs, random/auto declarations, targeted generator',
         "Proved: removing the plain rules of an unobserved predicate is the inverse of a one-to-one extension; remaining atoms unchanged. unused.py's scan/projection/copy decisions are validated on the real code (model Model/Unused.lean when integrated). Findings D31 and shared normal-form findings.",
         "Semantics is ours (published HT / Abstract-Gringo reading, ground level); the pass's syntactic decisions are tied to the schema's side conditions only through the clingo oracle on the real code; instance facts only over the declared/auto-detected inputs; findings per known_findings.json.", '§9 C09'),
 'C10': ('Lean 4 theorems (M3 + folding M3f) + clingo oracle on voc(P), targeted generator',
         "Proved: factoring = definitional extension + folding under the schema's hypotheses; pass decisions validated by the oracle.",
         "Semantics is ours (published HT / Abstract-Gringo reading, ground level); the pass's syntactic decisions are tied to the schema's side conditions only through the clingo oracle on the real code; instance facts only over the declared/auto-detected inputs; findings per known_findings.json.", '§9 C10'),
 'C11': ('Lean 4 theorems (!= to < for symmetric contexts with counterexample; two witnesses = count >= 2; aux rule extension) + clingo oracle, targeted generator',
         'Proved: the two ground-level equivalences and their failure without symmetry; the syntactic symmetry test is validated by the oracle (finding D28).',
         "Semantics is ours (published HT / Abstract-Gringo reading, ground level); the pass's syntactic decisions are tied to the schema's side conditions only through the clingo oracle on the real code; instance facts only over the declared/auto-detected inputs; findings per known_findings.json.", '§9 C11'),
 'C12': ('Lean 4 theorems (chain = <= max; result rule picks the max; empty case; M4 =>; telescoping) + clingo oracle incl. empty domains and costs, targeted generator over all guard shapes/signs',
         'Proved: ground-level correctness of the chain encoding over a finite domain with its covering relation, given a selected element; empty case needs the #inf/#sup rule (finding D1). Templates/decisions validated by the oracle (findings D1, D6, D7, D12, D15).',
         "Semantics is ours (published HT / Abstract-Gringo reading, ground level); the pass's syntactic decisions are tied to the schema's side conditions only through the clingo oracle on the real code; instance facts only over the declared/auto-detected inputs; findings per known_findings.json.", '§9 C12'),
 'C13': ('Lean 4 theorems (telescoping; disjoint tuple sets) + correspondence of the at-most-one / eligibility model + clingo oracle with per-group domains and costs',
         'Proved: telescoping for any sorted domain, sum over tagged tuple sets. Tie: Model/SumAgg.lean (AggAnalytics, at-most-one analysis, eligibility, potentially_unifying) vs sum_aggregates.py exactly. Rewriting templates validated by the oracle (findings D16, D17).',
         "Semantics is ours (published HT / Abstract-Gringo reading, ground level); the pass's syntactic decisions are tied to the schema's side conditions only through the clingo oracle on the real code; instance facts only over the declared/auto-detected inputs; findings per known_findings.json.", '§9 C13'),
 'C14': ('Lean 4 theorems (exact elimination iff divisibility, unit case, counterexample; table theorems; merge = sum of sums) + clingo oracle with integers of both signs, targeted generator',
         'Proved: elimination criterion and its failure for X = Y*3; nothing is proved about sympy (external parameter). Findings D5, D32, D33.',
         "Semantics is ours (published HT / Abstract-Gringo reading, ground level); the pass's syntactic decisions are tied to the schema's side conditions only through the clingo oracle on the real code; instance facts only over the declared/auto-detected inputs; findings per known_findings.json.", '§9 C14'),
 'C15': ('Lean 4 theorems (sum-of-sums iff disjoint with counterexample; helper removal = inverse extension) + clingo oracle on IN u OUT with costs, targeted generator',
         'Proved: flattening criterion; candidate selection/padding validated by the oracle (findings D11/D13).',
         "Semantics is ours (published HT / Abstract-Gringo reading, ground level); the pass's syntactic decisions are tied to the schema's side conditions only through the clingo oracle on the real code; instance facts only over the declared/auto-detected inputs; findings per known_findings.json.", '§9 C15'),
 'C04': ("Lean 4 theorems (rules created by projection safe by ngo's binding analysis; make_unique lexical; fresh predicates) + exact correspondence of the binding-analysis model + observation of ProgramBuilder / grounding / print-parse-print / AST-vs-text on the real code",
         "Proved about the models: C04_projection_safe, C04_make_unique_lexical, C04_fresh_predicates; the binding analysis is a total Lean function equal to utils/ast.py on all compared inputs. Observed (runtime facts of clingo, no model exhibits them): every returned statement is accepted by ProgramBuilder and grounds, prints to a fixpoint, and the AST path and the text path give the same answer sets. Findings D19, D30, D35; Variable('none') repaired.",
         "clingo's parser/printer/grounder are external; agreement of ngo's binding analysis with gringo's safety is decided by observation only.", '§9 C04'),
 'C17': ('Lean 4 permutation/set-invariance theorems for the hash-ordered iteration sites of the models + observation of the Python runtime (hash seeds, argument snapshots, call history)',
         "Proved: membership in auto_detect_input's result, success of the any-search over cleanup's mapping set and the names handed out by UniqueNames depend on their containers only as sets. NOT claimed: determinism of Lean functions (vacuous). Decided by observation on the real code: byte-identical stdout of `python -m ngo` under 8 quick / 48 thorough PYTHONHASHSEEDs, str() of every argument statement before/after optimize, same result after a history of unrelated calls and on a second call. One hash-order defect (unused) repaired.",
         'Hash seeds, id-keyed caches, AST.update aliasing and in-place edits are runtime behaviour no Lean model exhibits; an order dependence no explored program/seed exhibits is not detected.', '§9 C17'),
 'C20': ("Lean 4 theorems (executable order specification = least/greatest/covering relation for every integer list; M4 =>) + exact correspondence of the dependency.py model + extension-level comparison of clingo's answer sets with the specification recomputed by the Lean driver",
         'Proved: orderSpec (insertion sort w/o duplicates + consecutive pairs) yields exactly min, max and the covering relation (C20_order_spec_min/max/next). Tie: Dependency.lean (static analysis, domain computation, name memo, templates) vs dependency.py exactly. On the real code, per answer set and group: __min_/__max_/__next_ extensions = specification of the __dom_ extension; p subset of dom_p; dom_p equal across answer sets. Finding D6 (negation under-approximates).',
         "Only integer-valued groups are compared (clingo's term order is not modelled); M4's converse not proved.", '§9 C20'),
}
PENDING = {}
props = [json.loads(l) for l in open(os.path.join(VERIF, "properties.jsonl"))]
checks = []
na = []
for p in props:
    i = p["id"]
    if i in CLAIMED:
        tech, text, note, ref = CLAIMED[i]
        checks.append({
            "property_id": i,
            "quick_cmd": f"./check {i} --tier quick",
            "thorough_cmd": f"./check {i} --tier thorough",
            "evidence_file": f"evidence/{i}.json",
            "replay_cmd_template": "./check --replay {path}",
            "engine": "lean4-ngoverif",
            "level_claimed": {"category": "proof", "text": text, "design_ref": ref},
            "level_note": note,
            "technique": tech,
        })
    else:
        na.append({"property_id": i, "reason": PENDING.get(i, "check under construction in this build round (Lean model and correspondence not yet committed); not claimed until it is")})
m = {
 "version": 1,
 "setup_cmd": "cd lean && /venv/bin/python ../harness/extract_tables.py && lake build",
 "hooks": {"guard": "NGO_VERIF", "enable": "export NGO_VERIF=1 (set by ./check); ngo is installed editable, so checks see /repo/src directly",
           "baseline_off_cmd": "cd /repo && env -u NGO_VERIF /venv/bin/python -m pytest -ra -q -p no:cacheprovider --timeout=900 --continue-on-collection-errors",
           "source_commits": ["aba9689"], "add_only": True},
 "engines": [{"name": "lean4-ngoverif", "path": "lean/", "serves_properties": sorted(CLAIMED),
              "kind_free_text": "Lean 4.33 library NgoVerif (models, specifications, theorems; core Lean only so far) + compiled line-protocol driver; Python harness under harness/ drives the real ngo in-process and diffs"}],
 "checks": checks,
 "not_applicable": na,
 "notes": "Every check: regenerate tables from /repo -> lake build -> #print axioms audit -> correspondence -> known-finding replay -> failing-input search. See DESIGN.md.",
}
json.dump(m, open(os.path.join(VERIF, "MANIFEST.json"), "w"), indent=1)
print("claimed", sorted(CLAIMED), "na", len(na))
