#!/venv/bin/python
"""exploration tool: evaluate candidate defect witnesses on the real code (prints which ones fail now)"""
import json, os, sys
sys.path.insert(0, os.path.join(os.path.dirname(os.path.abspath(__file__)), "..", "harness"))
import semcheck, hyp
W = [
 ("D1", "C12", "best(P,X) :- p(P), X = #max{V : skill(P,V), chosen(V)}. {chosen(V)} :- skill(_,V).", ["minmax_chains"], ["p(1)."], "voc"),
 ("D5", "C14", "q(X) :- d(X), X = Y*3.", ["math"], ["d(4). d(3)."], "voc"),
 ("D6", "C20", "{q(X)} :- d(X). p(X) :- d(X), not q(X). m(M) :- M = #max{X : p(X)}.", ["minmax_chains"], ["d(1). d(2)."], "voc"),
 ("D7", "C07", "best(X,M) :- p(X), M = #max{V : skill(X,V), chosen(V)}. {chosen(V)} :- skill(_,V).", ["minmax_chains"], ["p(1). skill(1,3)."], "voc"),
 ("D11", "C15", "s(A,B) :- a(A), B = #sum{Y : person(A,Y)}. foo(X) :- X = #sum{F : s(V,F)}.", ["inline"], ["a(1). a(2). person(1,1). person(1,2). person(2,3)."], "inout"),
 ("D12", "C12", "a :- not 1 <= #min{W : b(W)}, d. b(0) :- a.", ["minmax_chains"], ["d."], "voc"),
 ("D13", "C15", ":~ f(Z); X=#count{a:a}, Y=#count{b:b}. [Z+X+Y@1] {a}. {b}.", ["math", "inline"], ["f(1). f(2)."], "inout"),
 ("D15", "C12", "{a(1..3)}. {b(1..3)}. x(M) :- M = #max{X : a(X)}. y(M) :- M = #max{X : b(X)}.", ["minmax_chains"], [""], "voc"),
 ("D16", "C13", "{ shift(D,L) : pshift(D,L) } 1 :- day(D). :~ shift(_,L). [L@1]", ["sum_chains"], ["day(1). day(2). pshift(1,3). pshift(1,5). pshift(2,4). pshift(2,6)."], "voc"),
 ("D17", "C13", "#sum{1 : shift(D,L) : pshift(D,L)} 1 :- day(D). a(X) :- X = #sum{L,D : shift(D,L)}.", ["sum_chains"], ["day(1). pshift(1,3). pshift(1,5)."], "voc"),
 ("D24", "C08", "{ a(X) : b(X); a(X) : c(X) }. ok(X) :- a(X), c(X).", ["cleanup"], ["b(1). c(2)."], "voc"),
 ("D25", "C08", "a(1..3) :- b(1..3). ok(X) :- a(X), b(X).", ["cleanup"], ["b(1)."], "voc"),
 ("C09a", "C09", "a(X) :- b(X). b(X) :- c(X). d :- a(1).", ["unused"], ["c(1)."], "inout"),
 ("C09b", "C09", "b(X) :- c(X). #show b/1.", ["unused"], ["c(1)."], "out"),
 ("C09c", "C09", "b(1,2). #show f(X) : b(X,_).", ["unused"], [""], "out"),
 ("C09d", "C09", "a(X,X) :- b(X,Y). q(P,Q) :- a(P,Q), c(P), c(Q).", ["unused"], ["b(1,2). c(1). c(2)."], "inout"),
 ("C09e", "C09", "not a :- b. a :- c. {c}.", ["unused"], ["b."], "inout"),
 ("C09f", "C09", "#false :- X = #sum { 1,e: e; 1,f: f; 1,g: g } <= 3; X >= 2; X = Y; 1 <= X != 4 < 5. {e;f;g}.", ["unused"], [""], "inout"),
 ("C11a", "C11", "f :- p(A), p(B), not A > B, A != B.", ["symmetry"], ["p(1). p(2)."], "voc"),
 ("C11b", "C11", "f(S) :- p(A), p(B), A != B, S = #sum{ 1,A : q(A) }.", ["symmetry"], ["p(1). p(2). q(1)."], "voc"),
 ("C11c", "C11", "f :- p(A,X), p(B,X), q(A,Y), q(Y,B), A != B.", ["symmetry"], ["p(1,1). p(2,1). q(1,2). q(2,2)."], "voc"),
 ("C12a", "C12", "{q(1..3)}. a :- not 2 < #max{X : q(X)}.", ["minmax_chains"], [""], "voc"),
 ("C12b", "C12", "{q(1..3)}. r(A,B) :- A = #max{X : q(X)}, B = #min{X : q(X)}.", ["minmax_chains"], [""], "voc"),
 ("C14a", "C14", "lim3 :- N = #count{M: member(M)}, #sum{1,M2: due(M2,N)} 1.", ["math"], ["member(1). member(2). due(1,2). due(2,2). due(3,1)."], "voc"),
 ("C05a", "C05", "a :- 2 { #true; not #false; #true : b }. {b}.", [], [""], "all"),
 ("C02b", "C15", ":~ a(A); B = #sum+{Y : p(A,Y)}. [B@0,A]", ["inline"], ["a(1). p(1,-2). p(1,3)."], "inout"),
 ("C13b", "C13", "{ shift(D,L) : pshift(D,L) } 1 :- day(D). a(X) :- X = #sum{L : shift(_,L)}.", ["sum_chains"], ["day(1). day(2). pshift(1,3). pshift(2,3). pshift(2,5)."], "voc"),
 ("C04a", "C04", "a :- 1 { not not p(_) }. p(1).", [], [""], "all"),
 ("C10a", "C10", "a(X) :- b(X), c(Y) : d(X,Y), e(Y). f(X) :- b(X), c(Y) : d(X,Y), e(Y); g.", ["duplication"], ["b(1). d(1,2). e(2). g."], "voc"),
]
for wid, prop, prog, traits, insts, rel in W:
    case = dict(program=prog, inp="auto", outp="auto", flags=semcheck.flags_only(*traits), relation=rel, seed=0, instances=insts,
                facts_over="in", label=wid)
    r = semcheck.evaluate_case(case)
    print(wid, prop, r["status"], (r.get("why") or r.get("error") or "")[:120])
    if r["status"] not in ("ok",):
        print("   keys:", sorted(hyp.falsified(prog, case["flags"], r)))
    print("   RES:", (r.get("result") or "").replace("\n", " | ")[:260])
    if r.get("source_models") is not None:
        print("   src-only:", r["source_models"][:2], " res-only:", r["result_models"][:2])
