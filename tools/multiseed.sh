#!/bin/bash
# multiseed.sh <first-seed> <last-seed> [props...]: runs the quick checks on the UNCHANGED tree in a scratch copy of
# /verif for several VERIF_SEED values and reports every non-zero exit (a check must stay green for every seed)
A=$1; B=$2; shift 2
PROPS=${@:-C01 C02 C03 C04 C05 C06 C07 C08 C09 C10 C11 C12 C13 C14 C15 C16 C17 C18 C19 C20}
mkdir -p /tmp/ms; rsync -a --delete --exclude .git /verif/ /tmp/ms/verif/
mkdir -p /tmp/ms/fail
for s in $(seq $A $B); do
  for p in $PROPS; do
    out=$(cd /tmp/ms/verif && VERIF_SEED=$s ./check $p 2>&1); rc=$?
    echo "seed=$s $p exit=$rc $(echo "$out" | tail -1 | cut -c1-140)"
    if [ $rc -ne 0 ]; then mkdir -p /tmp/ms/fail/${p}_$s; cp /tmp/ms/verif/replays/${p}_* /tmp/ms/fail/${p}_$s/ 2>/dev/null; echo "$out" > /tmp/ms/fail/${p}_$s/out.txt; fi
  done
done
echo MULTISEED-DONE
