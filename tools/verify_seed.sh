#!/bin/bash
# verify_seed.sh <dir with patch.diff demo.py meta.json> : confirms in a scratch worktree of /repo HEAD that
# demo passes on clean code, patch applies, the 466 tests still pass, demo fails with the patch.
D="$1"; NAME="$(echo "$D" | tr '/' '_')"
WT="/tmp/vs/$NAME"
rm -rf "$WT"; mkdir -p /tmp/vs
git -C /repo worktree add --detach "$WT" >/dev/null 2>&1 || { echo "$D: worktree failed"; exit 2; }
cd "$WT"
res=""
PYTHONPATH="$WT/src" timeout 600 /venv/bin/python "$D/demo.py" >/tmp/vs/$NAME.clean.log 2>&1; c=$?
git apply "$D/patch.diff" 2>/tmp/vs/$NAME.apply.log; a=$?
t=-1; p=-1
if [ $a -eq 0 ]; then
  PYTHONPATH="$WT/src" timeout 900 /venv/bin/python -m pytest -q -p no:cacheprovider -n 4 --timeout=900 >/tmp/vs/$NAME.test.log 2>&1; t=$?
  PYTHONPATH="$WT/src" timeout 600 /venv/bin/python "$D/demo.py" >/tmp/vs/$NAME.patched.log 2>&1; p=$?
fi
cd /; git -C /repo worktree remove --force "$WT"
ok=BAD; if [ $c -eq 0 ] && [ $a -eq 0 ] && [ $t -eq 0 ] && [ $p -ne 0 ]; then ok=OK; fi
echo "$D: $ok demo_clean=$c apply=$a tests=$t demo_patched=$p"
